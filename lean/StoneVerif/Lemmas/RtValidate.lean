import StoneVerif.Model.Rt.SpecC08
import StoneVerif.Model.Rt.Ir
import StoneVerif.Model.Rt.Decode
import StoneVerif.Model.Rt.WF
/-! Helper lemmas for C08: the validators against the shallow acceptance predicate `satB`. -/
set_option linter.unusedSimpArgs false
set_option linter.unusedVariables false
namespace StoneVerif.Rt.V8
open StoneVerif.Rt

def IsVerr {α} : R α → Prop
  | .error (.verr _) => True
  | _ => False

@[simp, grind =] theorem isVerr_error {α} (e : Err) : IsVerr (α := α) (.error e) = (∃ h, e = .verr h) := by
  cases e <;> simp [IsVerr]
@[simp, grind =] theorem isVerr_verr {α} (h : String) : IsVerr (α := α) (verr h) = True := by simp [IsVerr, verr]
@[simp, grind =] theorem isVerr_ok {α} (a : α) : IsVerr (α := α) (.ok a) = False := by simp [IsVerr]
@[simp] theorem verr_ne_ok {α} (h : String) (a : α) : (verr h : R α) ≠ .ok a := by simp [verr]

def Good {α} (acc : Bool) (r : R α) (n : α) : Prop :=
  (acc = true ∧ r = .ok n) ∨ (acc = false ∧ IsVerr r)

theorem IsVerr.exists {α} {r : R α} (h : IsVerr r) : ∃ s, r = .error (.verr s) := by
  cases r with
  | ok _ => simp at h
  | error e => simpa using h

theorem Good.map {α β} {a : Bool} {r : R α} {n : α} (f : α → β) (h : Good a r n) : Good a (Except.map f r) (f n) := by
  rcases h with ⟨h1, h2⟩ | ⟨h1, h2⟩
  · left; simp [h1, h2, Except.map]
  · right; cases r with
    | ok _ => simp at h2
    | error e => simpa [h1, Except.map] using h2

theorem spec_leaf (E env t) (v : PyVal) (h1 : ∀ xs, v ≠ .list xs)  (h2 : ∀ xs, v ≠ .tuple xs) (h3 : ∀ xs, v ≠ .dict xs) : Good (satB E env t v) (validate E env t v) (normOf E t v) := by
  cases hn : t.flags.nullable <;> cases v <;> simp at h1 h2 h3 <;> cases t <;> simp only [PTy.flags] at hn <;>
  simp [hn, Good, satB, validate, normOf, isNoneV, validPrim, structSat, unionSat, structTypeOk, structFieldsOk, unionTypeOk, intOf, fltOf, PTy.flags] <;> (try grind [inRange])
  all_goals (rename_i lo hi; cases lo <;> cases hi <;> (try simp [inRange]) <;> grind [inRange])

mutual
theorem validate_spec (E : Ext) (env : Env) (t : PTy) : (v : PyVal) → Good (satB E env t v) (validate E env t v) (normOf E t v)
  | .list xs => by
    have ih := fun item => validateList_spec E env item xs
    cases hn : t.flags.nullable <;> cases t <;> simp only [PTy.flags] at hn <;>
    simp [hn, Good, satB, validate, normOf, isNoneV, validPrim, structSat, unionSat, structTypeOk, structFieldsOk, unionTypeOk, intOf, fltOf, PTy.flags]
    all_goals
      rename_i item lo hi
      have h := (ih item).map PyVal.list
      cases h1 : geOpt hi xs.length <;> cases h2 : leOpt lo xs.length <;> simp [Good] at h ⊢ <;> (try exact h)
  | .tuple xs => by
    have ih := fun item => validateList_spec E env item xs
    cases hn : t.flags.nullable <;> cases t <;> simp only [PTy.flags] at hn <;>
    simp [hn, Good, satB, validate, normOf, isNoneV, validPrim, structSat, unionSat, structTypeOk, unionTypeOk, intOf, fltOf, PTy.flags]
    all_goals
      rename_i item lo hi
      have h := (ih item).map PyVal.list
      cases h1 : geOpt hi xs.length <;> cases h2 : leOpt lo xs.length <;> simp [Good] at h ⊢ <;> (try exact h)
  | .dict kvs => by
    have ih := fun kt vt => validateDict_spec E env kt vt kvs
    cases hn : t.flags.nullable <;> cases t <;> simp only [PTy.flags] at hn <;>
    simp [hn, Good, satB, validate, normOf, isNoneV, validPrim, structSat, unionSat, structTypeOk, unionTypeOk, intOf, fltOf, PTy.flags]
    all_goals
      rename_i kt vt
      have h := (ih kt vt).map PyVal.dict
      simpa [Good] using h
  | .none => spec_leaf E env t _ (by simp) (by simp) (by simp)
  | .bool _ => spec_leaf E env t _ (by simp) (by simp) (by simp)
  | .int _ => spec_leaf E env t _ (by simp) (by simp) (by simp)
  | .flt _ => spec_leaf E env t _ (by simp) (by simp) (by simp)
  | .str _ => spec_leaf E env t _ (by simp) (by simp) (by simp)
  | .bytes _ => spec_leaf E env t _ (by simp) (by simp) (by simp)
  | .ts _ _ => spec_leaf E env t _ (by simp) (by simp) (by simp)
  | .struct _ _ => spec_leaf E env t _ (by simp) (by simp) (by simp)
  | .union _ _ _ => spec_leaf E env t _ (by simp) (by simp) (by simp)
  | .other _ => spec_leaf E env t _ (by simp) (by simp) (by simp)
theorem validateList_spec (E : Ext) (env : Env) (t : PTy) : (xs : List PyVal) → Good (satList E env t xs) (validateList E env t xs) (normList E t xs)
  | [] => by simp [Good, satList, validateList, normList]
  | x :: xs => by
    have h1 := validate_spec E env t x
    have h2 := validateList_spec E env t xs
    rcases h1 with ⟨a1, b1⟩ | ⟨a1, b1⟩
    · rcases h2 with ⟨a2, b2⟩ | ⟨a2, b2⟩
      · simp [Good, satList, validateList, normList, a1, a2, b1, b2, bind, Except.bind, pure, Except.pure]
      · obtain ⟨s, hs⟩ := b2.exists
        simp [Good, satList, validateList, normList, a1, a2, b1, hs, bind, Except.bind, pure, Except.pure]
    · obtain ⟨s, hs⟩ := b1.exists
      simp [Good, satList, validateList, normList, a1, hs, bind, Except.bind, pure, Except.pure]
theorem validateDict_spec (E : Ext) (env : Env) (kt vt : PTy) : (kvs : List (PyVal × PyVal)) → Good (satDict E env kt vt kvs) (validateDict E env kt vt kvs) (normDict E kt vt kvs)
  | [] => by simp [Good, satDict, validateDict, normDict]
  | (k, x) :: rest => by
    have h1 := validate_spec E env kt k
    have h2 := validate_spec E env vt x
    have h3 := validateDict_spec E env kt vt rest
    rcases h1 with ⟨a1, b1⟩ | ⟨a1, b1⟩
    · rcases h2 with ⟨a2, b2⟩ | ⟨a2, b2⟩
      · rcases h3 with ⟨a3, b3⟩ | ⟨a3, b3⟩
        · simp [Good, satDict, validateDict, normDict, a1, a2, a3, b1, b2, b3, bind, Except.bind, pure, Except.pure]
        · obtain ⟨s, hs⟩ := b3.exists
          simp [Good, satDict, validateDict, normDict, a1, a2, a3, b1, b2, hs, bind, Except.bind, pure, Except.pure]
      · obtain ⟨s, hs⟩ := b2.exists
        simp [Good, satDict, validateDict, normDict, a1, a2, b1, hs, bind, Except.bind, pure, Except.pure]
    · obtain ⟨s, hs⟩ := b1.exists
      simp [Good, satDict, validateDict, normDict, a1, hs, bind, Except.bind, pure, Except.pure]
end

/-! ### the normalised value is again acceptable, and normalising is idempotent -/

def NormOk (E : Ext) (env : Env) (t : PTy) (v : PyVal) : Prop :=
  satB E env t v = true → satB E env t (normOf E t v) = true ∧ normOf E t (normOf E t v) = normOf E t v

theorem normList_length (E t) (xs : List PyVal) : (normList E t xs).length = xs.length := by
  induction xs with
  | nil => simp [normList]
  | cons x xs ih => simp [normList, ih]

theorem norm_leaf (E env t) (v : PyVal) (h1 : ∀ xs, v ≠ .list xs)  (h2 : ∀ xs, v ≠ .tuple xs) (h3 : ∀ xs, v ≠ .dict xs) : NormOk E env t v := by
  cases hn : t.flags.nullable <;> cases v <;> simp at h1 h2 h3 <;> cases t <;> simp only [PTy.flags] at hn <;>
  simp [hn, NormOk, satB, normOf, isNoneV, validPrim, structSat, unionSat, PTy.flags] <;> (try grind [normOf, satB, validPrim, PTy.flags, isNoneV])

mutual
theorem norm_sat (E : Ext) (env : Env) (t : PTy) : (v : PyVal) → NormOk E env t v
  | .list xs => by
    have ih := fun item => normList_sat E env item xs
    have hl := fun item => normList_length E item xs
    cases hn : t.flags.nullable <;> cases t <;> simp only [PTy.flags] at hn <;>
    simp [hn, hl, NormOk, satB, normOf, isNoneV, validPrim, structSat, unionSat, PTy.flags]
    all_goals
      rename_i item lo hi
      have h := ih item
      grind
  | .tuple xs => by
    have ih := fun item => normList_sat E env item xs
    have hl := fun item => normList_length E item xs
    cases hn : t.flags.nullable <;> cases t <;> simp only [PTy.flags] at hn <;>
    simp [hn, hl, NormOk, satB, normOf, isNoneV, validPrim, structSat, unionSat, PTy.flags]
    all_goals
      rename_i item lo hi
      have h := ih item
      grind
  | .dict kvs => by
    have ih := fun kt vt => normDict_sat E env kt vt kvs
    cases hn : t.flags.nullable <;> cases t <;> simp only [PTy.flags] at hn <;>
    simp [hn, NormOk, satB, normOf, isNoneV, validPrim, structSat, unionSat, PTy.flags]
    all_goals
      rename_i kt vt
      exact ih kt vt
  | .none => norm_leaf E env t _ (by simp) (by simp) (by simp)
  | .bool _ => norm_leaf E env t _ (by simp) (by simp) (by simp)
  | .int _ => norm_leaf E env t _ (by simp) (by simp) (by simp)
  | .flt _ => norm_leaf E env t _ (by simp) (by simp) (by simp)
  | .str _ => norm_leaf E env t _ (by simp) (by simp) (by simp)
  | .bytes _ => norm_leaf E env t _ (by simp) (by simp) (by simp)
  | .ts _ _ => norm_leaf E env t _ (by simp) (by simp) (by simp)
  | .struct _ _ => norm_leaf E env t _ (by simp) (by simp) (by simp)
  | .union _ _ _ => norm_leaf E env t _ (by simp) (by simp) (by simp)
  | .other _ => norm_leaf E env t _ (by simp) (by simp) (by simp)
theorem normList_sat (E : Ext) (env : Env) (t : PTy) : (xs : List PyVal) → satList E env t xs = true →
    satList E env t (normList E t xs) = true ∧ normList E t (normList E t xs) = normList E t xs
  | [] => by simp [satList, normList]
  | x :: xs => by
    have h1 := norm_sat E env t x
    have h2 := normList_sat E env t xs
    simp [satList, normList, NormOk] at h1 h2 ⊢
    grind
theorem normDict_sat (E : Ext) (env : Env) (kt vt : PTy) : (kvs : List (PyVal × PyVal)) → satDict E env kt vt kvs = true →
    satDict E env kt vt (normDict E kt vt kvs) = true ∧ normDict E kt vt (normDict E kt vt kvs) = normDict E kt vt kvs
  | [] => by simp [satDict, normDict]
  | (k, x) :: rest => by
    have h1 := norm_sat E env kt k
    have h2 := norm_sat E env vt x
    have h3 := normDict_sat E env kt vt rest
    simp [satDict, normDict, NormOk] at h1 h2 h3 ⊢
    grind
end

/-! ### validate_type_only -/

theorem validateTypeOnly_eq (env : Env) (t : PTy) (v : PyVal) :
    (typeOnlyB env t v = true ∧ validateTypeOnly env t v = .ok ()) ∨
    (typeOnlyB env t v = false ∧ isUserTyC08 t = true ∧ IsVerr (validateTypeOnly env t v)) ∨
    (typeOnlyB env t v = false ∧ isUserTyC08 t = false ∧ validateTypeOnly env t v = .error (.crash "AttributeError")) := by
  cases hn : t.flags.nullable <;> cases t <;> simp only [PTy.flags] at hn <;> cases v <;>
  simp [hn, typeOnlyB, classSat, validateTypeOnly, isUserTyC08, isNoneV, unionSat, structTypeOk, unionTypeOk, PTy.flags, crash] <;>
  grind

/-! ### slots -/

theorem lookupSlot_setSlot (n : String) (x : PyVal) (slots : List (String × PyVal)) :
    lookupSlot n (setSlot n x slots) = some x := by
  induction slots with
  | nil => simp [setSlot, lookupSlot]
  | cons kv rest ih =>
    obtain ⟨k, w⟩ := kv
    by_cases h : (k == n) = true <;> simp [setSlot, lookupSlot, h, ih]

theorem lookupSlot_setSlot_ne (n m : String) (x : PyVal) (slots : List (String × PyVal)) (hne : m ≠ n) :
    lookupSlot m (setSlot n x slots) = lookupSlot m slots := by
  induction slots with
  | nil => simp [setSlot, lookupSlot]; intro h; exact hne h.symm
  | cons kv rest ih =>
    obtain ⟨k, w⟩ := kv
    by_cases h : (k == n) = true
    · have : k = n := by simpa using h
      subst this
      have : ¬ (k = m) := fun e => hne e.symm
      simp [setSlot, lookupSlot, h, this]
    · by_cases h2 : (k == m) = true <;> simp [setSlot, lookupSlot, h, h2, ih]

theorem lookupSlot_none_of_not_mem (n : String) (slots : List (String × PyVal))
    (h : (slots.map (·.1)).contains n = false) : lookupSlot n slots = none := by
  induction slots with
  | nil => simp [lookupSlot]
  | cons kv rest ih =>
    obtain ⟨k, w⟩ := kv
    simp at h
    have hk : (k == n) = false := by simp; intro e; exact h.1 e.symm
    simp [lookupSlot, hk]
    apply ih
    simp; exact h.2

theorem lookupSlot_delSlot (n : String) (slots : List (String × PyVal))
    (h : nodupS (slots.map (·.1)) = true) : lookupSlot n (delSlot n slots) = none := by
  induction slots with
  | nil => simp [delSlot, lookupSlot]
  | cons kv rest ih =>
    obtain ⟨k, w⟩ := kv
    simp [nodupS] at h
    by_cases hk : (k == n) = true
    · have : k = n := by simpa using hk
      subst this
      simp [delSlot]
      apply lookupSlot_none_of_not_mem
      simp; exact h.1
    · simp [delSlot, hk, lookupSlot]
      exact ih h.2

theorem lookupSlot_delSlot_ne (n m : String) (slots : List (String × PyVal)) (hne : m ≠ n) :
    lookupSlot m (delSlot n slots) = lookupSlot m slots := by
  induction slots with
  | nil => simp [delSlot]
  | cons kv rest ih =>
    obtain ⟨k, w⟩ := kv
    by_cases h : (k == n) = true
    · have : k = n := by simpa using h
      subst this
      have : (k == m) = false := by simp; exact fun e => hne e.symm
      simp [delSlot, lookupSlot, this]
    · by_cases h2 : (k == m) = true <;> simp [delSlot, lookupSlot, h, h2, ih]

theorem keys_delSlot_sub (n : String) (slots : List (String × PyVal)) (m : String) :
    ((delSlot n slots).map (·.1)).contains m = true → (slots.map (·.1)).contains m = true := by
  induction slots with
  | nil => simp [delSlot]
  | cons kv rest ih =>
    obtain ⟨k, w⟩ := kv
    by_cases h : (k == n) = true
    · simp [delSlot, h]; intro a b; exact Or.inr ⟨a, b⟩
    · simp [delSlot, h] at ih ⊢
      grind

theorem nodupS_delSlot (n : String) (slots : List (String × PyVal))
    (h : nodupS (slots.map (·.1)) = true) : nodupS ((delSlot n slots).map (·.1)) = true := by
  induction slots with
  | nil => simp [delSlot, nodupS]
  | cons kv rest ih =>
    obtain ⟨k, w⟩ := kv
    simp [nodupS] at h
    by_cases hk : (k == n) = true
    · simp [delSlot, hk]; exact h.2
    · simp [delSlot, hk, nodupS]
      refine ⟨?_, ih h.2⟩
      intro x hx
      have := keys_delSlot_sub n rest k (by simp; exact ⟨x, hx⟩)
      simp at this
      obtain ⟨y, hy⟩ := this
      exact h.1 y hy

theorem keys_setSlot_sub (n : String) (x : PyVal) (slots : List (String × PyVal)) (m : String) :
    ((setSlot n x slots).map (·.1)).contains m = true → m = n ∨ (slots.map (·.1)).contains m = true := by
  induction slots with
  | nil => simp [setSlot]
  | cons kv rest ih =>
    obtain ⟨k, w⟩ := kv
    by_cases h : (k == n) = true
    · simp [setSlot, h]; grind
    · simp [setSlot, h] at ih ⊢
      grind

theorem nodupS_setSlot (n : String) (x : PyVal) (slots : List (String × PyVal))
    (h : nodupS (slots.map (·.1)) = true) : nodupS ((setSlot n x slots).map (·.1)) = true := by
  induction slots with
  | nil => simp [setSlot, nodupS]
  | cons kv rest ih =>
    obtain ⟨k, w⟩ := kv
    simp [nodupS] at h
    by_cases hk : (k == n) = true
    · simp [setSlot, hk, nodupS]; exact h
    · simp [setSlot, hk, nodupS]
      refine ⟨?_, ih h.2⟩
      intro y hy
      have := keys_setSlot_sub n x rest k (by simp; exact ⟨y, hy⟩)
      simp at this hk
      rcases this with e | ⟨z, hz⟩
      · exact hk e
      · exact h.1 z hz

/-! ### Attribute.__set__ -/

theorem attrSet_unfold (E : Ext) (env : Env) (f : FieldDef) (slots : List (String × PyVal)) (x : PyVal) :
    attrSet E env f slots x =
      if f.attrNullable && isNoneV x then .ok (delSlot f.name slots)
      else if f.attrUserDefined then (validateTypeOnly env f.ty x).map fun _ => setSlot f.name x slots
      else (validate E env f.ty x).map fun x' => setSlot f.name x' slots := by
  cases x <;> simp [attrSet, isNoneV, bind, Except.bind, pure, Except.pure, Except.map] <;> rfl

/-- the slots after a successful assignment -/
def slotsAfter (E : Ext) (f : FieldDef) (slots : List (String × PyVal)) (x : PyVal) : List (String × PyVal) :=
  if f.attrNullable && isNoneV x then delSlot f.name slots else setSlot f.name (storedOf E f x) slots

theorem attrSet_spec (E : Ext) (env : Env) (f : FieldDef) (slots : List (String × PyVal)) (x : PyVal) :
    (fieldSat E env f x = true ∧ attrSet E env f slots x = .ok (slotsAfter E f slots x)) ∨
    (fieldSat E env f x = false ∧ IsVerr (attrSet E env f slots x)) ∨
    (fieldSat E env f x = false ∧ f.attrUserDefined = true ∧ isUserTyC08 f.ty = false ∧
      attrSet E env f slots x = .error (.crash "AttributeError")) := by
  rw [attrSet_unfold]
  cases hN : (f.attrNullable && isNoneV x)
  · cases hU : f.attrUserDefined
    · rcases validate_spec E env f.ty x with ⟨a, b⟩ | ⟨a, b⟩
      · left
        simp [fieldSat, hN, hU, a, b, slotsAfter, storedOf, Except.map]
      · right; left
        obtain ⟨m, hm⟩ := b.exists
        simp [fieldSat, hN, hU, a, hm, Except.map]
    · rcases validateTypeOnly_eq env f.ty x with ⟨a, b⟩ | ⟨a, c, b⟩ | ⟨a, c, b⟩
      · left
        simp [fieldSat, hN, hU, a, b, slotsAfter, storedOf, Except.map]
      · right; left
        obtain ⟨m, hm⟩ := b.exists
        simp [fieldSat, hN, hU, a, hm, Except.map]
      · right; right
        simp [fieldSat, hN, hU, a, c, b, Except.map]
  · left
    simp [fieldSat, hN, slotsAfter]

theorem attrGet_slotsAfter (E : Ext) (f : FieldDef) (slots : List (String × PyVal)) (x : PyVal)
    (hnd : nodupS (slots.map (·.1)) = true) :
    attrGet f (slotsAfter E f slots x) = some (storedOf E f x) := by
  by_cases hN : (f.attrNullable && isNoneV x) = true
  · have h1 : f.attrNullable = true := by simp at hN; exact hN.1
    have h2 : x = .none := by
      have : isNoneV x = true := by simp at hN; exact hN.2
      cases x <;> simp [isNoneV] at this ⊢
    subst h2
    have : storedOf E f .none = .none := by
      simp [storedOf]; cases f.attrUserDefined <;> simp; cases f.ty <;> simp [normOf]
    simp [slotsAfter, isNoneV, attrGet, lookupSlot_delSlot _ _ hnd, h1, this]
  · simp [slotsAfter, hN, attrGet, lookupSlot_setSlot]

/-- without the uniqueness of slot names the read after a *set* (not an unset) is still right -/
theorem attrGet_slotsAfter_set (E : Ext) (f : FieldDef) (slots : List (String × PyVal)) (x : PyVal)
    (hN : (f.attrNullable && isNoneV x) = false) :
    attrGet f (slotsAfter E f slots x) = some (storedOf E f x) := by
  simp [slotsAfter, hN, attrGet, lookupSlot_setSlot]

theorem nodupS_slotsAfter (E : Ext) (f : FieldDef) (slots : List (String × PyVal)) (x : PyVal)
    (hnd : nodupS (slots.map (·.1)) = true) : nodupS ((slotsAfter E f slots x).map (·.1)) = true := by
  unfold slotsAfter
  split
  · exact nodupS_delSlot _ _ hnd
  · exact nodupS_setSlot _ _ _ hnd

theorem lookupSlot_slotsAfter_ne (E : Ext) (f : FieldDef) (slots : List (String × PyVal)) (x : PyVal) (m : String)
    (hne : m ≠ f.name) : lookupSlot m (slotsAfter E f slots x) = lookupSlot m slots := by
  unfold slotsAfter
  split
  · exact lookupSlot_delSlot_ne _ _ _ hne
  · exact lookupSlot_setSlot_ne _ _ _ _ hne

/-! ### Union.__init__ -/

theorem mkUnion_unfold (E : Ext) (env : Env) (cls tag : String) (x : PyVal) (u : UnionDef) (hu : env.union? cls = some u) :
    mkUnion E env cls tag x =
      match u.ctorValidator tag with
      | none => verr "invalid tag"
      | some t =>
        if !t.flags.nullable && isVoidT t then
          (if isNoneV x then .ok (.union cls tag .none) else verr "void member must have None value")
        else if !t.flags.nullable && isUserTyC08 t then (validateTypeOnly env t x).map fun _ => .union cls tag x
        else (validate E env t x).map fun _ => .union cls tag x := by
  simp only [mkUnion, hu]
  cases u.ctorValidator tag with
  | none => rfl
  | some t =>
    cases t <;> cases x <;> simp [isVoidT, isUserTyC08, isNoneV, bind, Except.bind, pure, Except.pure, Except.map] <;> rfl

theorem validateTypeOnly_good (env : Env) (t : PTy) (v : PyVal) (ht : isUserTyC08 t = true) :
    Good (typeOnlyB env t v) (validateTypeOnly env t v) () := by
  rcases validateTypeOnly_eq env t v with ⟨a, b⟩ | ⟨a, c, b⟩ | ⟨a, c, b⟩
  · exact Or.inl ⟨a, b⟩
  · exact Or.inr ⟨a, b⟩
  · rw [ht] at c; cases c

theorem mkUnion_good (E : Ext) (env : Env) (cls tag : String) (x : PyVal) (u : UnionDef) (hu : env.union? cls = some u)
    (t : PTy) (hc : u.ctorValidator tag = some t) :
    Good (memberSat E env t x) (mkUnion E env cls tag x) (.union cls tag x) := by
  rw [mkUnion_unfold E env cls tag x u hu]
  simp only [hc]
  unfold memberSat
  by_cases hV : (!t.flags.nullable && isVoidT t) = true
  · simp only [hV, if_true]
    cases hx : isNoneV x
    · right; simp
    · left
      have : x = .none := by cases x <;> simp [isNoneV] at hx ⊢
      subst this
      simp
  · simp only [hV, if_false]
    by_cases hS : (!t.flags.nullable && isUserTyC08 t) = true
    · simp only [hS, if_true]
      have hut : isUserTyC08 t = true := by simp at hS; exact hS.2
      exact (validateTypeOnly_good env t x hut).map _
    · simp only [hS, if_false]
      have := (validate_spec E env t x).map fun _ => PyVal.union cls tag x
      exact this

theorem mkUnion_none (E : Ext) (env : Env) (cls tag : String) (x : PyVal) (u : UnionDef) (hu : env.union? cls = some u)
    (hc : u.ctorValidator tag = none) : IsVerr (mkUnion E env cls tag x) := by
  rw [mkUnion_unfold E env cls tag x u hu]
  simp [hc]

end StoneVerif.Rt.V8
