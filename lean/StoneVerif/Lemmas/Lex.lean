import StoneVerif.Model.Lex
/-! Lemmas about the line-level lexer model (C11): `normGo` / `lastFlag` algebra, the `event` view of the
newline and comment rules, the blank-line simulation (`strip_sim`), `scan` (dent balance), append and
congruence lemmas for `runL`, `join`. -/
namespace StoneVerif.Lex

/-! ### `normGo`, `lastFlag` -/

@[simp] theorem lastFlag_nil (g) : lastFlag g [] = g := rfl
@[simp] theorem lastFlag_cons (g t r) : lastFlag g (t :: r) = lastFlag (t == .newline) r := rfl

theorem lastFlag_append (g : Bool) (a b : List Tok) : lastFlag g (a ++ b) = lastFlag (lastFlag g a) b := by
  induction a generalizing g with
  | nil => rfl
  | cons t r ih => simp [ih]

theorem normGo_append (g : Bool) (a b : List Tok) :
    normGo g (a ++ b) = normGo g a ++ normGo (lastFlag g a) b := by
  induction a generalizing g with
  | nil => simp [normGo]
  | cons t r ih =>
    by_cases ht : t = .newline
    · subst ht
      cases g <;> simp [normGo, ih]
    · have : (t == Tok.newline) = false := by simpa using ht
      simp [normGo, ht, ih, this]

theorem lastFlag_normGo (g : Bool) (a : List Tok) : lastFlag g (normGo g a) = lastFlag g a := by
  induction a generalizing g with
  | nil => simp [normGo]
  | cons t r ih =>
    by_cases ht : t = .newline
    · subst ht
      cases g <;> simp [normGo, ih]
    · have : (t == Tok.newline) = false := by simpa using ht
      simp [normGo, ht, ih, this]

@[simp] theorem normGo_true_nl (r : List Tok) : normGo true (.newline :: r) = normGo true r := by
  simp [normGo]

theorem normGo_nl_nl (g : Bool) (r : List Tok) :
    normGo g (.newline :: .newline :: r) = normGo g (.newline :: r) := by
  cases g <;> simp [normGo]

/-! ### the two rules as one `event` -/

/-- what the rule that consumes a line end does: `nl` = it emits a `NEWLINE` itself (in `INITIAL`) -/
def event (nl : Bool) (cur depth : Nat) (next : Option Line) : Res :=
  if depth = 0 then
    { toks := (if nl then [.newline] else []) ++ (nextLineDent cur next).1, errs := (nextLineDent cur next).2.2,
      cur := (nextLineDent cur next).2.1, depth }
  else
    { toks := [], errs := checkForIndent cur next, cur, depth }

theorem newlineRule_eq (cur depth next) : newlineRule cur depth next = event true cur depth next := by
  unfold newlineRule event
  split <;> simp

theorem commentRule_full (cur depth next) : commentRule .fullLine cur depth next = event false cur depth next := by
  unfold commentRule event
  split <;> simp

theorem commentRule_partial (cur depth next) :
    commentRule .partialLine cur depth next = event true cur depth next := by
  unfold commentRule event
  split <;> simp

/-- the `NEWLINE` a rule emits itself -/
def pre (nl : Bool) (depth : Nat) : List Tok := if nl && depth == 0 then [.newline] else []

theorem event_toks (nl cur depth next) :
    (event nl cur depth next).toks = pre nl depth ++ (event false cur depth next).toks := by
  unfold event pre
  by_cases h : depth = 0 <;> cases nl <;> simp [h]

@[simp] theorem event_errs (nl cur depth next) : (event nl cur depth next).errs = (event false cur depth next).errs := by
  unfold event; split <;> rfl
@[simp] theorem event_cur (nl cur depth next) : (event nl cur depth next).cur = (event false cur depth next).cur := by
  unfold event; split <;> rfl
@[simp] theorem event_depth (nl cur depth next) : (event nl cur depth next).depth = depth := by
  unfold event; split <;> rfl

theorem indentDelta_blank (cur : Nat) (l : Line) (h : l.body.isSig = false) :
    indentDelta cur (some l) = (none, []) := by
  unfold indentDelta
  cases hb : l.body <;> simp_all [Body.isSig]

theorem event_blank (cur depth : Nat) (l : Line) (h : l.body.isSig = false) :
    event false cur depth (some l) = { toks := [], errs := [], cur, depth } := by
  unfold event nextLineDent checkForIndent
  simp [indentDelta_blank cur l h]

theorem event_none (cur depth : Nat) : event false cur depth none = { toks := [], errs := [], cur, depth } := by
  unfold event nextLineDent checkForIndent
  simp [indentDelta]

theorem event_zero (l : Line) (h : l.indent = 0) :
    event false 0 0 (some l) = { toks := [], errs := [], cur := 0, depth := 0 } := by
  obtain ⟨i, b⟩ := l
  simp only at h
  subst h
  cases b <;> simp [event, nextLineDent, indentDelta, indentUnit]

/-! ### `stepLine` through `event` -/

theorem stepLine_sig (first cur depth i toks trail next) :
    stepLine first cur depth ⟨i, .sig toks trail⟩ next =
      { toks := (emitToks depth toks).1 ++ (event true cur (emitToks depth toks).2.2 next).toks,
        errs := (emitToks depth toks).2.1 ++ (event true cur (emitToks depth toks).2.2 next).errs,
        cur := (event true cur (emitToks depth toks).2.2 next).cur,
        depth := (emitToks depth toks).2.2 } := by
  unfold stepLine
  cases trail <;> simp [newlineRule_eq, commentRule_partial]


theorem stepLine_empty (cur depth i next) :
    stepLine false cur depth ⟨i, .empty⟩ next = { toks := [], errs := [], cur, depth } := by
  simp [stepLine]

theorem stepLine_spaces (first cur depth i next) :
    stepLine first cur depth ⟨i, .spaces⟩ next = event true cur depth next := by
  simp [stepLine, newlineRule_eq]

theorem stepLine_comment (cur depth i p next) :
    stepLine false cur depth ⟨i, .comment p⟩ next = event (!p) cur depth next := by
  cases p <;> simp [stepLine, commentRule_full, commentRule_partial]

/-! ### `run` -/

@[simp] theorem run_nil (f c d) : run f c d [] = { toks := [], errs := [], cur := c, depth := d } := rfl

theorem run_cons (f c d l rest) :
    run f c d (l :: rest) =
      { toks := (stepLine f c d l (lookahead rest)).toks ++
          (run false (stepLine f c d l (lookahead rest)).cur (stepLine f c d l (lookahead rest)).depth rest).toks,
        errs := (stepLine f c d l (lookahead rest)).errs ++
          (run false (stepLine f c d l (lookahead rest)).cur (stepLine f c d l (lookahead rest)).depth rest).errs,
        cur := (run false (stepLine f c d l (lookahead rest)).cur (stepLine f c d l (lookahead rest)).depth rest).cur,
        depth := (run false (stepLine f c d l (lookahead rest)).cur (stepLine f c d l (lookahead rest)).depth rest).depth } := by
  simp [run, runL]

/-- the pending indentation check of the previous line end, then the lines -/
def after (cur depth : Nat) (ls : List Line) : Res :=
  { toks := (event false cur depth (lookahead ls)).toks ++ (run false (event false cur depth (lookahead ls)).cur depth ls).toks,
    errs := (event false cur depth (lookahead ls)).errs ++ (run false (event false cur depth (lookahead ls)).cur depth ls).errs,
    cur := (run false (event false cur depth (lookahead ls)).cur depth ls).cur,
    depth := (run false (event false cur depth (lookahead ls)).cur depth ls).depth }

theorem after_nil (c d) : after c d [] = { toks := [], errs := [], cur := c, depth := d } := by
  simp [after, lookahead, event_none]

theorem after_empty (c d i rest) : after c d (⟨i, .empty⟩ :: rest) = after c d rest := by
  simp [after, lookahead, Body.isEmpty, run_cons, stepLine_empty]

theorem after_spaces (c d i rest) :
    after c d (⟨i, .spaces⟩ :: rest) =
      { after c d rest with toks := pre true d ++ (after c d rest).toks } := by
  have hb : (⟨i, .spaces⟩ : Line).body.isSig = false := rfl
  simp [after, lookahead, Body.isEmpty, run_cons, stepLine_spaces, event_blank c d _ hb, event_toks true]

theorem after_comment (c d i p rest) :
    after c d (⟨i, .comment p⟩ :: rest) =
      { after c d rest with toks := pre (!p) d ++ (after c d rest).toks } := by
  have hb : (⟨i, .comment p⟩ : Line).body.isSig = false := rfl
  simp [after, lookahead, Body.isEmpty, run_cons, stepLine_comment, event_blank c d _ hb, event_toks (!p)]

theorem after_sig (c d i toks trail rest) :
    after c d (⟨i, .sig toks trail⟩ :: rest) =
      let F := event false c d (some ⟨i, .sig toks trail⟩)
      let E := emitToks d toks
      let A := after F.cur E.2.2 rest
      { toks := F.toks ++ (E.1 ++ (pre true E.2.2 ++ A.toks)), errs := F.errs ++ (E.2.1 ++ A.errs),
        cur := A.cur, depth := A.depth } := by
  simp [after, lookahead, Body.isEmpty, run_cons, stepLine_sig, event_toks true]

theorem strip_cons_sig (i toks trail rest) :
    strip (⟨i, .sig toks trail⟩ :: rest) = ⟨i, .sig toks trail⟩ :: strip rest := by
  simp [strip, Body.isSig]

theorem strip_cons_blank (l : Line) (rest) (h : l.body.isSig = false) : strip (l :: rest) = strip rest := by
  simp [strip, h]

/-- Blank, space-only and comment-only lines only add `NEWLINE`s next to a `NEWLINE` (or at the start): from any
lexer state that is at a line end with a pending indentation check, the rest of the input and its significant
lines alone give the same normalised tokens, the same errors and the same final state. -/
theorem strip_sim (ls : List Line) : ∀ (c d : Nat) (g : Bool), (g = true ∨ d ≠ 0) →
    normGo g (after c d ls).toks = normGo g (after c d (strip ls)).toks ∧
    (after c d ls).errs = (after c d (strip ls)).errs ∧
    (after c d ls).cur = (after c d (strip ls)).cur ∧
    (after c d ls).depth = (after c d (strip ls)).depth := by
  induction ls with
  | nil => intro c d g _; simp [strip]
  | cons l rest ih =>
    intro c d g hg
    obtain ⟨i, b⟩ := l
    cases b with
    | empty =>
      rw [after_empty, strip_cons_blank _ _ rfl]
      exact ih c d g hg
    | spaces =>
      rw [after_spaces, strip_cons_blank _ _ rfl]
      obtain ⟨h1, h2, h3, h4⟩ := ih c d g hg
      refine ⟨?_, h2, h3, h4⟩
      rcases hg with hg | hg
      · subst hg
        by_cases hd : d = 0
        · subst hd; simp [pre, h1]
        · simp [pre, hd, h1]
      · simp [pre, hg, h1]
    | comment p =>
      rw [after_comment, strip_cons_blank _ _ rfl]
      obtain ⟨h1, h2, h3, h4⟩ := ih c d g hg
      refine ⟨?_, h2, h3, h4⟩
      rcases hg with hg | hg
      · subst hg
        by_cases hd : d = 0
        · subst hd; cases p <;> simp [pre, h1]
        · cases p <;> simp [pre, hd, h1]
      · simp [pre, hg, h1]
    | sig toks trail =>
      rw [strip_cons_sig, after_sig, after_sig]
      simp only
      generalize (event false c d (some ⟨i, .sig toks trail⟩)) = F
      generalize (emitToks d toks) = E
      have hg' : (lastFlag (lastFlag g (F.toks ++ E.1)) (pre true E.2.2) = true ∨ E.2.2 ≠ 0) := by
        by_cases hd : E.2.2 = 0
        · left; simp [pre, hd]
        · right; exact hd
      obtain ⟨h1, h2, h3, h4⟩ := ih F.cur E.2.2 _ hg'
      refine ⟨?_, by rw [h2], h3, h4⟩
      rw [← List.append_assoc, normGo_append, normGo_append _ (pre true E.2.2), h1,
        ← normGo_append, ← normGo_append, List.append_assoc]


/-! ### whole inputs -/

/-- the first significant line (if any) is not indented -/
def HeadOK (ls : List Line) : Prop := ∀ s, (strip ls).head? = some s → s.indent = 0

theorem headOK_cons_blank (l : Line) (rest) (h : l.body.isSig = false) : HeadOK (l :: rest) ↔ HeadOK rest := by
  simp [HeadOK, strip_cons_blank l rest h]

theorem headOK_strip (ls) : HeadOK (strip ls) ↔ HeadOK ls := by
  simp [HeadOK, strip]

theorem lookahead_sig_head (ls : List Line) (x : Line) (h : lookahead ls = some x) (hx : x.body.isSig = true) :
    (strip ls).head? = some x := by
  induction ls with
  | nil => simp [lookahead] at h
  | cons l rest ih =>
    simp only [lookahead] at h
    by_cases he : l.body.isEmpty = true
    · simp only [he, if_true] at h
      have : l.body.isSig = false := by cases hb : l.body <;> simp_all [Body.isEmpty, Body.isSig]
      rw [strip_cons_blank l rest this]
      exact ih h
    · simp only [he] at h
      simp only [Bool.false_eq_true, if_false, Option.some.injEq] at h
      subst h
      simp [strip, hx]

theorem event_headOK (ls : List Line) (h : HeadOK ls) :
    event false 0 0 (lookahead ls) = { toks := [], errs := [], cur := 0, depth := 0 } := by
  cases hl : lookahead ls with
  | none => exact event_none 0 0
  | some x =>
    by_cases hx : x.body.isSig = true
    · exact event_zero x (h x (lookahead_sig_head ls x hl hx))
    · exact event_blank 0 0 x (by simpa using hx)

theorem after_eq_run (ls : List Line) (h : HeadOK ls) : after 0 0 ls = run false 0 0 ls := by
  simp [after, event_headOK ls h]

theorem stepLine_first_sig (f c d) (l : Line) (next) (h : l.body.isSig = true) :
    stepLine f c d l next = stepLine false c d l next := by
  obtain ⟨i, b⟩ := l
  cases b <;> simp_all [Body.isSig, stepLine]

theorem run_first_sig (f c d) (ls : List Line) (h : ∀ l ∈ ls, l.body.isSig = true) :
    run f c d ls = run false c d ls := by
  cases ls with
  | nil => rfl
  | cons l rest => rw [run_cons, run_cons, stepLine_first_sig f c d l _ (h l (by simp))]

theorem strip_all_sig (ls : List Line) : ∀ l ∈ strip ls, l.body.isSig = true := by
  intro l hl
  simp [strip] at hl
  exact hl.2

theorem run_sig_cons (f c d i toks trail rest) :
    run f c d (⟨i, .sig toks trail⟩ :: rest) =
      let E := emitToks d toks
      let A := after c E.2.2 rest
      { toks := E.1 ++ (pre true E.2.2 ++ A.toks), errs := E.2.1 ++ A.errs, cur := A.cur, depth := A.depth } := by
  simp [after, run_cons, stepLine_sig, event_toks true]

/-- a first line whose own rule is `event b` -/
theorem run_event_cons (f c d b) (l : Line) (rest)
    (h : ∀ next, stepLine f c d l next = event b c d next) :
    run f c d (l :: rest) = { after c d rest with toks := pre b d ++ (after c d rest).toks } := by
  simp [after, run_cons, h, event_toks b]

theorem stepLine_first_empty (i next) : stepLine true 0 0 ⟨i, .empty⟩ next = event true 0 0 next := by
  simp [stepLine, newlineRule_eq]

theorem stepLine_first_comment_impure (i next) :
    stepLine true 0 0 ⟨i, .comment false⟩ next = event true 0 0 next := by
  simp [stepLine, commentRule_partial]

theorem run_first_comment_pure (i rest) :
    run true 0 0 (⟨i, .comment true⟩ :: rest) = run false 0 0 rest := by
  simp [run_cons, stepLine, commentRule]

/-- `run` on a whole input against `run` on its significant lines -/
theorem run_strip (ls : List Line) (h : HeadOK ls) :
    normGo true (run true 0 0 ls).toks = normGo true (run true 0 0 (strip ls)).toks ∧
    (run true 0 0 ls).errs = (run true 0 0 (strip ls)).errs ∧
    (run true 0 0 ls).cur = (run true 0 0 (strip ls)).cur ∧
    (run true 0 0 ls).depth = (run true 0 0 (strip ls)).depth := by
  have key : ∀ rest : List Line, HeadOK rest →
      normGo true (after 0 0 rest).toks = normGo true (run true 0 0 (strip rest)).toks ∧
      (after 0 0 rest).errs = (run true 0 0 (strip rest)).errs ∧
      (after 0 0 rest).cur = (run true 0 0 (strip rest)).cur ∧
      (after 0 0 rest).depth = (run true 0 0 (strip rest)).depth := by
    intro rest hr
    have h1 := strip_sim rest 0 0 true (Or.inl rfl)
    rw [after_eq_run (strip rest) ((headOK_strip rest).2 hr),
      ← run_first_sig true 0 0 (strip rest) (strip_all_sig rest)] at h1
    exact h1
  cases ls with
  | nil => simp [strip]
  | cons l rest =>
    obtain ⟨i, b⟩ := l
    cases b with
    | sig toks trail =>
      rw [strip_cons_sig, run_sig_cons, run_sig_cons]
      simp only
      generalize (emitToks 0 toks) = E
      have hg' : (lastFlag (lastFlag true E.1) (pre true E.2.2) = true ∨ E.2.2 ≠ 0) := by
        by_cases hd : E.2.2 = 0
        · left; simp [pre, hd]
        · right; exact hd
      obtain ⟨h1, h2, h3, h4⟩ := strip_sim rest 0 E.2.2 _ hg'
      refine ⟨?_, by rw [h2], h3, h4⟩
      rw [normGo_append, normGo_append _ (pre true E.2.2), h1, ← normGo_append, ← normGo_append]
    | empty =>
      have hr : HeadOK rest := (headOK_cons_blank _ rest rfl).1 h
      rw [strip_cons_blank _ _ rfl, run_event_cons true 0 0 true _ rest (stepLine_first_empty i)]
      obtain ⟨h1, h2, h3, h4⟩ := key rest hr
      exact ⟨by simpa [pre] using h1, h2, h3, h4⟩
    | spaces =>
      have hr : HeadOK rest := (headOK_cons_blank _ rest rfl).1 h
      rw [strip_cons_blank _ _ rfl, run_event_cons true 0 0 true _ rest (stepLine_spaces true 0 0 i)]
      obtain ⟨h1, h2, h3, h4⟩ := key rest hr
      exact ⟨by simpa [pre] using h1, h2, h3, h4⟩
    | comment p =>
      have hr : HeadOK rest := (headOK_cons_blank _ rest rfl).1 h
      rw [strip_cons_blank _ _ rfl]
      cases p with
      | false =>
        rw [run_event_cons true 0 0 true _ rest (stepLine_first_comment_impure i)]
        obtain ⟨h1, h2, h3, h4⟩ := key rest hr
        exact ⟨by simpa [pre] using h1, h2, h3, h4⟩
      | true =>
        rw [run_first_comment_pure, ← after_eq_run rest hr]
        exact key rest hr

theorem flush_congr (a b : List Tok) (c : Nat) (h : lastFlag true a = lastFlag true b) : flush a c = flush b c := by
  unfold flush endsNL
  rw [h]

/-- The token stream, as the parser reads it, and the recorded errors depend on the significant lines only. -/
theorem lex_strip (ls : List Line) (h : HeadOK ls) :
    norm (lex ls).toks = norm (lex (strip ls)).toks ∧ (lex ls).errs = (lex (strip ls)).errs := by
  obtain ⟨h1, h2, h3, _⟩ := run_strip ls h
  have hf : lastFlag true (run true 0 0 ls).toks = lastFlag true (run true 0 0 (strip ls)).toks := by
    rw [← lastFlag_normGo, h1, lastFlag_normGo]
  refine ⟨?_, h2⟩
  simp only [lex, norm]
  rw [normGo_append, normGo_append, h1, hf, h3, flush_congr _ _ _ hf]


/-! ### dent balance -/

/-- block depth bookkeeping over a token stream: `none` = a `DEDENT` below level 0 -/
def scan (c : Nat) : List Tok → Option Nat
  | [] => some c
  | t :: r =>
    match t with
    | .indent => scan (c + 1) r
    | .dedent => if c = 0 then none else scan (c - 1) r
    | _ => scan c r

theorem scan_append (c : Nat) (a b : List Tok) : scan c (a ++ b) = (scan c a).bind (fun c' => scan c' b) := by
  induction a generalizing c with
  | nil => simp [scan]
  | cons t r ih =>
    cases t <;> simp [scan, ih]
    split <;> simp

theorem scan_replicate_indent (c k : Nat) : scan c (List.replicate k .indent) = some (c + k) := by
  induction k generalizing c with
  | zero => simp [scan]
  | succ k ih => simp [List.replicate_succ, scan, ih]; omega

theorem scan_replicate_dedent (c k : Nat) (h : k ≤ c) : scan c (List.replicate k .dedent) = some (c - k) := by
  induction k generalizing c with
  | zero => simp [scan]
  | succ k ih =>
    have hc : c ≠ 0 := by omega
    simp [List.replicate_succ, scan, hc, ih (c - 1) (by omega)]
    omega

theorem scan_emitToks (c d : Nat) (ts : List Tk) : scan c (emitToks d ts).1 = some c := by
  induction ts generalizing d with
  | nil => simp [emitToks, scan]
  | cons t r ih =>
    cases t with
    | other i => simp [emitToks, scan, ih]
    | lpar => simp [emitToks, scan, ih]
    | rpar => by_cases hd : d = 0 <;> simp [emitToks, scan, ih, hd]

theorem indentDelta_lower (c : Nat) (next : Option Line) (dl : Int) (e) (h : indentDelta c next = (some dl, e)) :
    -(c : Int) ≤ dl := by
  unfold indentDelta at h
  cases next with
  | none => simp at h
  | some l =>
    simp only at h
    cases hb : l.body <;> rw [hb] at h <;> simp only at h
    all_goals first
      | (simp at h; done)
      | (split at h
         · simp at h
         · simp only [indentUnit, Prod.mk.injEq, Option.some.injEq] at h
           obtain ⟨h, _⟩ := h
           subst h
           push_cast
           omega)

theorem scan_nextLineDent (c : Nat) (next : Option Line) :
    scan c (nextLineDent c next).1 = some (nextLineDent c next).2.1 := by
  unfold nextLineDent
  cases hd : indentDelta c next with
  | mk dl e =>
    cases dl with
    | none => simp [scan]
    | some dl =>
      have hl := indentDelta_lower c next dl e hd
      simp only
      by_cases h0 : dl = 0
      · simp [h0, scan]
      · by_cases hp : dl > 0
        · simp [h0, hp, scan_replicate_indent]
        · simp only [h0, hp, if_false]
          rw [scan_replicate_dedent c _ (by omega)]

theorem scan_event (nl : Bool) (c d : Nat) (next) : scan c (event nl c d next).toks = some (event nl c d next).cur := by
  unfold event
  by_cases hd : d = 0
  · cases nl <;> simp [hd, scan, scan_nextLineDent]
  · simp [hd, scan]

theorem scan_stepLine (f : Bool) (c d : Nat) (l : Line) (next) :
    scan c (stepLine f c d l next).toks = some (stepLine f c d l next).cur := by
  obtain ⟨i, b⟩ := l
  cases b with
  | empty => cases f <;> simp [stepLine, newlineRule_eq, scan_event, scan]
  | spaces => simp [stepLine_spaces, scan_event]
  | comment p =>
    cases f
    · simp [stepLine_comment, scan_event]
    · cases p
      · simp [stepLine, commentRule_partial, scan_event]
      · simp only [stepLine, commentRule, if_true]
        split <;> simp [scan]
  | sig toks trail => simp [stepLine_sig, scan_append, scan_emitToks, scan_event]

theorem scan_runL (tn) (f : Bool) (c d : Nat) (ls : List Line) :
    scan c (runL tn f c d ls).toks = some (runL tn f c d ls).cur := by
  induction ls generalizing f c d with
  | nil => simp [runL, scan]
  | cons l rest ih => simp [runL, scan_append, scan_stepLine, ih]

theorem scan_flush (toks : List Tok) (c : Nat) : scan c (flush toks c) = some 0 := by
  unfold flush
  by_cases hc : c > 0
  · simp only [hc, if_true]
    rw [scan_append]
    split <;> simp [scan, scan_replicate_dedent]
  · have : c = 0 := by omega
    simp [this, scan]

theorem scan_lex (ls : List Line) : scan 0 (lex ls).toks = some 0 := by
  simp [lex, run, scan_append, scan_runL, scan_flush]

theorem scan_count (c c' : Nat) (ts : List Tok) (h : scan c ts = some c') :
    c + ts.count .indent = c' + ts.count .dedent := by
  induction ts generalizing c with
  | nil => simp [scan] at h; simp [h]
  | cons t r ih =>
    cases t with
    | newline => simp only [scan] at h; have := ih c h; simp; omega
    | tk x => simp only [scan] at h; have := ih c h; simp; omega
    | indent => simp only [scan] at h; have := ih (c + 1) h; simp; omega
    | dedent =>
      simp only [scan] at h
      by_cases hc : c = 0
      · simp [hc] at h
      · simp only [hc, if_false] at h
        have := ih (c - 1) h
        simp; omega

theorem scan_prefix (c c' : Nat) (a b : List Tok) (h : scan c (a ++ b) = some c') : ∃ c'', scan c a = some c'' := by
  rw [scan_append] at h
  cases hs : scan c a with
  | none => simp [hs] at h
  | some x => exact ⟨x, rfl⟩


/-! ### what a rule sees of the next line; congruence -/

/-- all that `_get_next_line_indent_delta` uses of a line -/
def lkey (l : Line) : Option Nat := if l.body.isSig then some l.indent else none

theorem indentDelta_congr (c : Nat) {o₁ o₂ : Option Line} (h : o₁.map lkey = o₂.map lkey) :
    indentDelta c o₁ = indentDelta c o₂ := by
  cases o₁ with
  | none =>
    cases o₂ with
    | none => rfl
    | some l₂ => simp at h
  | some l₁ =>
    cases o₂ with
    | none => simp at h
    | some l₂ =>
      obtain ⟨i₁, b₁⟩ := l₁
      obtain ⟨i₂, b₂⟩ := l₂
      cases b₁ <;> cases b₂ <;> simp_all [lkey, indentDelta, Body.isSig]

theorem stepLine_congr (f c d l) {n₁ n₂ : Option Line} (h : n₁.map lkey = n₂.map lkey) :
    stepLine f c d l n₁ = stepLine f c d l n₂ := by
  simp only [stepLine, newlineRule, commentRule, nextLineDent, checkForIndent, indentDelta_congr c h]

theorem or_key_congr (x : Option Line) {t₁ t₂ : Option Line} (h : t₁.map lkey = t₂.map lkey) :
    (x.or t₁).map lkey = (x.or t₂).map lkey := by
  cases x <;> simp [h]

theorem runL_congr_tn {t₁ t₂ : Option Line} (h : t₁.map lkey = t₂.map lkey) (f c d) (ls : List Line) :
    runL t₁ f c d ls = runL t₂ f c d ls := by
  induction ls generalizing f c d with
  | nil => rfl
  | cons l rest ih =>
    simp only [runL]
    rw [stepLine_congr f c d l (or_key_congr (lookahead rest) h), ih]

theorem lookahead_append (a b : List Line) : lookahead (a ++ b) = (lookahead a).or (lookahead b) := by
  induction a with
  | nil => simp [lookahead]
  | cons l rest ih =>
    by_cases he : l.body.isEmpty = true <;> simp [lookahead, he, ih]

theorem runL_append (tn f c d) (a b : List Line) :
    runL tn f c d (a ++ b) =
      { toks := (runL ((lookahead b).or tn) f c d a).toks ++
          (runL tn (f && a.isEmpty) (runL ((lookahead b).or tn) f c d a).cur (runL ((lookahead b).or tn) f c d a).depth b).toks,
        errs := (runL ((lookahead b).or tn) f c d a).errs ++
          (runL tn (f && a.isEmpty) (runL ((lookahead b).or tn) f c d a).cur (runL ((lookahead b).or tn) f c d a).depth b).errs,
        cur := (runL tn (f && a.isEmpty) (runL ((lookahead b).or tn) f c d a).cur (runL ((lookahead b).or tn) f c d a).depth b).cur,
        depth := (runL tn (f && a.isEmpty) (runL ((lookahead b).or tn) f c d a).cur (runL ((lookahead b).or tn) f c d a).depth b).depth } := by
  induction a generalizing f c d with
  | nil => simp [runL]
  | cons l rest ih =>
    simp only [List.cons_append, runL, lookahead_append, Option.or_assoc, ih, List.isEmpty_cons, Bool.and_false,
      List.append_assoc]
    simp

/-! ### trailing whitespace and comments -/

/-- replace what follows the last token of a significant line -/
def Line.withTrail (l : Line) (t : Trail) : Line :=
  match l.body with
  | .sig toks _ => ⟨l.indent, .sig toks t⟩
  | _ => l

theorem lkey_withTrail (l : Line) (t) : lkey (l.withTrail t) = lkey l := by
  obtain ⟨i, b⟩ := l
  cases b <;> simp [Line.withTrail, lkey, Body.isSig]

theorem isEmpty_withTrail (l : Line) (t) : (l.withTrail t).body.isEmpty = l.body.isEmpty := by
  obtain ⟨i, b⟩ := l
  cases b <;> simp [Line.withTrail, Body.isEmpty]

theorem stepLine_withTrail (f c d) (l : Line) (t next) : stepLine f c d (l.withTrail t) next = stepLine f c d l next := by
  obtain ⟨i, b⟩ := l
  cases b <;> simp [Line.withTrail, stepLine_sig]

theorem lookahead_map_withTrail (w : Line → Trail) (ls : List Line) :
    (lookahead (ls.map fun l => l.withTrail (w l))).map lkey = (lookahead ls).map lkey := by
  induction ls with
  | nil => simp [lookahead]
  | cons l rest ih =>
    by_cases he : l.body.isEmpty = true <;> simp [lookahead, isEmpty_withTrail, he, ih, lkey_withTrail]

theorem runL_map_withTrail (w : Line → Trail) (tn f c d) (ls : List Line) :
    runL tn f c d (ls.map fun l => l.withTrail (w l)) = runL tn f c d ls := by
  induction ls generalizing f c d with
  | nil => rfl
  | cons l rest ih =>
    simp only [List.map_cons, runL, stepLine_withTrail]
    have hk : ((lookahead (rest.map fun l => l.withTrail (w l))).or tn).map lkey = ((lookahead rest).or tn).map lkey := by
      have := lookahead_map_withTrail w rest
      cases h1 : lookahead (rest.map fun l => l.withTrail (w l)) <;> cases h2 : lookahead rest <;> simp_all
    rw [stepLine_congr f c d l hk, ih]

/-! ### continuation lines -/

theorem emitToks_append (d : Nat) (a b : List Tk) :
    emitToks d (a ++ b) =
      ((emitToks d a).1 ++ (emitToks (emitToks d a).2.2 b).1,
       (emitToks d a).2.1 ++ (emitToks (emitToks d a).2.2 b).2.1,
       (emitToks (emitToks d a).2.2 b).2.2) := by
  induction a generalizing d with
  | nil => simp [emitToks]
  | cons t r ih =>
    cases t with
    | other i => simp [emitToks, ih]
    | lpar => simp [emitToks, ih]
    | rpar => by_cases hd : d = 0 <;> simp [emitToks, ih, hd]

theorem event_cont (nl : Bool) (c d : Nat) (t2 tr2) (hd : d ≠ 0) :
    event nl c d (some ⟨indentUnit * (c + 1), .sig t2 tr2⟩) = { toks := [], errs := [], cur := c, depth := d } := by
  have h1 : indentUnit * (c + 1) % indentUnit = 0 := by simp [indentUnit]
  have h2 : ((indentUnit : Int) * ((c : Int) + 1) - (c : Int) * (indentUnit : Int)) / (indentUnit : Int) = 1 := by
    simp only [indentUnit]; omega
  simp [event, hd, checkForIndent, indentDelta, h1, h2]

/-- one break inside parentheses -/
theorem runL_break2 (tn f c d i t1 tr1 t2 tr2) (post : List Line) (hopen : (emitToks d t1).2.2 ≠ 0) :
    runL tn f c d (⟨i, .sig t1 tr1⟩ :: ⟨indentUnit * (c + 1), .sig t2 tr2⟩ :: post) =
      runL tn f c d (⟨i, .sig (t1 ++ t2) tr2⟩ :: post) := by
  simp only [runL, lookahead, Body.isEmpty, stepLine_sig, Bool.false_eq_true, if_false, Option.some_or,
    event_cont true c _ t2 tr2 hopen, emitToks_append, event_errs, event_cur]
  simp

/-- the continuation lines of a group broken into chunks of tokens -/
def contLines (c : Nat) (chunks : List (List Tk × Trail)) : List Line :=
  chunks.map fun p => ⟨indentUnit * (c + 1), .sig p.1 p.2⟩

def lastTrail (tr : Trail) : List (List Tk × Trail) → Trail
  | [] => tr
  | p :: more => lastTrail p.2 more

/-- the same tokens on one line -/
def oneLine (i : Nat) (t1 : List Tk) (tr1 : Trail) (chunks : List (List Tk × Trail)) : Line :=
  ⟨i, .sig (t1 ++ (chunks.map (·.1)).flatten) (lastTrail tr1 chunks)⟩

/-- every break point lies inside parentheses -/
def OpenAt (d : Nat) (t1 : List Tk) : List (List Tk × Trail) → Prop
  | [] => True
  | p :: more => (emitToks d t1).2.2 ≠ 0 ∧ OpenAt d (t1 ++ p.1) more

theorem runL_break (tn f c d i) (chunks : List (List Tk × Trail)) : ∀ (t1 tr1) (post : List Line),
    OpenAt d t1 chunks →
    runL tn f c d (⟨i, .sig t1 tr1⟩ :: (contLines c chunks ++ post)) = runL tn f c d (oneLine i t1 tr1 chunks :: post) := by
  induction chunks with
  | nil => intro t1 tr1 post _; simp [contLines, oneLine, lastTrail]
  | cons p more ih =>
    intro t1 tr1 post h
    obtain ⟨h1, h2⟩ := h
    have := ih (t1 ++ p.1) p.2 post h2
    simp only [contLines, List.map_cons, List.cons_append] at this ⊢
    rw [runL_break2 tn f c d i t1 tr1 p.1 p.2 _ h1, this]
    simp [oneLine, lastTrail]

/-! ### physical lines -/

/-- are we inside a string literal after these lines (`st` = before them) -/
def openAfter (st : Bool) : List PLine → Bool
  | [] => st
  | p :: ps => openAfter p.openStr ps

theorem joinGo_append (a b : List PLine) : ∀ st : Option Line, openAfter st.isSome a = false →
    joinGo st (a ++ b) = joinGo st a ++ joinGo none b := by
  induction a with
  | nil =>
    intro st h
    cases st <;> simp_all [openAfter, joinGo]
  | cons p ps ih =>
    intro st h
    simp only [openAfter] at h
    cases st <;> by_cases hp : p.openStr = true <;> simp_all [joinGo]

theorem join_append (a b : List PLine) (h : openAfter false a = false) : join (a ++ b) = join a ++ join b :=
  joinGo_append a b none h

theorem join_closed_cons (p : PLine) (ps : List PLine) (h : p.openStr = false) : join (p :: ps) = p.line :: join ps := by
  simp [join, joinGo, h]

theorem join_closed_append (ins post : List PLine) (h : ∀ p ∈ ins, p.openStr = false) :
    join (ins ++ post) = ins.map (·.line) ++ join post := by
  induction ins with
  | nil => rfl
  | cons p ps ih =>
    rw [List.cons_append, join_closed_cons p _ (h p (by simp)), ih (fun q hq => h q (by simp [hq]))]
    rfl

end StoneVerif.Lex
