import StoneVerif.Lemmas.FeCompileLegalSound3
set_option linter.unusedSimpArgs false
/-!
`compileCore` accepts a set of spec files exactly when it obeys the rules.
-/
namespace StoneVerif.FeCompile.L
open StoneVerif.FeCompile
open StoneVerif.FeParams (TyKind)

theorem mem_nsTypeDecls {E : Env} {ns d} (hns : ns ∈ E.nss) (hd : d ∈ typeDecls (declsOf E.files ns)) :
    (ns, d) ∈ nsTypeDecls E := by
  unfold nsTypeDecls
  simp only [List.mem_flatMap, List.mem_map]
  exact ⟨ns, hns, d, hd, rfl⟩

/-- **what is accepted is legal** -/
theorem compile_legal {rx fs api} (hl : nsLexical fs = true) (h : compileCore rx fs = .ok api) : LegalCore rx fs = true := by
  unfold compileCore at h
  cases hEb : buildEnv fs with
  | error e => rw [hEb] at h; cases h
  | ok E =>
    rw [hEb] at h
    simp only at h
    have hE := buildEnv_ok2 hEb
    have hbi := buildEnv_ok_iff fs hl
    rw [hEb] at hbi
    simp only [isOk] at hbi
    have hnames : namesLegal fs = true ∧ importsLegal fs = true := by
      have := hbi.symm
      simpa using this
    unfold compileEnv at h
    split at h
    · cases h
    · rename_i st hst
      split at h
      · cases h
      · rename_i hp4
        split at h
        · cases h
        · rename_i en hen
          split at h
          · cases h
          · rename_i routes hroutes
            split at h
            · cases h
            · rename_i outs houts
              -- the facts the passes leave behind
              obtain ⟨hK, hnull⟩ := pass3_sound hE hst
              obtain ⟨_, hAc⟩ := pass3_acyc hst
              obtain ⟨hmap, hrs⟩ := pass6Nss_spec hroutes
              have hcomp : Complete fs E.nss st := by
                have := assemble_complete hE.ok.files houts
                rw [hmap] at this
                exact this
              have hF : Final rx E fs st := ⟨hK.inv, hcomp⟩
              have hlook := hF.lookEq hE
              have hnullS : ∀ u, u ∈ st.nrefs → nullOK (aliasS rx fs) (fuelA fs) u = true := by
                intro u hu
                have := hnull u hu
                rw [hlook, aliasFuel_eq hE.ok] at this
                exact this
              have hAcyc : Gr.Acyclic (aliasSucc (aliasS rx fs)) := by
                intro a p
                rw [← hlook] at p
                exact hAc a (path_to_edgeA p)
              have hdecls : DeclsLegal rx fs := by
                intro p hm
                obtain ⟨ns, d⟩ := p
                have hmem : d ∈ declsOf fs ns := mem_declsOf.mpr (by rw [← allPairs_eq]; exact hm)
                have hns : ns ∈ E.nss := by rw [hE.ok.nss]; exact ns_of_decl hmem
                cases d with
                | imp _ => rfl
                | patch _ => rfl
                | annot _ _ => rfl
                | aliasAnnots _ _ => rfl
                | annotType _ => rfl
                | type td =>
                  have hd : td ∈ typeDecls (declsOf fs ns) := mem_typeDecls.mpr hmem
                  obtain ⟨c, hlk, hden⟩ := hF.lookupDecl hE hns hd
                  obtain ⟨d', hd', hstat, hrec⟩ := hK.typeStat _ _ (mem_of_lookup hlk)
                  rw [hE.ok.lookup_type hd] at hd'
                  cases hd'
                  simp only at hstat hrec
                  refine typeLegal_of_parts hstat hden ?_ ?_ ?_
                  · intro f hf
                    unfold tyNullLegal
                    rw [List.all_eq_true]
                    exact fun u hu => hnullS u (hrec f hf u hu)
                  · intro hk f hf
                    have hdf := pass4_sound hp4 ns td (mem_nsTypeDecls hns (by rw [hE.ok.files]; exact hd)) hk c hlk
                    have := defaultFields_sound hdf f hf
                    unfold defaultField at this
                    rw [hlook, aliasFuel_eq hE.ok] at this
                    have hkk : (fun k => isUnionKind (kindOf E k)) = (fun k => isUnionKind (kindS fs k)) := by
                      funext k; rw [hE.ok.kindOf_eq]
                    rw [hkk] at this
                    exact this
                  · obtain ⟨en0, en1, hEn1, hfirst, hsecond, hc5⟩ :=
                      pass5_facts hE (en := []) (by intro k v hm; simp at hm) hen ns hns
                    exact enumLegal_of_facts hE hF hd hlk hEn1
                      (fun subs ca he => enumFirst_facts hfirst td hd subs ca he)
                      (fun hh hk fs' ca hl' => enumSecond_facts hsecond td hd hh hk fs' ca hl')
                      (hc5 td hd)
                | «alias» n r =>
                  have hd : (n, r) ∈ aliasDecls (declsOf fs ns) := mem_aliasDecls.mpr hmem
                  have hsome := (hcomp ns hns).2 n r hd
                  obtain ⟨t, ht⟩ := Option.isSome_iff_exists.mp hsome
                  obtain ⟨r', hr', hstat, hrec⟩ := hK.aliasStat _ _ (mem_of_lookup ht)
                  rw [hE.ok.lookup_alias hd] at hr'
                  cases hr'
                  simp only at hstat
                  obtain ⟨r'', hr'', hden⟩ := hK.inv.aliases _ _ (mem_of_lookup ht)
                  rw [hE.ok.lookup_alias hd] at hr''
                  cases hr''
                  simp only at hden
                  have hs : aliasS rx fs (ns, n) = some t := hK.inv.below hE.ok (ns, n) t ht
                  have hn : tyNullLegal (aliasS rx fs) (fuelA fs) t = true := by
                    unfold tyNullLegal
                    rw [List.all_eq_true]
                    exact fun u hu => hnullS u (hrec u hu)
                  show aliasLegal rx fs ns n r = true
                  unfold aliasLegal refLegal
                  simp only [hstat, hden, hn, alias_search_no hAcyc hs, beq_self_eq_true, Bool.and_self]
                | route r =>
                  have hd : r ∈ routeDecls (declsOf fs ns) := mem_routeDecls.mpr hmem
                  have : ns ∈ routes.map (·.1) := by rw [hmap]; exact hns
                  obtain ⟨⟨ns', rs⟩, hmr, hnn⟩ := List.mem_map.mp this
                  simp only at hnn
                  subst hnn
                  have hcr := hrs _ _ hmr
                  rw [hE.ok.files] at hcr
                  obtain ⟨c, hc⟩ := compileRoutes_sound hcr r hd
                  exact routeLegal_of_compile hE hlook hc
              unfold LegalCore
              simp only [hnames.1, hnames.2, Bool.and_self, Bool.true_and, List.all_eq_true]
              exact hdecls

/-- **accepted = legal** (namespace names being identifiers) -/
theorem compile_ok_iff_legal (rx : String → Bool) (fs : List File) (hl : nsLexical fs = true) :
    (∃ api, compileCore rx fs = .ok api) ↔ LegalCore rx fs = true :=
  ⟨fun ⟨_, h⟩ => compile_legal hl h, legal_compile_ok hl⟩

end StoneVerif.FeCompile.L
