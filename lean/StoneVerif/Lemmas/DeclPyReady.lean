import StoneVerif.Lemmas.DeclPyInv
/-!
Readiness of the references the generated statements evaluate (C09): validators of the types a type expression
mentions, classes of other namespaces. Shared by the section lemmas.
-/
namespace StoneVerif.DeclPy

theorem findType_spec {api : Api} {rns rn : Name} {d : DataType} (h : api.findType rns rn = some d) :
    ∃ nsm ∈ api.namespaces, nsm.name = rns ∧ d ∈ nsm.types ∧ d.name = rn := by
  unfold Api.findType Api.findNs at h
  cases hn : api.namespaces.find? (fun x => x.name == rns) with
  | none => simp [hn] at h
  | some ns' =>
    simp only [hn] at h
    have h1 := List.find?_some hn
    have h2 := List.find?_some h
    simp only [beq_iff_eq] at h1 h2
    exact ⟨ns', List.mem_of_find?_eq_some hn, h1, List.mem_of_find?_eq_some h, h2⟩

theorem findAlias_spec {api : Api} {rns rn : Name} {a : Alias} (h : api.findAlias rns rn = some a) :
    ∃ nsm ∈ api.namespaces, nsm.name = rns ∧ a ∈ nsm.aliases ∧ a.name = rn := by
  unfold Api.findAlias Api.findNs at h
  cases hn : api.namespaces.find? (fun x => x.name == rns) with
  | none => simp [hn] at h
  | some ns' =>
    simp only [hn] at h
    have h1 := List.find?_some hn
    have h2 := List.find?_some h
    simp only [beq_iff_eq] at h1 h2
    exact ⟨ns', List.mem_of_find?_eq_some hn, h1, List.mem_of_find?_eq_some h, h2⟩

/-- a type found under the name of `ns` is one of `ns` -/
theorem findType_local {api : Api} (hapi : apiWF api = true) {ns : Namespace} (hns : ns ∈ api.namespaces)
    {rn : Name} {d : DataType} (h : api.findType ns.name rn = some d) : d ∈ ns.types ∧ d.name = rn := by
  obtain ⟨nsm, h1, h2, h3, h4⟩ := findType_spec h
  have := ns_eq_of_name hapi h1 hns h2
  subst this
  exact ⟨h3, h4⟩

theorem findAlias_local {api : Api} (hapi : apiWF api = true) {ns : Namespace} (hns : ns ∈ api.namespaces)
    {rn : Name} {a : Alias} (h : api.findAlias ns.name rn = some a) : a ∈ ns.aliases ∧ a.name = rn := by
  obtain ⟨nsm, h1, h2, h3, h4⟩ := findAlias_spec h
  have := ns_eq_of_name hapi h1 hns h2
  subst this
  exact ⟨h3, h4⟩

/-- the loaded namespace behind an import of `ns` -/
theorem Ctx.foreign {api : Api} (hapi : apiWF api = true) {st : St} {ns : Namespace} (hctx : Ctx api st ns)
    {rns : Name} (himp : rns ∈ ns.imports) {nsm : Namespace} (hnsm : nsm ∈ api.namespaces) (hname : nsm.name = rns) :
    Loaded api st nsm ∧ st.global? (modName ns) (fmtNamespace rns) = some (.modu (modName nsm)) := by
  obtain ⟨nsm', h1, h2, h3, h4⟩ := hctx.imports rns himp
  have := ns_eq_of_name hapi h1 hnsm (h2.trans hname.symm)
  subst this
  refine ⟨h3, ?_⟩
  rw [h4]; simp [modName, h2]

/-- how module `ns` reaches a module-level name `nm` of namespace `rns` -/
theorem resolves_qual {api : Api} (hapi : apiWF api = true) {st : St} {ns : Namespace} (hctx : Ctx api st ns)
    {rns nm : Name} {v : Val} {attr : Option Name}
    (hlocal : rns = ns.name → st.global? (modName ns) nm = some v)
    (hforeign : rns ≠ ns.name → rns ∈ ns.imports ∧ ∃ nsm ∈ api.namespaces, nsm.name = rns ∧
      st.global? (modName nsm) nm = some v) :
    Resolves st (modName ns) (qual ns.name rns nm attr).mod (qual ns.name rns nm attr).name v := by
  by_cases h : rns = ns.name
  · have : (rns == ns.name) = true := by simpa using h
    simp only [qual, this, if_true, Resolves]
    exact hlocal h
  · have hb : (rns == ns.name) = false := by simpa using h
    obtain ⟨himp, nsm, hnsm, hname, hg⟩ := hforeign h
    simp only [qual, hb, Bool.false_eq_true, if_false, Resolves]
    exact ⟨modName nsm, (hctx.foreign hapi himp hnsm hname).2, hg⟩

theorem qual_attr (cur rns nm : Name) (attr : Option Name) : (qual cur rns nm attr).attr = attr := by
  unfold qual; split <;> rfl

theorem isSome_get {α : Type} {o : Option α} (h : o.isSome = true) : ∃ v, o = some v := by
  cases o with
  | none => simp at h
  | some v => exact ⟨v, rfl⟩

/-- Every validator name in `generate_validator_constructor(ns, t)` is bound: those of user types by the class
sections (here or in an imported module), those of aliases of this namespace if the alias is among `avail` (the
aliases already defined), those of foreign aliases by the imported module. -/
theorem ready_tyRefs {api : Api} (hapi : apiWF api = true) {ns : Namespace} (hns : ns ∈ api.namespaces) {st : St}
    (hctx : Ctx api st ns) (hcls : ∀ d ∈ ns.types, ClassOK api st ns d)
    (avail : List Alias) (havail : ∀ a ∈ avail, AliasOK api st ns a) :
    ∀ (t : Ty), tyOK api ns t = true → (∀ n ∈ t.localAliases ns.name, ∃ a ∈ avail, a.name = n) →
      ∀ r ∈ tyRefs ns.name t, Ready st (modName ns) r := by
  intro t
  induction t with
  | prim => intro _ _ r hr; simp [tyRefs] at hr
  | void => intro _ _ r hr; simp [tyRefs] at hr
  | user rns rn =>
    intro htok _ r hr
    simp only [tyRefs, List.mem_singleton] at hr
    subst hr
    simp only [tyOK, Ty.mentions, List.all_cons, List.all_nil, Bool.and_true, if_true, Bool.and_eq_true,
      Bool.or_eq_true, beq_iff_eq, List.contains_eq_mem, decide_eq_true_eq] at htok
    obtain ⟨hfind, hvis⟩ := htok
    obtain ⟨d', hd'⟩ := isSome_get hfind
    by_cases hloc : rns = ns.name
    · subst hloc
      obtain ⟨hmem, hname⟩ := findType_local hapi hns hd'
      obtain ⟨v, hv⟩ := isSome_get (hcls d' hmem).validator
      rw [hname] at hv
      exact ⟨v, resolves_qual hapi hctx (fun _ => hv) (fun h => absurd rfl h),
        fun a ha => by rw [qual_attr] at ha; exact absurd ha (by simp)⟩
    · obtain ⟨nsm, hnsm, hnm, hmem, hname⟩ := findType_spec hd'
      have himp : rns ∈ ns.imports := by rcases hvis with h | h; exact absurd h hloc; exact h
      have hl := (hctx.foreign hapi himp hnsm hnm).1
      obtain ⟨v, hv⟩ := isSome_get (hl.cls d' hmem).validator
      rw [hname] at hv
      exact ⟨v, resolves_qual hapi hctx (fun h => absurd h hloc) (fun _ => ⟨himp, nsm, hnsm, hnm, hv⟩),
        fun a ha => by rw [qual_attr] at ha; exact absurd ha (by simp)⟩
  | alias rns rn =>
    intro htok hal r hr
    simp only [tyRefs, List.mem_singleton] at hr
    subst hr
    simp only [tyOK, Ty.mentions, List.all_cons, List.all_nil, Bool.and_true, Bool.false_eq_true, if_false,
      Bool.and_eq_true, Bool.or_eq_true, beq_iff_eq, List.contains_eq_mem, decide_eq_true_eq] at htok
    obtain ⟨hfind, hvis⟩ := htok
    obtain ⟨a', ha'⟩ := isSome_get hfind
    by_cases hloc : rns = ns.name
    · subst hloc
      have : rn ∈ (Ty.alias ns.name rn).localAliases ns.name := by
        simp [Ty.localAliases, Ty.mentions]
      obtain ⟨a, hav, hname⟩ := hal rn this
      obtain ⟨v, hv⟩ := isSome_get (havail a hav).validator
      rw [hname] at hv
      exact ⟨v, resolves_qual hapi hctx (fun _ => hv) (fun h => absurd rfl h),
        fun a ha => by rw [qual_attr] at ha; exact absurd ha (by simp)⟩
    · obtain ⟨nsm, hnsm, hnm, hmem, hname⟩ := findAlias_spec ha'
      have himp : rns ∈ ns.imports := by rcases hvis with h | h; exact absurd h hloc; exact h
      have hl := (hctx.foreign hapi himp hnsm hnm).1
      obtain ⟨v, hv⟩ := isSome_get (hl.als a' hmem).validator
      rw [hname] at hv
      exact ⟨v, resolves_qual hapi hctx (fun h => absurd h hloc) (fun _ => ⟨himp, nsm, hnsm, hnm, hv⟩),
        fun a ha => by rw [qual_attr] at ha; exact absurd ha (by simp)⟩
  | list t ih =>
    intro htok hal r hr
    exact ih (by simpa [tyOK, Ty.mentions] using htok) (by simpa [Ty.localAliases, Ty.mentions] using hal) r
      (by simpa [tyRefs] using hr)
  | nullable t ih =>
    intro htok hal r hr
    exact ih (by simpa [tyOK, Ty.mentions] using htok) (by simpa [Ty.localAliases, Ty.mentions] using hal) r
      (by simpa [tyRefs] using hr)
  | map k v ihk ihv =>
    intro htok hal r hr
    simp only [tyOK, Ty.mentions, List.all_append, Bool.and_eq_true] at htok
    simp only [tyRefs, List.mem_append] at hr
    rcases hr with hr | hr
    · exact ihk (by simpa [tyOK] using htok.1)
        (fun n hn => hal n (by
          simp only [Ty.localAliases, Ty.mentions, List.filterMap_append, List.mem_append] at hn ⊢
          exact Or.inl hn)) r hr
    · exact ihv (by simpa [tyOK] using htok.2)
        (fun n hn => hal n (by
          simp only [Ty.localAliases, Ty.mentions, List.filterMap_append, List.mem_append] at hn ⊢
          exact Or.inr hn)) r hr

end StoneVerif.DeclPy
