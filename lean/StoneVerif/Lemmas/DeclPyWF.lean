import StoneVerif.Lemmas.DeclPyReady
namespace StoneVerif.DeclPy

/-! ### what `typeWF` says -/

theorem typeWF_at {api : Api} (hapi : apiWF api = true) {ns : Namespace} (hns : ns ∈ api.namespaces)
    {pre post : List DataType} {d : DataType} (h : ns.types = pre ++ d :: post) : typeWF api ns pre d = true := by
  have hw := nsWF_of_apiWF hapi hns
  simp only [nsWF, Bool.and_eq_true] at hw
  have := allWithEarlier_split (typeWF api ns) ns.types [] hw.1.1.1.1.1 pre d post h
  simpa using this

theorem bindNames_nodup {api : Api} (hapi : apiWF api = true) {ns : Namespace} (hns : ns ∈ api.namespaces) :
    (bindNames api ns).Nodup := by
  have hw := nsWF_of_apiWF hapi hns
  simp only [nsWF, Bool.and_eq_true] at hw
  exact nodup_of_nodupB' hw.1.2

theorem nodup_flatMap_pair {α : Type} (f g : α → Name) : ∀ {l : List α}, (l.flatMap fun d => [f d, g d]).Nodup →
    (l.map f).Nodup
  | [], _ => List.nodup_nil
  | x :: xs, h => by
    simp only [List.flatMap_cons, List.cons_append, List.nil_append, List.nodup_cons, List.mem_cons,
      List.mem_flatMap, List.mem_nil_iff, or_false, not_or, not_exists, not_and] at h
    simp only [List.map_cons, List.nodup_cons, List.mem_map, not_exists, not_and]
    refine ⟨fun y hy heq => (h.1.2 y hy).1 heq.symm, nodup_flatMap_pair f g h.2.2⟩

/-- different types of a namespace have different class names -/
theorem types_class_inj {api : Api} (hapi : apiWF api = true) {ns : Namespace} (hns : ns ∈ api.namespaces)
    {a b : DataType} (ha : a ∈ ns.types) (hb : b ∈ ns.types) (h : fmtClass a.name = fmtClass b.name) : a = b := by
  have hnd := bindNames_nodup hapi hns
  simp only [bindNames, List.nodup_append] at hnd
  have := nodup_flatMap_pair _ _ hnd.1.1.1.2.1
  exact nodup_map_inj (fun d : DataType => fmtClass d.name) this ha hb h

theorem fmtFunc_true_eq_fmtVar {n : Name} (h : noReserved (fmtVar n) = true) : fmtFunc n true = fmtVar n := by
  simp only [noReserved, fmtVar, Bool.false_eq_true, if_false, Bool.not_eq_true'] at h
  simp [fmtFunc, fmtVar, renameIfReserved, h]
  intro hmem
  simp [List.contains_eq_mem, hmem] at h

/-- what is known about the parent of a well-formed type: it is a declared type of the same kind, an EARLIER type
of this namespace or a type of a loaded imported namespace -/
theorem parent_info {api : Api} (hapi : apiWF api = true) {ns : Namespace} (hns : ns ∈ api.namespaces) {st : St}
    (hctx : Ctx api st ns) {pre post : List DataType} {d : DataType} (hsplit : ns.types = pre ++ d :: post)
    {pns pn : Name} (hp : d.parent = some (pns, pn)) :
    ∃ P nsP, nsP ∈ api.namespaces ∧ nsP.name = pns ∧ P ∈ nsP.types ∧ P.name = pn ∧ api.parentOf d = some P
      ∧ P.isStruct = d.isStruct ∧ (pns = ns.name → nsP = ns ∧ P ∈ pre)
      ∧ (pns ≠ ns.name → pns ∈ ns.imports ∧ Loaded api st nsP) := by
  have htw := typeWF_at hapi hns hsplit
  simp only [typeWF, hp, Bool.and_eq_true] at htw
  have hpar := htw.1.1.1.1.1
  cases hf : api.findType pns pn with
  | none => simp [hf] at hpar
  | some P =>
    simp only [hf, beq_iff_eq] at hpar
    obtain ⟨nsP, hnsP, hname, hmem, hPn⟩ := findType_spec hf
    refine ⟨P, nsP, hnsP, hname, hmem, hPn, by simp [Api.parentOf, hp, hf], hpar.1, ?_, ?_⟩
    · intro hloc
      have heq := ns_eq_of_name hapi hnsP hns (hname.trans hloc)
      subst heq
      have h2 := hpar.2
      simp only [hloc, if_true, List.any_eq_true, beq_iff_eq] at h2
      obtain ⟨y, hy, hyn⟩ := h2
      have hyin : y ∈ nsP.types := by rw [hsplit]; exact List.mem_append_left _ hy
      have : y = P := types_class_inj hapi hns hyin hmem (by rw [hyn, hPn])
      exact ⟨rfl, this ▸ hy⟩
    · intro hloc
      have h2 := hpar.2
      simp only [hloc, if_false, decide_eq_true_eq, List.contains_eq_mem] at h2
      exact ⟨h2, (hctx.foreign hapi h2 hnsP hname).1⟩

/-- the base-class reference of `d` evaluates to the class of the parent -/
theorem resolves_parent {api : Api} (hapi : apiWF api = true) {ns : Namespace} {st : St} (hctx : Ctx api st ns)
    {pns pn : Name} {P : DataType} {nsP : Namespace} (hnsP : nsP ∈ api.namespaces) (hname : nsP.name = pns)
    (hPn : P.name = pn) (hok : ClassOK api st nsP P) (himp : pns ≠ ns.name → pns ∈ ns.imports)
    (attr : Option Name) :
    Resolves st (modName ns) (qual ns.name pns (fmtClass pn) attr).mod (qual ns.name pns (fmtClass pn) attr).name
      (.cls (clsId pns pn)) := by
  have hg := hok.glob
  rw [hPn, hname] at hg
  refine resolves_qual hapi hctx (fun hloc => ?_) (fun hloc => ⟨himp hloc, nsP, hnsP, hname, hg⟩)
  have : modName nsP = modName ns := by simp [modName, hname, hloc]
  rw [← this]; exact hg

end StoneVerif.DeclPy
