import StoneVerif.Model.FeNames
/-!
# Name registration: acceptance = `NoClash` (C01), order independence, crash layer (C03)

The proofs work on the pair `(D, N)` = (declarations processed so far, namespace lines processed so far) and on
an invariant `Inv st D N` that describes the two dictionaries of the state in terms of `(D, N)`.  The invariant is
purely operational (it holds in every state reached without an error); `ConcatUnambiguous` -- which follows from
the separator in the key, `concatUnambiguous_of_nsLexical` -- translates "equal key" into "equal canonical parts".
-/
namespace StoneVerif.FeNames
open StoneVerif.FeParams (PyExc)

/-! ## Restatement over (declarations, namespaces) -/

def dkey (a : Decl) : Name := key a.item.name a.ns
def exactOf (a : Decl) : Name × Name := (a.ns, a.item.name)

def NC (D : List Decl) (N : List Name) : Prop :=
  D.Pairwise (fun a b => clash a b = false) ∧
  (∀ a ∈ D, ∀ m ∈ N, clashNs a m = false) ∧
  (∀ a ∈ D, redefinesBuiltin a = false)

def parts (D : List Decl) (N : List Name) : List (Name × Name) :=
  D.map (fun a => (canonName a.item.name, canonNs a.ns)) ++ N.map (fun m => (canonNs m, canonNs m))

def UA (D : List Decl) (N : List Name) : Prop :=
  ∀ p ∈ parts D N, ∀ q ∈ parts D N, p.1 ++ sep ++ p.2 = q.1 ++ sep ++ q.2 → p = q

theorem noClash_iff (fs : List File) : NoClash fs ↔ NC (decls fs) (namespaces fs) := Iff.rfl
theorem concatUnambiguous_iff (fs : List File) : ConcatUnambiguous fs ↔ UA (decls fs) (namespaces fs) := Iff.rfl

theorem UA.mono {D D' : List Decl} {N N' : List Name} (h : UA D' N') (hD : ∀ a ∈ D, a ∈ D') (hN : ∀ m ∈ N, m ∈ N') :
    UA D N := by
  have hsub : ∀ p ∈ parts D N, p ∈ parts D' N' := by
    intro p hp
    simp only [parts, List.mem_append, List.mem_map] at hp ⊢
    rcases hp with ⟨a, ha, rfl⟩ | ⟨m, hm, rfl⟩
    · exact .inl ⟨a, hD a ha, rfl⟩
    · exact .inr ⟨m, hN m hm, rfl⟩
  intro p hp q hq; exact h p (hsub p hp) q (hsub q hq)

theorem UA.decl_decl {D N} (h : UA D N) {a b : Decl} (ha : a ∈ D) (hb : b ∈ D) (hk : dkey a = dkey b) :
    canonName a.item.name = canonName b.item.name ∧ canonNs a.ns = canonNs b.ns := by
  have := h (canonName a.item.name, canonNs a.ns) (by simp only [parts, List.mem_append, List.mem_map]; exact .inl ⟨a, ha, rfl⟩)
    (canonName b.item.name, canonNs b.ns) (by simp only [parts, List.mem_append, List.mem_map]; exact .inl ⟨b, hb, rfl⟩) hk
  simpa using this

theorem UA.decl_ns {D N} (h : UA D N) {a : Decl} {m : Name} (ha : a ∈ D) (hm : m ∈ N) (hl : canonName m = canonNs m)
    (hk : key m m = dkey a) :
    canonName a.item.name = canonNs m ∧ canonNs a.ns = canonNs m := by
  have hk : canonNs m ++ sep ++ canonNs m = dkey a := by rw [← hk, key, hl]
  have := h (canonName a.item.name, canonNs a.ns) (by simp only [parts, List.mem_append, List.mem_map]; exact .inl ⟨a, ha, rfl⟩)
    (canonNs m, canonNs m) (by simp only [parts, List.mem_append, List.mem_map]; exact .inr ⟨m, hm, rfl⟩) hk.symm
  simpa using this

theorem NC.mono {D D' : List Decl} {N N' : List Name} (h : NC D' N') (hD : D.Sublist D') (hN : ∀ m ∈ N, m ∈ N') :
    NC D N :=
  ⟨h.1.sublist hD, fun a ha m hm => h.2.1 a (hD.subset ha) m (hN m hm), fun a ha => h.2.2 a (hD.subset ha)⟩

theorem clash_symm (a b : Decl) : clash a b = clash b a := by
  unfold clash
  cases ha : a.item.kind <;> cases hb : b.item.kind <;> simp only [] <;> rw [Bool.eq_iff_iff] <;>
    simp only [Bool.and_eq_true, beq_iff_eq] <;>
    first
    | exact ⟨fun ⟨h1, h2⟩ => ⟨h1.symm, h2.symm⟩, fun ⟨h1, h2⟩ => ⟨h1.symm, h2.symm⟩⟩
    | exact ⟨fun ⟨⟨h1, h2⟩, h3⟩ => ⟨⟨h1.symm, h2.symm⟩, h3.symm⟩, fun ⟨⟨h1, h2⟩, h3⟩ => ⟨⟨h1.symm, h2.symm⟩, h3.symm⟩⟩

theorem pairwise_mem_of_symm {α} {R : α → α → Prop} (hs : ∀ x y, R x y → R y x) {l : List α} (h : l.Pairwise R)
    {a b : α} (ha : a ∈ l) (hb : b ∈ l) (hab : a ≠ b) : R a b := by
  induction l with
  | nil => cases ha
  | cons x l ih =>
    rw [List.pairwise_cons] at h
    rcases List.mem_cons.mp ha with rfl | ha' <;> rcases List.mem_cons.mp hb with rfl | hb'
    · exact absurd rfl hab
    · exact h.1 _ hb'
    · exact hs _ _ (h.1 _ ha')
    · exact ih h.2 ha' hb'

/-- adding one declaration at the end -/
theorem NC_snoc (D : List Decl) (N : List Name) (a : Decl) :
    NC (D ++ [a]) N ↔ NC D N ∧ (∀ b ∈ D, clash b a = false) ∧ (∀ m ∈ N, clashNs a m = false) ∧ redefinesBuiltin a = false := by
  simp only [NC, List.pairwise_append, List.mem_append, List.mem_singleton, List.pairwise_cons, List.Pairwise.nil]
  grind

/-! ## The invariant -/

/-- `_item_by_canonical_name` described by the processed declarations `D` and namespace lines `N` -/
structure InvC (cn : List (Name × Cls)) (D : List Decl) (N : List Name) : Prop where
  w : ∀ a ∈ D, a.ns ∈ N
  c1 : ∀ k, (∃ m ∈ N, key m m = k) → cn.lookup k = some .ns
  c2 : ∀ k c, cn.lookup k = some c →
    (c = .ns ∧ ∃ m ∈ N, key m m = k) ∨ (∃ b ∈ D, dkey b = k ∧ b.item.kind.cls = c)
  c3 : ∀ k, cn.lookup k = none → (∀ b ∈ D, dkey b ≠ k) ∧ (∀ m ∈ N, key m m ≠ k)

/-- the per-namespace environments described by the processed declarations -/
structure InvE (en : List ((Name × Name) × EnvEntry)) (D : List Decl) : Prop where
  e1 : ∀ p, en.lookup p = none ↔ ∀ b ∈ D, exactOf b ≠ p
  e2 : ∀ p vs, en.lookup p = some (.routes vs) →
    (∀ b ∈ D, exactOf b = p → b.item.kind.isRoute = true) ∧
    (∀ v, v ∈ vs ↔ ∃ b ∈ D, exactOf b = p ∧ b.item.kind = .route v)
  e3 : ∀ p, en.lookup p = some .user → ∃ b ∈ D, exactOf b = p ∧ b.item.kind.isRoute = false

def Inv (st : State) (D : List Decl) (N : List Name) : Prop := InvC st.canon D N ∧ InvE st.env D

theorem lookup_cons_eq {α β} [BEq α] [LawfulBEq α] [DecidableEq α] (k : α) (v : β) (l : List (α × β)) (q : α) :
    List.lookup q ((k, v) :: l) = if q = k then some v else List.lookup q l := by
  rw [List.lookup_cons]
  by_cases h : q = k
  · subst h; simp
  · have : (q == k) = false := by simpa using h
    simp [this, h]

theorem Inv.init : Inv {} [] [] := by
  constructor <;> constructor <;> simp

theorem cls_ne_ns (k : ItemKind) : k.cls ≠ .ns := by cases k <;> simp [ItemKind.cls]

theorem cls_eq_route {k : ItemKind} : k.cls = .route ↔ k.isRoute = true := by
  cases k <;> simp [ItemKind.cls, ItemKind.isRoute]

/-- the namespace line of a file -/
theorem InvC.pushNs {cn D N} (h : InvC cn D N) (m : Name) : InvC ((key m m, .ns) :: cn) D (N ++ [m]) := by
  constructor
  · intro a ha; exact List.mem_append_left _ (h.w a ha)
  · intro k hk
    simp only [lookup_cons_eq]
    split
    · rfl
    · apply h.c1
      obtain ⟨m', hm', rfl⟩ := hk
      rcases List.mem_append.mp hm' with h1 | h1
      · exact ⟨m', h1, rfl⟩
      · simp at h1; subst h1; contradiction
  · intro k c
    simp only [lookup_cons_eq]
    split
    · rename_i hk; intro hc; cases hc
      exact .inl ⟨rfl, m, by simp, hk.symm⟩
    · intro hc
      rcases h.c2 k c hc with ⟨rfl, m', hm', hk'⟩ | hb
      · exact .inl ⟨rfl, m', List.mem_append_left _ hm', hk'⟩
      · exact .inr hb
  · intro k
    simp only [lookup_cons_eq]
    split
    · intro hc; cases hc
    · rename_i hne
      intro hc
      refine ⟨(h.c3 k hc).1, ?_⟩
      intro m' hm'
      rcases List.mem_append.mp hm' with h1 | h1
      · exact (h.c3 k hc).2 m' h1
      · simp at h1; subst h1; exact fun e => hne e.symm

/-- a declaration whose key was free -/
theorem InvC.push {cn D N} (h : InvC cn D N) (a : Decl) (ha : a.ns ∈ N) (hl : cn.lookup (dkey a) = none) :
    InvC ((dkey a, a.item.kind.cls) :: cn) (D ++ [a]) N := by
  have h1 := h.c1; have h2 := h.c2; have h3 := h.c3; have hw := h.w
  constructor
  · simp only [List.mem_append, List.mem_singleton]; grind
  · simp only [lookup_cons_eq]; grind
  · simp only [lookup_cons_eq, List.mem_append, List.mem_singleton]; grind
  · simp only [lookup_cons_eq, List.mem_append, List.mem_singleton]; grind

/-- a declaration whose key is already held (a route joining routes) -/
theorem InvC.keep {cn D N} (h : InvC cn D N) (a : Decl) (ha : a.ns ∈ N) {c} (hl : cn.lookup (dkey a) = some c) :
    InvC cn (D ++ [a]) N := by
  have h1 := h.c1; have h2 := h.c2; have h3 := h.c3; have hw := h.w
  constructor
  · simp only [List.mem_append, List.mem_singleton]; grind
  · exact h1
  · simp only [List.mem_append, List.mem_singleton]; grind
  · simp only [List.mem_append, List.mem_singleton]; grind

theorem InvE.user {en D} (h : InvE en D) (a : Decl) (hl : en.lookup (exactOf a) = none)
    (hr : a.item.kind.isRoute = false) : InvE ((exactOf a, .user) :: en) (D ++ [a]) := by
  have h1 := h.e1; have h2 := h.e2; have h3 := h.e3
  constructor
  · simp only [lookup_cons_eq, List.mem_append, List.mem_singleton]; grind
  · simp only [lookup_cons_eq, List.mem_append, List.mem_singleton]; grind
  · simp only [lookup_cons_eq, List.mem_append, List.mem_singleton]; grind

theorem InvE.routeNew {en D} (h : InvE en D) (a : Decl) (hl : en.lookup (exactOf a) = none)
    {v} (hr : a.item.kind = .route v) : InvE ((exactOf a, .routes [v]) :: en) (D ++ [a]) := by
  have h1 := h.e1; have h2 := h.e2; have h3 := h.e3
  have hr' : a.item.kind.isRoute = true := by rw [hr]; rfl
  constructor
  · simp only [lookup_cons_eq, List.mem_append, List.mem_singleton]; grind
  · simp only [lookup_cons_eq, List.mem_append, List.mem_singleton]; grind
  · simp only [lookup_cons_eq, List.mem_append, List.mem_singleton]; grind

theorem InvE.routeMore {en D} (h : InvE en D) (a : Decl) {vs} (hl : en.lookup (exactOf a) = some (.routes vs))
    {v} (hr : a.item.kind = .route v) : InvE ((exactOf a, .routes (v :: vs)) :: en) (D ++ [a]) := by
  have h1 := h.e1; have h2 := h.e2; have h3 := h.e3
  have hr' : a.item.kind.isRoute = true := by rw [hr]; rfl
  constructor
  · simp only [lookup_cons_eq, List.mem_append, List.mem_singleton]; grind
  · simp only [lookup_cons_eq, List.mem_append, List.mem_singleton]; grind
  · simp only [lookup_cons_eq, List.mem_append, List.mem_singleton]; grind

/-! ## `addItem` decomposed: exact-name test, then canonical-name test -/

/-- the exact-name test of `addItem`: the new environment entry, or the error -/
def envCheck (k : ItemKind) (old : Option EnvEntry) (name : Name) : Except Err EnvEntry :=
  match k, old with
  | .route v, some (.routes vs) =>
    if vs.contains v then .error (.specerr .routeVersionDefined) else .ok (.routes (v :: vs))
  | .route v, none => .ok (.routes [v])
  | _, some e => .error (symbolAlreadyDefined (some e))
  | k, none =>
    if k == .annotationType && builtinAnnotations.contains name then .error (.specerr .builtinAnnotation)
    else .ok .user

theorem addItem_eq (st : State) (ns : Name) (x : Item) : addItem st ns x =
    if builtinTypes.contains x.name then .error (.specerr .symbolDefined) else
    match envCheck x.kind (st.env.lookup (ns, x.name)) x.name with
    | .error e => .error e
    | .ok ent => checkCanon { st with env := ((ns, x.name), ent) :: st.env } x.kind.cls x.name ns x.kind.isRoute := by
  unfold addItem envCheck
  split
  · rfl
  · generalize st.env.lookup (ns, x.name) = o
    rcases x with ⟨k, name⟩
    cases k <;> rcases o with _ | (_ | vs) <;> simp only [ItemKind.cls, ItemKind.isRoute] <;>
      first | rfl | (split <;> rfl)

theorem envCheck_ok {k old name ent} (h : envCheck k old name = .ok ent) :
    (∃ v, k = .route v ∧ old = none ∧ ent = .routes [v]) ∨
    (∃ v vs, k = .route v ∧ old = some (.routes vs) ∧ v ∉ vs ∧ ent = .routes (v :: vs)) ∨
    (k.isRoute = false ∧ old = none ∧ ¬ (k = .annotationType ∧ builtinAnnotations.contains name = true) ∧
      ent = .user) := by
  unfold envCheck at h
  split at h
  · split at h
    · cases h
    · rename_i hv; cases h; simp at hv; simp [hv]
  · cases h; simp
  · cases h
  · rename_i hk
    split at h
    · cases h
    · rename_i hb; cases h
      have : k.isRoute = false := by
        cases k <;> simp [ItemKind.isRoute]
        exact hk _ rfl
      simp at hb
      simp [this]; exact hb

theorem envCheck_error {k old name e} (h : envCheck k old name = .error e) :
    (∃ v vs, k = .route v ∧ old = some (.routes vs) ∧ v ∈ vs) ∨
    (old = some .user) ∨
    (k.isRoute = false ∧ ∃ vs, old = some (.routes vs)) ∨
    (k = .annotationType ∧ builtinAnnotations.contains name = true ∧ old = none ∧
      e = .specerr .builtinAnnotation) := by
  unfold envCheck at h
  split at h
  · split at h
    · rename_i hv; simp at hv; simp [hv]
    · cases h
  · cases h
  · rename_i _ ent hk
    rcases ent with _ | vs
    · simp
    · have : k.isRoute = false := by
        cases k <;> simp [ItemKind.isRoute]
        exact hk _ _ rfl rfl
      simp [this]
  · split at h
    · rename_i hb; simp at hb; cases h; simp [hb]
    · cases h

theorem checkCanon_ok {st c name ns dup st'} (h : checkCanon st c name ns dup = .ok st') :
    st'.env = st.env ∧
    ((st.canon.lookup (key name ns) = none ∧ st'.canon = (key name ns, c) :: st.canon) ∨
     (st.canon.lookup (key name ns) = some c ∧ dup = true ∧ st'.canon = st.canon)) := by
  unfold checkCanon at h
  simp only at h
  split at h
  · rename_i hl; cases h; simp [hl]
  · rename_i s hl
    split at h
    · rename_i hc; cases h; simp at hc; simp [hl, hc]
    · cases h

theorem checkCanon_error {st c name ns dup e} (h : checkCanon st c name ns dup = .error e) :
    e = .specerr .nameConflict ∧
    ∃ s, st.canon.lookup (key name ns) = some s ∧ ¬ (c = s ∧ dup = true) := by
  unfold checkCanon at h
  simp only at h
  split at h
  · cases h
  · rename_i s hl
    split at h
    · cases h
    · rename_i hc
      simp at hc
      cases h
      exact ⟨rfl, s, hl, fun ⟨h1, h2⟩ => absurd h2 (by simpa using hc h1)⟩

/-! ## One declaration: invariant, acceptance, crash -/

theorem addItem_inv {st D N ns x st'} (hI : Inv st D N) (hns : ns ∈ N) (h : addItem st ns x = .ok st') :
    Inv st' (D ++ [⟨ns, x⟩]) N := by
  rw [addItem_eq] at h
  split at h
  · cases h
  · split at h
    · cases h
    · rename_i ent hE
      obtain ⟨henv, hcan⟩ := checkCanon_ok h
      simp only at henv hcan
      have hE' : InvE st'.env (D ++ [⟨ns, x⟩]) := by
        rw [henv]
        rcases envCheck_ok hE with ⟨v, hk, ho, rfl⟩ | ⟨v, vs, hk, ho, _, rfl⟩ | ⟨hr, ho, _, rfl⟩
        · exact hI.2.routeNew ⟨ns, x⟩ ho hk
        · exact hI.2.routeMore ⟨ns, x⟩ ho hk
        · exact hI.2.user ⟨ns, x⟩ ho hr
      refine ⟨?_, hE'⟩
      rcases hcan with ⟨hl, hc⟩ | ⟨hl, _, hc⟩
      · rw [hc]; exact hI.1.push ⟨ns, x⟩ hns hl
      · rw [hc]; exact hI.1.keep ⟨ns, x⟩ hns hl

theorem addItem_isOk (st : State) (ns : Name) (x : Item) : isOk (addItem st ns x) = true ↔
    builtinTypes.contains x.name = false ∧
    (∃ ent, envCheck x.kind (st.env.lookup (ns, x.name)) x.name = .ok ent) ∧
    (st.canon.lookup (key x.name ns) = none ∨
      (st.canon.lookup (key x.name ns) = some x.kind.cls ∧ x.kind.isRoute = true)) := by
  rw [addItem_eq]
  split
  · rename_i hb
    simp only [isOk, hb, Bool.false_eq_true, Bool.true_eq_false, false_and]
  · rename_i hb
    simp only [Bool.not_eq_true] at hb
    split
    · rename_i e hE; simp [isOk, hE]
    · rename_i ent hE
      simp only [hb, hE, true_and, Except.ok.injEq, exists_eq']
      cases hc : checkCanon { st with env := ((ns, x.name), ent) :: st.env } x.kind.cls x.name ns x.kind.isRoute with
      | ok st' =>
        simp only [isOk, true_iff]
        rcases (checkCanon_ok hc).2 with ⟨hl, _⟩ | ⟨hl, hd, _⟩
        · exact .inl hl
        · exact .inr ⟨hl, hd⟩
      | error e =>
        simp only [isOk, false_iff, Bool.false_eq_true]
        obtain ⟨-, s, hl, hn⟩ := checkCanon_error hc
        simp only at hl
        rw [hl]
        rintro (h | ⟨h, hd⟩)
        · cases h
        · cases h; exact hn ⟨rfl, hd⟩

theorem clash_of_nonroute {b a : Decl} (h : b.item.kind.isRoute = false ∨ a.item.kind.isRoute = false) :
    clash b a = (canonName b.item.name == canonName a.item.name && canonNs b.ns == canonNs a.ns) := by
  unfold clash
  cases hb : b.item.kind <;> cases ha : a.item.kind <;> simp [hb, ha, ItemKind.isRoute] at h ⊢

theorem clash_routes {b a : Decl} {w v} (hb : b.item.kind = .route w) (ha : a.item.kind = .route v) :
    clash b a = (b.ns == a.ns && b.item.name == a.item.name && w == v) := by
  unfold clash; rw [hb, ha]

theorem isRoute_iff {k : ItemKind} : k.isRoute = true ↔ ∃ v, k = .route v := by
  cases k <;> simp [ItemKind.isRoute]

/-- in a state described by `(D, N)`, with unambiguous keys, the next declaration is accepted iff it clashes with
nothing registered so far -/
theorem addItem_ok_iff {st D N} {a : Decl} (hI : Inv st D N) (hNC : NC D N) (hU : UA (D ++ [a]) N)
    (hL : ∀ m ∈ N, canonName m = canonNs m) :
    isOk (addItem st a.ns a.item) = true ↔ NC (D ++ [a]) N := by
  rw [NC_snoc, addItem_isOk]
  simp only [hNC, true_and]
  have haD : a ∈ D ++ [a] := by simp
  have hsub : ∀ b ∈ D, b ∈ D ++ [a] := fun b hb => List.mem_append_left _ hb
  constructor
  · rintro ⟨hb, ⟨ent, hE⟩, hC⟩
    refine ⟨?_, ?_, ?_⟩
    · intro b hbD
      by_cases hbr : b.item.kind.isRoute = true ∧ a.item.kind.isRoute = true
      · obtain ⟨w, hw⟩ := isRoute_iff.mp hbr.1
        obtain ⟨v, hv⟩ := isRoute_iff.mp hbr.2
        rw [clash_routes hw hv]
        cases hcl : (b.ns == a.ns && b.item.name == a.item.name && w == v)
        · rfl
        · exfalso
          simp only [Bool.and_eq_true, beq_iff_eq] at hcl
          obtain ⟨⟨h1, h2⟩, h3⟩ := hcl
          have hex : exactOf b = (a.ns, a.item.name) := by simp [exactOf, h1, h2]
          rcases envCheck_ok hE with ⟨v', hk, ho, _⟩ | ⟨v', vs, hk, ho, hnv, _⟩ | ⟨hr, _⟩
          · exact (hI.2.e1 _).mp ho b hbD hex
          · have hvv : v' = v := by rw [hv] at hk; cases hk; rfl
            exact hnv (((hI.2.e2 _ _ ho).2 v').mpr ⟨b, hbD, hex, by rw [hw, h3, hvv]⟩)
          · rw [hbr.2] at hr; cases hr
      · have hnr : b.item.kind.isRoute = false ∨ a.item.kind.isRoute = false := by
          cases h1 : b.item.kind.isRoute <;> cases h2 : a.item.kind.isRoute <;> simp_all
        rw [clash_of_nonroute hnr]
        cases hcl : (canonName b.item.name == canonName a.item.name && canonNs b.ns == canonNs a.ns)
        · rfl
        · exfalso
          simp only [Bool.and_eq_true, beq_iff_eq] at hcl
          have hk : dkey b = dkey a := by simp [dkey, key, hcl.1, hcl.2]
          rcases hC with hl | ⟨hl, har⟩
          · exact (hI.1.c3 _ hl).1 b hbD hk
          · rcases hI.1.c2 _ _ hl with ⟨hc, _⟩ | ⟨b0, hb0, hk0, hc0⟩
            · exact cls_ne_ns _ hc
            · have hb0r : b0.item.kind.isRoute = true := cls_eq_route.mp (hc0.trans (cls_eq_route.mpr har))
              have hbnr : b.item.kind.isRoute = false := by
                rcases hnr with h | h
                · exact h
                · rw [har] at h; cases h
              have hne : b0 ≠ b := by
                intro e; rw [e] at hb0r; rw [hb0r] at hbnr; cases hbnr
              have hp := pairwise_mem_of_symm (R := fun a b => clash a b = false)
                (fun x y h => by rw [clash_symm]; exact h) hNC.1 hb0 hbD hne
              rw [clash_of_nonroute (.inr hbnr)] at hp
              have hq := hU.decl_decl (hsub b0 hb0) (hsub b hbD) (hk0.trans hk.symm)
              simp [hq.1, hq.2] at hp
    · intro m hm
      cases hcl : clashNs a m
      · rfl
      · exfalso
        simp only [clashNs, Bool.and_eq_true, beq_iff_eq] at hcl
        have hk : key m m = key a.item.name a.ns := by simp [key, hL m hm, hcl.1, hcl.2]
        have h1 := hI.1.c1 _ ⟨m, hm, hk⟩
        rcases hC with hl | ⟨hl, _⟩
        · rw [hl] at h1; cases h1
        · rw [hl] at h1; injection h1 with h1; exact cls_ne_ns _ h1
    · simp only [redefinesBuiltin, hb, Bool.false_or, Bool.and_eq_false_imp, beq_iff_eq]
      rcases envCheck_ok hE with ⟨v, hk, _⟩ | ⟨v, vs, hk, _⟩ | ⟨_, _, hna, _⟩
      · rw [hk]; intro h; cases h
      · rw [hk]; intro h; cases h
      · intro hk
        cases hc : builtinAnnotations.contains a.item.name
        · rfl
        · exact absurd ⟨hk, hc⟩ hna
  · rintro ⟨h1, h2, h3⟩
    simp only [redefinesBuiltin, Bool.or_eq_false_iff] at h3
    refine ⟨h3.1, ?_, ?_⟩
    · cases hE : envCheck a.item.kind (List.lookup (a.ns, a.item.name) st.env) a.item.name with
      | ok ent => exact ⟨ent, rfl⟩
      | error e =>
        exfalso
        rcases envCheck_error hE with ⟨v, vs, hk, ho, hv⟩ | ho | ⟨hr, vs, ho⟩ | ⟨hk, hc, _, _⟩
        · obtain ⟨b, hbD, hex, hbk⟩ := ((hI.2.e2 _ _ ho).2 v).mp hv
          have := h1 b hbD
          rw [clash_routes hbk hk] at this
          simp only [exactOf, Prod.mk.injEq] at hex
          simp [hex.1, hex.2] at this
        · obtain ⟨b, hbD, hex, hbr⟩ := hI.2.e3 _ ho
          have := h1 b hbD
          rw [clash_of_nonroute (.inl hbr)] at this
          simp only [exactOf, Prod.mk.injEq] at hex
          simp [hex.1, hex.2] at this
        · obtain ⟨b, hbD, hex⟩ : ∃ b ∈ D, exactOf b = (a.ns, a.item.name) := by
            apply Classical.byContradiction
            intro hno
            have hall : ∀ b ∈ D, exactOf b ≠ (a.ns, a.item.name) := fun b hb he => hno ⟨b, hb, he⟩
            rw [(hI.2.e1 _).mpr hall] at ho; cases ho
          have := h1 b hbD
          rw [clash_of_nonroute (.inr hr)] at this
          simp only [exactOf, Prod.mk.injEq] at hex
          simp [hex.1, hex.2] at this
        · have := h3.2
          rw [hk, hc] at this
          simp at this
    · cases hl : List.lookup (key a.item.name a.ns) st.canon with
      | none => exact .inl rfl
      | some s =>
        right
        rcases hI.1.c2 _ _ hl with ⟨_, m, hm, hk⟩ | ⟨b, hbD, hk, hc⟩
        · exfalso
          have hq := hU.decl_ns haD hm (hL m hm) hk
          have := h2 m hm
          simp [clashNs, hq.1, hq.2] at this
        · have hq := hU.decl_decl (hsub b hbD) haD hk
          by_cases hbr : b.item.kind.isRoute = true ∧ a.item.kind.isRoute = true
          · exact ⟨by rw [← hc, cls_eq_route.mpr hbr.1, cls_eq_route.mpr hbr.2], hbr.2⟩
          · exfalso
            have hnr : b.item.kind.isRoute = false ∨ a.item.kind.isRoute = false := by
              cases h1 : b.item.kind.isRoute <;> cases h2 : a.item.kind.isRoute <;> simp_all
            have := h1 b hbD
            rw [clash_of_nonroute hnr] at this
            simp [hq.1, hq.2] at this

/-! ## Lifting to files -/

theorem isOk_ok {ε α} (a : α) : isOk (Except.ok a : Except ε α) = true := rfl
theorem isOk_error {ε α} (e : ε) : isOk (Except.error e : Except ε α) = false := rfl

theorem addItems_inv {st D N ns st'} (xs : List Item) (hI : Inv st D N) (hns : ns ∈ N)
    (h : addItems st ns xs = .ok st') : Inv st' (D ++ xs.map (fun x => (⟨ns, x⟩ : Decl))) N := by
  induction xs generalizing st D with
  | nil => simp only [addItems, Except.ok.injEq] at h; subst h; simpa using hI
  | cons x xs ih =>
    unfold addItems at h
    cases h1 : addItem st ns x with
    | error e => rw [h1] at h; cases h
    | ok st1 =>
      rw [h1] at h
      have := ih (addItem_inv hI hns h1) h
      simpa using this

theorem NC.pushNs {D N} (hw : ∀ a ∈ D, a.ns ∈ N) (h : NC D N) (m : Name) : NC D (N ++ [m]) := by
  refine ⟨h.1, ?_, h.2.2⟩
  intro a ha m' hm'
  rcases List.mem_append.mp hm' with h1 | h1
  · exact h.2.1 a ha m' h1
  · simp only [List.mem_singleton] at h1; subst h1
    cases hcl : clashNs a m'
    · rfl
    · exfalso
      simp only [clashNs, Bool.and_eq_true, beq_iff_eq] at hcl
      have := h.2.1 a ha a.ns (hw a ha)
      simp [clashNs, hcl.1, hcl.2] at this

theorem addItems_main {st D N ns} (xs : List Item) (hI : Inv st D N) (hns : ns ∈ N) (hNC : NC D N)
    (hU : UA (D ++ xs.map (fun x => (⟨ns, x⟩ : Decl))) N) (hL : ∀ m ∈ N, canonName m = canonNs m) :
    isOk (addItems st ns xs) = true ↔ NC (D ++ xs.map (fun x => (⟨ns, x⟩ : Decl))) N := by
  induction xs generalizing st D with
  | nil => simpa [addItems, isOk] using hNC
  | cons x xs ih =>
    have hassoc : D ++ (x :: xs).map (fun x => (⟨ns, x⟩ : Decl))
        = (D ++ [⟨ns, x⟩]) ++ xs.map (fun x => (⟨ns, x⟩ : Decl)) := by simp
    rw [hassoc] at hU ⊢
    have hU1 : UA (D ++ [⟨ns, x⟩]) N := hU.mono (fun a ha => List.mem_append_left _ ha) (fun m hm => hm)
    have hiff := addItem_ok_iff (a := ⟨ns, x⟩) hI hNC hU1 hL
    unfold addItems
    cases h1 : addItem st ns x with
    | error e =>
      simp only [isOk_error, Bool.false_eq_true, false_iff]
      have hno : ¬ NC (D ++ [⟨ns, x⟩]) N := by
        rw [← hiff]; simp only [h1, isOk_error]; exact Bool.false_ne_true
      exact fun h => hno (h.mono (List.sublist_append_left _ _) (fun m hm => hm))
    | ok st1 =>
      simp only
      have hNC1 : NC (D ++ [⟨ns, x⟩]) N := hiff.mp (by simp only [h1]; rfl)
      exact ih (addItem_inv hI hns h1) hNC1 hU

theorem decls_cons (f : File) (fs : List File) :
    decls (f :: fs) = f.items.map (fun x => (⟨f.ns, x⟩ : Decl)) ++ decls fs := by
  simp [decls]

theorem registerFrom_main {st D N} (fs : List File) (hI : Inv st D N) (hNC : NC D N)
    (hU : UA (D ++ decls fs) (N ++ namespaces fs)) (hL : ∀ m ∈ N ++ namespaces fs, canonName m = canonNs m) :
    isOk (registerFrom st fs) = true ↔ NC (D ++ decls fs) (N ++ namespaces fs) := by
  induction fs generalizing st D N with
  | nil => simpa [registerFrom, isOk, decls, namespaces] using hNC
  | cons f fs ih =>
    have hD : D ++ decls (f :: fs) = (D ++ f.items.map (fun x => (⟨f.ns, x⟩ : Decl))) ++ decls fs := by
      rw [decls_cons, List.append_assoc]
    have hN : N ++ namespaces (f :: fs) = (N ++ [f.ns]) ++ namespaces fs := by simp [namespaces]
    rw [hD, hN] at hU
    rw [hN] at hL
    rw [hD, hN]
    have hI1 : Inv { st with canon := (key f.ns f.ns, .ns) :: st.canon } D (N ++ [f.ns]) := ⟨hI.1.pushNs f.ns, hI.2⟩
    have hNC1 : NC D (N ++ [f.ns]) := hNC.pushNs hI.1.w f.ns
    have hU1 : UA (D ++ f.items.map (fun x => (⟨f.ns, x⟩ : Decl))) (N ++ [f.ns]) :=
      hU.mono (fun a ha => List.mem_append_left _ ha) (fun m hm => List.mem_append_left _ hm)
    have hL1 : ∀ m ∈ N ++ [f.ns], canonName m = canonNs m := fun m hm => hL m (List.mem_append_left _ hm)
    have hmem : f.ns ∈ N ++ [f.ns] := by simp
    have hmain := addItems_main f.items hI1 hmem hNC1 hU1 hL1
    unfold registerFrom addFile
    cases h1 : addItems { st with canon := (key f.ns f.ns, .ns) :: st.canon } f.ns f.items with
    | error e =>
      simp only [isOk_error, Bool.false_eq_true, false_iff]
      have hno : ¬ NC (D ++ f.items.map (fun x => (⟨f.ns, x⟩ : Decl))) (N ++ [f.ns]) := by
        rw [← hmain]; simp only [h1, isOk_error]; exact Bool.false_ne_true
      exact fun h => hno (h.mono (List.sublist_append_left _ _) (fun m hm => List.mem_append_left _ hm))
    | ok st1 =>
      simp only
      have hNC2 := hmain.mp (by simp only [h1]; rfl)
      exact ih (addItems_inv f.items hI1 hmem h1) hNC2 hU hL

theorem NC.nil : NC [] [] := by simp [NC]

theorem canonName_eq_canonNs {m : Name} (h : '/' ∉ m) : canonName m = canonNs m := by
  unfold canonName canonNs
  congr 1
  apply List.filter_congr
  intro c hc
  have : c ≠ '/' := fun e => h (e ▸ hc)
  simp [this]

/-- Namespace names come from the lexer token `ID` (`[a-zA-Z_][a-zA-Z0-9_-]*`): no `/`. -/
def NsLexical (fs : List File) : Prop := ∀ m ∈ namespaces fs, '/' ∉ m

instance (fs : List File) : Decidable (NsLexical fs) := by unfold NsLexical; infer_instance

/-! ## The separator makes the keys unambiguous -/

theorem sep_eq : sep = ['/'] := by decide

/-- the separator `_get_base_name` inserts, as extracted from the code -/
theorem canonical_sep_table : Tables.feCanonicalSep = "/" := by decide

theorem toLower_ne_slash (c : Char) (h : c ≠ '/') : c.toLower ≠ '/' := by
  intro e
  unfold Char.toLower at e
  split at e
  · rename_i hc
    have h1 := congrArg (fun x => x.val.toNat) e
    simp only [UInt32.toNat_add] at h1
    have h2 : 65 ≤ c.val.toNat := UInt32.le_iff_toNat_le.mp hc.1
    have h3 : c.val.toNat ≤ 90 := UInt32.le_iff_toNat_le.mp hc.2
    have h4 : ('a'.val - 'A'.val).toNat = 32 := by decide
    have h5 : ('/' : Char).val.toNat = 47 := by decide
    rw [h4, h5] at h1
    omega
  · exact h e

theorem slash_not_mem_lower {l : Name} (h : '/' ∉ l) : '/' ∉ lower l := by
  intro hm
  obtain ⟨c, hc, e⟩ := List.mem_map.mp hm
  exact toLower_ne_slash c (fun e' => h (e' ▸ hc)) e

/-- the first part of a key never contains the separator: `/` is one of the characters `canonName` strips -/
theorem slash_not_mem_canonName (s : Name) : '/' ∉ canonName s := by
  apply slash_not_mem_lower
  intro hm
  have := (List.mem_filter.mp hm).2
  simp at this

theorem slash_not_mem_canonNs {m : Name} (h : '/' ∉ m) : '/' ∉ canonNs m := by
  apply slash_not_mem_lower
  intro hm
  exact h (List.mem_filter.mp hm).1

/-- a key splits at its first `/` -/
theorem sep_split {a a' b b' : Name} (ha : '/' ∉ a) (ha' : '/' ∉ a') (h : a ++ sep ++ b = a' ++ sep ++ b') :
    a = a' ∧ b = b' := by
  rw [sep_eq] at h
  induction a generalizing a' with
  | nil =>
    cases a' with
    | nil => simpa using h
    | cons c t =>
      simp only [List.nil_append, List.cons_append, List.cons.injEq] at h
      exact absurd h.1.symm (fun e => ha' (e ▸ List.mem_cons_self))
  | cons c t ih =>
    cases a' with
    | nil =>
      simp only [List.nil_append, List.cons_append, List.cons.injEq] at h
      exact absurd h.1 (fun e => ha (e ▸ List.mem_cons_self))
    | cons c' t' =>
      simp only [List.cons_append, List.cons.injEq] at h
      obtain ⟨rfl, h⟩ := h
      obtain ⟨rfl, rfl⟩ := ih (fun hm => ha (List.mem_cons_of_mem _ hm)) (fun hm => ha' (List.mem_cons_of_mem _ hm))
        (by simpa using h)
      exact ⟨rfl, rfl⟩

/-- Namespace names are identifiers, so no two different (name part, namespace part) pairs share a key. -/
theorem concatUnambiguous_of_nsLexical (fs : List File) (hl : NsLexical fs) : ConcatUnambiguous fs := by
  have hfree : ∀ p ∈ keyParts fs, '/' ∉ p.1 := by
    intro p hp
    simp only [keyParts, List.mem_append, List.mem_map] at hp
    rcases hp with ⟨a, _, rfl⟩ | ⟨m, hm, rfl⟩
    · exact slash_not_mem_canonName _
    · exact slash_not_mem_canonNs (hl m hm)
  intro p hp q hq h
  obtain ⟨h1, h2⟩ := sep_split (hfree p hp) (hfree q hq) h
  exact Prod.ext h1 h2

/-- the statement for given unambiguous keys (kept as the workhorse; `ConcatUnambiguous` is discharged below) -/
theorem register_ok_iff_noclash_of_unambiguous (fs : List File) (hu : ConcatUnambiguous fs) (hl : NsLexical fs) :
    isOk (register fs) = true ↔ NoClash fs := by
  have := registerFrom_main (st := {}) (D := []) (N := []) fs Inv.init NC.nil
    (by simpa using (concatUnambiguous_iff fs).mp hu)
    (by simpa using fun m hm => canonName_eq_canonNs (hl m hm))
  simpa [register, noClash_iff] using this

/-- **C01 (full strength).** The registration pass accepts a set of files iff its names obey the documented rules
(`NoClash`: A8 - A10, B19).  `NsLexical` is not a restriction on compiler inputs: namespace names are `ID` tokens
of the lexer, which cannot contain `/` (`nsLexical_needed` shows what the hypothesis keeps out). -/
theorem register_ok_iff_noclash (fs : List File) (hl : NsLexical fs) :
    isOk (register fs) = true ↔ NoClash fs :=
  register_ok_iff_noclash_of_unambiguous fs (concatUnambiguous_of_nsLexical fs hl) hl

/-! ## Order independence -/

theorem SameDecls.symm {fs fs' : List File} (h : SameDecls fs fs') : SameDecls fs' fs :=
  ⟨h.1.symm, fun m => (h.2 m).symm⟩

theorem SameDecls.noClash {fs fs' : List File} (h : SameDecls fs fs') (hn : NoClash fs) : NoClash fs' := by
  obtain ⟨hp, hm⟩ := h
  obtain ⟨h1, h2, h3⟩ := hn
  refine ⟨(hp.pairwise_iff (fun {x y} h => by rw [clash_symm]; exact h)).mp h1, ?_, ?_⟩
  · exact fun a ha m hmm => h2 a (hp.mem_iff.mpr ha) m ((hm m).mpr hmm)
  · exact fun a ha => h3 a (hp.mem_iff.mpr ha)

theorem SameDecls.concatUnambiguous {fs fs' : List File} (h : SameDecls fs fs') (hu : ConcatUnambiguous fs) :
    ConcatUnambiguous fs' :=
  UA.mono (D' := decls fs) (N' := namespaces fs) hu (fun _ ha => h.1.mem_iff.mpr ha) (fun m hm => (h.2 m).mpr hm)

theorem SameDecls.nsLexical {fs fs' : List File} (h : SameDecls fs fs') (hl : NsLexical fs) : NsLexical fs' :=
  fun m hm => hl m ((h.2 m).mpr hm)

/-- **C01 (full strength).** Acceptance does not depend on the order of declarations or files, nor on how a
namespace is split into files. -/
theorem register_perm (fs fs' : List File) (h : SameDecls fs fs') (hl : NsLexical fs) :
    isOk (register fs) = isOk (register fs') := by
  rw [Bool.eq_iff_iff, register_ok_iff_noclash fs hl, register_ok_iff_noclash fs' (h.nsLexical hl)]
  exact ⟨h.noClash, h.symm.noClash⟩

/-! ## Regression: the inputs on which the separator-less key failed -/

/-- type `Ab` in namespace `c` and type `A` in namespace `bc` (both keys used to be `abc`): accepted -/
theorem concat_legal_accepted :
    NoClash [⟨"c".toList, [⟨.type, "Ab".toList⟩]⟩, ⟨"bc".toList, [⟨.type, "A".toList⟩]⟩] ∧
    isOk (register [⟨"c".toList, [⟨.type, "Ab".toList⟩]⟩, ⟨"bc".toList, [⟨.type, "A".toList⟩]⟩]) = true := by decide

/-- type `abc` of namespace `abcabcabc` against the namespace line of `abcabc` (used to be accepted in one file
order and refused in the other): accepted in both -/
theorem concat_order_independent :
    isOk (register [⟨"abcabcabc".toList, [⟨.type, "abc".toList⟩]⟩, ⟨"abcabc".toList, [⟨.type, "X".toList⟩]⟩]) = true ∧
    isOk (register [⟨"abcabc".toList, [⟨.type, "X".toList⟩]⟩, ⟨"abcabcabc".toList, [⟨.type, "abc".toList⟩]⟩]) = true := by
  decide

/-- a namespace name with `/` (impossible for the lexer) breaks the equivalence: the namespace line is keyed by
`canonName ns` (which strips the `/`), the documented rule compares with `canonNs ns` -/
theorem nsLexical_needed : ∃ fs, ConcatUnambiguous fs ∧ NoClash fs ∧ isOk (register fs) = false :=
  ⟨[⟨"a/".toList, [⟨.route 1, "a/".toList⟩]⟩], by decide⟩

/-! ## Built-in type names -/

theorem builtinTypes_eq : builtinTypes = Tables.feBuiltinTypes.map String.toList := rfl

/-- the characters `canonName` (first list) and `canonNs` (second list) remove -/
theorem canonical_strip_table : Tables.feCanonicalStrip = (["/", "_"], ["_"]) := rfl

theorem addItems_builtin {st ns x} (xs : List Item) (hx : x ∈ xs) (hb : builtinTypes.contains x.name = true) :
    isOk (addItems st ns xs) = false := by
  induction xs generalizing st with
  | nil => cases hx
  | cons y ys ih =>
    unfold addItems
    cases h1 : addItem st ns y with
    | error e => rfl
    | ok st1 =>
      simp only
      rcases List.mem_cons.mp hx with rfl | hx'
      · rw [addItem_eq, if_pos hb] at h1; cases h1
      · exact ih hx'

/-- a definition named like a built-in type is never accepted (whatever else the files contain) -/
theorem builtin_type_not_redefinable (fs : List File) (f : File) (hf : f ∈ fs) (x : Item) (hx : x ∈ f.items)
    (hb : x.name ∈ builtinTypes) : isOk (register fs) = false := by
  have hb' : builtinTypes.contains x.name = true := by simpa using hb
  unfold register
  generalize ({} : State) = st
  induction fs generalizing st with
  | nil => cases hf
  | cons g gs ih =>
    unfold registerFrom
    cases h1 : addFile st g with
    | error e => rfl
    | ok st1 =>
      simp only
      rcases List.mem_cons.mp hf with rfl | hf'
      · have := addItems_builtin (st := { st with canon := (key f.ns f.ns, .ns) :: st.canon }) (ns := f.ns)
          f.items hx hb'
        unfold addFile at h1
        rw [h1] at this; cases this
      · exact ih hf' st1

/-! ## Crash layer (C03) -/

/-- in a state described by `(D, N)` no environment holds an `ApiRoutesByVersion` without a route -/
theorem InvE.routes_nonempty {en D p} (h : InvE en D) : en.lookup p ≠ some (.routes []) := by
  intro hl
  have hne : ¬ ∀ b ∈ D, exactOf b ≠ p := fun hall => by rw [(h.e1 p).mpr hall] at hl; cases hl
  obtain ⟨b, hbD, hex⟩ : ∃ b ∈ D, exactOf b = p := by
    apply Classical.byContradiction
    intro hno
    exact hne fun b hb he => hno ⟨b, hb, he⟩
  obtain ⟨v, hv⟩ := isRoute_iff.mp ((h.e2 p [] hl).1 b hbD hex)
  have := ((h.e2 p [] hl).2 v).mpr ⟨b, hbD, hex, hv⟩
  cases this

theorem envCheck_crash {k old name e} (h : envCheck k old name = .error (.crash e)) : old = some (.routes []) := by
  unfold envCheck at h
  split at h
  · split at h <;> cases h
  · cases h
  · rename_i _ ent _
    rcases ent with _ | (_ | ⟨v, vs⟩) <;> simp [symbolAlreadyDefined] at h ⊢
  · split at h <;> cases h

theorem addItem_no_crash {st D N} (hI : Inv st D N) (ns : Name) (x : Item) (e : PyExc) :
    addItem st ns x ≠ .error (.crash e) := by
  intro h
  rw [addItem_eq] at h
  split at h
  · cases h
  · split at h
    · rename_i e' hE
      cases h
      exact hI.2.routes_nonempty (envCheck_crash hE)
    · have := (checkCanon_error h).1
      cases this

theorem addItems_no_crash {st D N ns} (xs : List Item) (hI : Inv st D N) (hns : ns ∈ N) (e : PyExc) :
    addItems st ns xs ≠ .error (.crash e) := by
  induction xs generalizing st D with
  | nil => simp [addItems]
  | cons x xs ih =>
    unfold addItems
    cases h1 : addItem st ns x with
    | error e' =>
      simp only
      intro h; cases h
      exact addItem_no_crash hI ns x e h1
    | ok st1 => exact ih (addItem_inv hI hns h1)

theorem registerFrom_no_crash {st D N} (fs : List File) (hI : Inv st D N) (e : PyExc) :
    registerFrom st fs ≠ .error (.crash e) := by
  induction fs generalizing st D N with
  | nil => simp [registerFrom]
  | cons f fs ih =>
    have hI1 : Inv { st with canon := (key f.ns f.ns, .ns) :: st.canon } D (N ++ [f.ns]) := ⟨hI.1.pushNs f.ns, hI.2⟩
    have hmem : f.ns ∈ N ++ [f.ns] := by simp
    unfold registerFrom addFile
    cases h1 : addItems { st with canon := (key f.ns f.ns, .ns) :: st.canon } f.ns f.items with
    | error e' =>
      simp only
      intro h; cases h
      exact addItems_no_crash f.items hI1 hmem e h1
    | ok st1 => exact ih (addItems_inv f.items hI1 hmem h1)

/-- **C03 (full strength).** For every list of files the registration pass ends normally or with a specification
error, never with a Python exception of another class: the one partial operation left in the pass
(`min(existing.at_version)` in `_raise_symbol_already_defined`) is never applied to an empty dictionary, because an
`ApiRoutesByVersion` enters an environment together with its first route. -/
theorem register_no_crash (fs : List File) : ∀ e, register fs ≠ .error (.crash e) :=
  fun e => registerFrom_no_crash (st := {}) (D := []) (N := []) fs Inv.init e

/-- the statement is about a model that can fail: from a state that holds an empty `ApiRoutesByVersion` (which the
pass never builds) a same-named definition ends in `ValueError` -/
example : addItem { env := [(("a".toList, "r".toList), .routes [])] } "a".toList ⟨.type, "r".toList⟩
    = .error (.crash .valueError) := rfl

/-! ### Regression: the repaired crash sites are spec errors now -/

/-- a canonical clash that involves an annotation (was `AssertionError`) -/
theorem annotation_clash_refused :
    register [⟨"a".toList, [⟨.annotation, "Foo".toList⟩, ⟨.type, "foo".toList⟩]⟩]
      = .error (.specerr .nameConflict) := rfl

/-- `struct String`, `alias List`, `route Void`, `annotation_type Int32` (were `AttributeError`s) -/
theorem builtin_redefined_refused :
    register [⟨"a".toList, [⟨.type, "String".toList⟩]⟩] = .error (.specerr .symbolDefined) ∧
    register [⟨"a".toList, [⟨.alias, "List".toList⟩]⟩] = .error (.specerr .symbolDefined) ∧
    register [⟨"a".toList, [⟨.route 1, "Void".toList⟩]⟩] = .error (.specerr .symbolDefined) ∧
    register [⟨"a".toList, [⟨.annotationType, "Int32".toList⟩]⟩] = .error (.specerr .symbolDefined) :=
  ⟨rfl, rfl, rfl, rfl⟩

/-- `route r` then `struct r` (was `AttributeError`) -/
theorem route_then_type_refused :
    register [⟨"a".toList, [⟨.route 1, "r".toList⟩, ⟨.type, "r".toList⟩]⟩] = .error (.specerr .symbolDefined) := rfl

/-- `annotation_type T` then `struct T` (was `AttributeError`) -/
theorem annotation_type_then_same_name_refused :
    register [⟨"a".toList, [⟨.annotationType, "T".toList⟩, ⟨.type, "T".toList⟩]⟩]
      = .error (.specerr .symbolDefined) := rfl

/-! ## Non-vacuity -/

/-- two namespaces, routes sharing a canonical name (`get_a` / `getA`, and `get_a` at two versions), a type, an
alias and an annotation type -/
def exampleFiles : List File :=
  [⟨"files".toList, [⟨.route 1, "get_a".toList⟩, ⟨.route 2, "get_a".toList⟩, ⟨.route 1, "getA".toList⟩,
      ⟨.type, "Meta".toList⟩]⟩,
   ⟨"users".toList, [⟨.type, "Meta".toList⟩, ⟨.alias, "Id".toList⟩, ⟨.annotationType, "Tag".toList⟩]⟩,
   ⟨"files".toList, [⟨.type, "Entry".toList⟩]⟩]

example : ConcatUnambiguous exampleFiles := by decide
example : NsLexical exampleFiles := by decide
example : NoClash exampleFiles := by decide
example : isOk (register exampleFiles) = true := by decide
/-- a refused input within the hypotheses of the partial theorems -/
example : ConcatUnambiguous [⟨"a".toList, [⟨.type, "Foo".toList⟩, ⟨.route 1, "foo".toList⟩]⟩] ∧
    ¬ NoClash [⟨"a".toList, [⟨.type, "Foo".toList⟩, ⟨.route 1, "foo".toList⟩]⟩] := by decide

end StoneVerif.FeNames
