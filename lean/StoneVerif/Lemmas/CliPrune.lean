import StoneVerif.Model.Cli
/-! Lemmas about the `-w` / `-b` / `-f` / `-a` pruning of `cli.main` and `add_route` (C19). -/
namespace StoneVerif.Cli

/-! ### dictionaries -/

theorem lookup_map_snd {κ α β} [BEq κ] (g : α → β) (k : κ) (l : List (κ × α)) :
    (l.map fun kv => (kv.1, g kv.2)).lookup k = (l.lookup k).map g := by
  induction l with
  | nil => rfl
  | cons kv rest ih =>
    obtain ⟨k', v⟩ := kv
    simp only [List.map_cons, List.lookup_cons]
    cases k == k' <;> simp [ih]

theorem dictSet_map_snd {κ α β} [DecidableEq κ] (g : α → β) (k : κ) (v : α) (l : List (κ × α)) :
    dictSet k (g v) (l.map fun kv => (kv.1, g kv.2)) = (dictSet k v l).map fun kv => (kv.1, g kv.2) := by
  induction l with
  | nil => rfl
  | cons kv rest ih =>
    obtain ⟨k', v'⟩ := kv
    simp only [List.map_cons, dictSet]
    by_cases h : k' = k <;> simp [h, ih]

/-! ### add_route -/

theorem foldl_addRoute_name (rs : List Route) (ns : Namespace) :
    (rs.foldl Namespace.addRoute ns).name = ns.name ∧
    (rs.foldl Namespace.addRoute ns).dataTypes = ns.dataTypes ∧
    (rs.foldl Namespace.addRoute ns).routes = ns.routes ++ rs := by
  induction rs generalizing ns with
  | nil => simp
  | cons r rs ih =>
    obtain ⟨h1, h2, h3⟩ := ih (ns.addRoute r)
    rw [List.foldl_cons]
    refine ⟨h1, h2, ?_⟩
    rw [h3]
    simp [Namespace.addRoute]

/-- the tables `add_route` builds depend only on the tables it starts from -/
theorem foldl_addRoute_tables (rs : List Route) (ns ns' : Namespace)
    (h1 : ns.routeByName = ns'.routeByName) (h2 : ns.routesByName = ns'.routesByName) :
    (rs.foldl Namespace.addRoute ns).routeByName = (rs.foldl Namespace.addRoute ns').routeByName ∧
    (rs.foldl Namespace.addRoute ns).routesByName = (rs.foldl Namespace.addRoute ns').routesByName := by
  induction rs generalizing ns ns' with
  | nil => exact ⟨h1, h2⟩
  | cons r rs ih =>
    simp only [List.foldl_cons]
    apply ih
    · simp [Namespace.addRoute, h1]
    · simp [Namespace.addRoute, h2]

theorem foldl_addRoute_clear (rs : List Route) (ns : Namespace) :
    rs.foldl Namespace.addRoute ns.clearRoutes =
      { name := ns.name, routes := rs, routeByName := (index rs).1, routesByName := (index rs).2,
        dataTypes := ns.dataTypes } := by
  obtain ⟨h1, h2, h3⟩ := foldl_addRoute_name rs ns.clearRoutes
  obtain ⟨h4, h5⟩ := foldl_addRoute_tables rs ns.clearRoutes ⟨[], [], [], [], []⟩ rfl rfl
  cases h : rs.foldl Namespace.addRoute ns.clearRoutes with
  | mk n r t1 t2 d =>
    rw [h] at h1 h2 h3 h4 h5
    simp only [Namespace.clearRoutes, List.nil_append] at h1 h2 h3
    simp only at h4 h5
    simp [index, h1, h2, h3, h4, h5]

/-- apply `g` to every route object (through the list and through both tables) -/
def Namespace.mapRoutes (g : Route → Route) (ns : Namespace) : Namespace :=
  { ns with
    routes := ns.routes.map g
    routeByName := ns.routeByName.map fun kv => (kv.1, g kv.2)
    routesByName := ns.routesByName.map fun kv => (kv.1, kv.2.map fun vr => (vr.1, g vr.2)) }

theorem restrict_eq_mapRoutes (keep : List Name) (ns : Namespace) :
    ns.restrict keep = ns.mapRoutes (Route.restrict keep) := rfl

theorem mapRoutes_addRoute (g : Route → Route) (hn : ∀ r, (g r).name = r.name)
    (hv : ∀ r, (g r).version = r.version) (ns : Namespace) (r : Route) :
    (ns.addRoute r).mapRoutes g = (ns.mapRoutes g).addRoute (g r) := by
  obtain ⟨n, rs, t1, t2, d⟩ := ns
  simp only [Namespace.addRoute, Namespace.mapRoutes, hn, hv, Namespace.mk.injEq, true_and,
    List.map_append, List.map_cons, List.map_nil, and_true]
  refine ⟨?_, ?_⟩
  · by_cases h : r.version = 1
    · simp only [h, if_true]
      exact (dictSet_map_snd g r.name r t1).symm
    · simp [h]
  · rw [lookup_map_snd (fun (vs : List (Int × Route)) => vs.map fun vr => (vr.1, g vr.2)) r.name t2]
    rw [← dictSet_map_snd (fun (vs : List (Int × Route)) => vs.map fun vr => (vr.1, g vr.2))]
    congr 1
    rw [← dictSet_map_snd g]
    cases List.lookup r.name t2 <;> simp

theorem restrict_addRoute (keep : List Name) (ns : Namespace) (r : Route) :
    (ns.addRoute r).restrict keep = (ns.restrict keep).addRoute (r.restrict keep) := by
  simp only [restrict_eq_mapRoutes]
  exact mapRoutes_addRoute (Route.restrict keep) (fun _ => rfl) (fun _ => rfl) ns r

theorem restrict_foldl_addRoute (keep : List Name) (rs : List Route) (ns : Namespace) :
    (rs.foldl Namespace.addRoute ns).restrict keep =
      (rs.map (Route.restrict keep)).foldl Namespace.addRoute (ns.restrict keep) := by
  induction rs generalizing ns with
  | nil => rfl
  | cons r rs ih => simp [List.foldl_cons, ih, restrict_addRoute]

/-- restricting the attributes of an indexed namespace gives the index of the restricted list -/
theorem restrict_indexed (keep : List Name) (n : Name) (d : List Name) (rs : List Route) :
    Namespace.restrict keep { name := n, routes := rs, routeByName := (index rs).1, routesByName := (index rs).2,
                              dataTypes := d } =
      { name := n, routes := rs.map (Route.restrict keep), routeByName := (index (rs.map (Route.restrict keep))).1,
        routesByName := (index (rs.map (Route.restrict keep))).2, dataTypes := d } := by
  have h := foldl_addRoute_clear rs ⟨n, [], [], [], d⟩
  have h' := foldl_addRoute_clear (rs.map (Route.restrict keep)) ⟨n, [], [], [], d⟩
  simp only at h h'
  rw [← h, restrict_foldl_addRoute, ← h']
  rfl

/-! ### what the tables of `index` contain -/

theorem lookup_cons_eq {κ ν} [DecidableEq κ] [BEq κ] [LawfulBEq κ] (k' k0 : κ) (v0 : ν) (l : List (κ × ν)) :
    List.lookup k' ((k0, v0) :: l) = if k' = k0 then some v0 else List.lookup k' l := by
  by_cases h : k' = k0
  · subst h; simp [List.lookup]
  · have hb : (k' == k0) = false := by simpa using h
    simp [List.lookup, hb, h]

theorem lookup_dictSet {κ ν} [DecidableEq κ] [BEq κ] [LawfulBEq κ] (k k' : κ) (v : ν) (l : List (κ × ν)) :
    List.lookup k' (dictSet k v l) = if k' = k then some v else List.lookup k' l := by
  induction l with
  | nil => simp [dictSet, lookup_cons_eq]
  | cons kv rest ih =>
    obtain ⟨k0, v0⟩ := kv
    by_cases h0 : k0 = k
    · subst h0
      simp only [dictSet, if_true, lookup_cons_eq]
      by_cases h : k' = k0 <;> simp [h]
    · simp only [dictSet, h0, if_false, lookup_cons_eq, ih]
      by_cases h1 : k' = k0
      · subst h1
        have : ¬ k' = k := h0
        simp [this]
      · simp [h1]

def look1 (ns : Namespace) (n : Name) : Option Route := ns.routeByName.lookup n

def look2 (ns : Namespace) (n : Name) (v : Int) : Option Route :=
  (ns.routesByName.lookup n).bind fun d => d.lookup v

theorem look1_addRoute (ns : Namespace) (r : Route) (n : Name) :
    look1 (ns.addRoute r) n = if (decide (r.name = n) && decide (r.version = 1)) = true then some r else look1 ns n := by
  simp only [look1, Namespace.addRoute]
  by_cases hv : r.version = 1
  · simp only [hv, if_true, lookup_dictSet]
    by_cases hn : n = r.name
    · subst hn; simp
    · have : ¬ r.name = n := fun e => hn e.symm
      simp [hn, this]
  · simp [hv]

theorem look2_addRoute (ns : Namespace) (r : Route) (n : Name) (v : Int) :
    look2 (ns.addRoute r) n v =
      if (decide (r.name = n) && decide (r.version = v)) = true then some r else look2 ns n v := by
  simp only [look2, Namespace.addRoute, lookup_dictSet]
  by_cases hn : n = r.name
  · subst hn
    simp only [if_true, Option.bind_some, lookup_dictSet, decide_true, Bool.true_and, decide_eq_true_eq]
    by_cases hv : v = r.version
    · subst hv; simp
    · have : ¬ r.version = v := fun e => hv e.symm
      simp only [hv, this, if_false]
      cases List.lookup r.name ns.routesByName <;> simp
  · have : ¬ r.name = n := fun e => hn e.symm
    simp [hn, this]

theorem foldl_look1 (rs : List Route) (ns : Namespace) (n : Name) :
    look1 (rs.foldl Namespace.addRoute ns) n =
      rs.foldl (fun acc r => if (decide (r.name = n) && decide (r.version = 1)) = true then some r else acc) (look1 ns n) := by
  induction rs generalizing ns with
  | nil => rfl
  | cons r rs ih => simp only [List.foldl_cons, ih, look1_addRoute]

theorem foldl_look2 (rs : List Route) (ns : Namespace) (n : Name) (v : Int) :
    look2 (rs.foldl Namespace.addRoute ns) n v =
      rs.foldl (fun acc r => if (decide (r.name = n) && decide (r.version = v)) = true then some r else acc) (look2 ns n v) := by
  induction rs generalizing ns with
  | nil => rfl
  | cons r rs ih => simp only [List.foldl_cons, ih, look2_addRoute]

/-- `route_by_name[n]` is the last version-1 route named `n` of the list, `routes_by_name[n].at_version[v]`
the last route named `n` with version `v` (the only one, for the frontend's lists) -/
theorem index_lookup (rs : List Route) (n : Name) (v : Int) :
    (index rs).1.lookup n = lastMatch (fun r => decide (r.name = n) && decide (r.version = 1)) rs ∧
    ((index rs).2.lookup n).bind (fun d => d.lookup v) =
      lastMatch (fun r => decide (r.name = n) && decide (r.version = v)) rs := by
  refine ⟨?_, ?_⟩
  · have := foldl_look1 rs ⟨[], [], [], [], []⟩ n
    simpa [look1, index, lastMatch] using this
  · have := foldl_look2 rs ⟨[], [], [], [], []⟩ n v
    simpa [look2, index, lastMatch] using this

/-! ### the stages of `prune` -/

theorem clearRoutes_eq_indexed (ns : Namespace) :
    ns.clearRoutes = { name := ns.name, routes := [], routeByName := (index []).1, routesByName := (index []).2,
                       dataTypes := ns.dataTypes } := rfl

theorem consistent_eq_indexed {ns : Namespace} (h : ns.Consistent) :
    ns = { name := ns.name, routes := ns.routes, routeByName := (index ns.routes).1,
           routesByName := (index ns.routes).2, dataTypes := ns.dataTypes } := by
  obtain ⟨n, rs, t1, t2, d⟩ := ns
  simp only [Namespace.Consistent] at h
  simp [← h]

theorem filterRoutes_eq (e : Expr) (ns : Namespace) :
    ns.filterRoutes e =
      { name := ns.name, routes := ns.routes.filter (fun r => e.eval r.attrs),
        routeByName := (index (ns.routes.filter (fun r => e.eval r.attrs))).1,
        routesByName := (index (ns.routes.filter (fun r => e.eval r.attrs))).2, dataTypes := ns.dataTypes } := by
  simp only [Namespace.filterRoutes]
  exact foldl_addRoute_clear _ ns

/-- the `-w` block then the `-b` block on one namespace -/
def wbStage (o : Opts) (ns : Namespace) : Namespace :=
  if (if o.whitelist ≠ [] ∧ ns.name ∉ o.whitelist then ns.clearRoutes else ns).name ∈ o.blacklist then
    (if o.whitelist ≠ [] ∧ ns.name ∉ o.whitelist then ns.clearRoutes else ns).clearRoutes
  else (if o.whitelist ≠ [] ∧ ns.name ∉ o.whitelist then ns.clearRoutes else ns)

/-- what the four blocks of `main` do to one namespace -/
def nsPipeline (o : Opts) (f : Option Expr) (keep : List Name) (ns : Namespace) : Namespace :=
  Namespace.restrict keep (match f with
    | none => wbStage o ns
    | some e => (wbStage o ns).filterRoutes e)

/-- the `-w` and `-b` blocks together: clear exactly the hidden namespaces -/
theorem wb_eq (o : Opts) (ns : Namespace) :
    wbStage o ns = if hidden o ns.name = true then ns.clearRoutes else ns := by
  unfold wbStage
  have hname : (if o.whitelist ≠ [] ∧ ns.name ∉ o.whitelist then ns.clearRoutes else ns).name = ns.name := by
    split <;> rfl
  simp only [hname]
  by_cases hw : o.whitelist ≠ [] ∧ ns.name ∉ o.whitelist
  · have hh : hidden o ns.name = true := by simp [hidden, hw.1, hw.2]
    rw [if_pos hw, if_pos hh]
    split <;> rfl
  · rw [if_neg hw]
    by_cases hb : ns.name ∈ o.blacklist
    · have hh : hidden o ns.name = true := by simp [hidden, hb]
      rw [if_pos hb, if_pos hh]
    · have hh : ¬ (hidden o ns.name = true) := by
        simp only [hidden, Bool.or_eq_true, Bool.and_eq_true, decide_eq_true_eq, Bool.not_eq_true', decide_eq_false_iff_not]
        rintro (⟨h1, h2⟩ | h3)
        · exact hw ⟨h1, h2⟩
        · exact hb h3
      rw [if_neg hb, if_neg hh]

theorem filter_pass_none (rs : List Route) : rs.filter (pass none) = rs := by
  induction rs with
  | nil => rfl
  | cons r rs ih => simp [List.filter_cons, pass, ih]

theorem nsPipeline_eq (o : Opts) (f : Option Expr) (keep : List Name) {ns : Namespace} (h : ns.Consistent) :
    nsPipeline o f keep ns = ns.pruned o f keep := by
  have hns := consistent_eq_indexed h
  unfold nsPipeline
  rw [wb_eq]
  unfold Namespace.pruned
  by_cases hh : hidden o ns.name = true
  · rw [if_pos hh]
    simp only [hh, if_true]
    cases f with
    | none =>
      show Namespace.restrict keep ns.clearRoutes = _
      rw [clearRoutes_eq_indexed, restrict_indexed]; rfl
    | some e =>
      show Namespace.restrict keep (ns.clearRoutes.filterRoutes e) = _
      rw [filterRoutes_eq]
      simp only [Namespace.clearRoutes, List.filter_nil]
      rw [restrict_indexed]; rfl
  · rw [if_neg hh]
    have hh' : hidden o ns.name = false := by simpa using hh
    simp only [hh', Bool.false_eq_true, if_false]
    cases f with
    | none =>
      show Namespace.restrict keep ns = _
      rw [filter_pass_none]
      conv => lhs; rw [hns]
      rw [restrict_indexed]
    | some e =>
      show Namespace.restrict keep (ns.filterRoutes e) = _
      rw [filterRoutes_eq, restrict_indexed]
      rfl

theorem hasNamespace_map (api : Api) (g : Namespace → Namespace) (hg : ∀ ns, (g ns).name = ns.name) (n : Name) :
    Api.hasNamespace { api with namespaces := api.namespaces.map g } n = api.hasNamespace n := by
  simp only [Api.hasNamespace, List.any_map]
  congr 1
  funext ns
  simp [hg]

theorem stageWhitelist_ok {w : List Name} {api api1 : Api} (h : stageWhitelist w api = .ok api1) :
    (∀ n ∈ w, api.hasNamespace n = true) ∧
    api1 = { api with namespaces := api.namespaces.map fun ns =>
      if w ≠ [] ∧ ns.name ∉ w then ns.clearRoutes else ns } := by
  unfold stageWhitelist at h
  by_cases hw : w = []
  · subst hw
    simp only [if_true, Except.ok.injEq] at h
    subst h
    simp
  · simp only [hw, if_false] at h
    cases hf : w.find? (fun n => !api.hasNamespace n) with
    | some n => simp [hf] at h
    | none =>
      simp only [hf, Except.ok.injEq] at h
      subst h
      refine ⟨?_, by simp [hw]⟩
      intro n hn
      have := List.find?_eq_none.mp hf n hn
      simpa using this

theorem stageBlacklist_ok {b : List Name} {api api2 : Api} (h : stageBlacklist b api = .ok api2) :
    (∀ n ∈ b, api.hasNamespace n = true) ∧
    api2 = { api with namespaces := api.namespaces.map fun ns =>
      if ns.name ∈ b then ns.clearRoutes else ns } := by
  unfold stageBlacklist at h
  cases hf : b.find? (fun n => !api.hasNamespace n) with
  | some n => simp [hf] at h
  | none =>
    simp only [hf, Except.ok.injEq] at h
    subst h
    refine ⟨?_, rfl⟩
    intro n hn
    have := List.find?_eq_none.mp hf n hn
    simpa using this

theorem eraseDups_eq_nil {α} [BEq α] (l : List α) : l.eraseDups = [] ↔ l = [] := by
  cases l with
  | nil => simp
  | cons a l => simp [List.eraseDups_cons]

theorem stageAttrs_ok {a : List Name} {api api' : Api} (h : stageAttrs a api = .ok api') :
    (∀ n ∈ wantedAttrs a api.allFields, n ∈ api.allFields) ∧
    api' = { namespaces := api.namespaces.map (Namespace.restrict (wantedAttrs a api.allFields))
             schema := api.schema.filter (fun n => n ∈ wantedAttrs a api.allFields)
             schemaByName := api.schemaByName.filter (fun n => n ∈ wantedAttrs a api.allFields)
             schemaInherited := api.schemaInherited } := by
  unfold stageAttrs at h
  simp only at h
  split at h
  · simp at h
  · rename_i hl
    simp only [Except.ok.injEq] at h
    refine ⟨?_, h.symm⟩
    have hl' := (eraseDups_eq_nil _).mp (by simpa using hl)
    intro n hn
    have := List.filter_eq_nil_iff.mp hl' n hn
    simpa using this

/-- A successful run of the pruning: every name was known, and the result is the per-namespace
pipeline applied to the input. -/
theorem prune_ok {o : Opts} {api api' : Api} (h : prune o api = .ok api') :
    ∃ f, stageParse o = .ok f ∧
      (∀ n ∈ o.whitelist, api.hasNamespace n = true) ∧
      (∀ n ∈ o.blacklist, api.hasNamespace n = true) ∧
      (∀ n ∈ wantedAttrs o.attributes api.allFields, n ∈ api.allFields) ∧
      api' = { namespaces := api.namespaces.map (nsPipeline o f (wantedAttrs o.attributes api.allFields))
               schema := api.schema.filter (fun n => n ∈ wantedAttrs o.attributes api.allFields)
               schemaByName := api.schemaByName.filter (fun n => n ∈ wantedAttrs o.attributes api.allFields)
               schemaInherited := api.schemaInherited } := by
  unfold prune at h
  cases hp : stageParse o with
  | error e => simp [hp, bind, Except.bind] at h
  | ok f =>
    cases hw : stageWhitelist o.whitelist api with
    | error e => simp [hp, hw, bind, Except.bind] at h
    | ok api1 =>
      cases hb : stageBlacklist o.blacklist api1 with
      | error e => simp [hp, hw, hb, bind, Except.bind] at h
      | ok api2 =>
        simp only [hp, hw, hb, bind, Except.bind] at h
        obtain ⟨hw1, hw2⟩ := stageWhitelist_ok hw
        obtain ⟨hb1, hb2⟩ := stageBlacklist_ok hb
        obtain ⟨ha1, ha2⟩ := stageAttrs_ok h
        have hschema : (stageFilter f api2).schema = api.schema := by
          cases f <;> simp [stageFilter, hb2, hw2]
        have hschema2 : (stageFilter f api2).schemaByName = api.schemaByName := by
          cases f <;> simp [stageFilter, hb2, hw2]
        have hschema3 : (stageFilter f api2).schemaInherited = api.schemaInherited := by
          cases f <;> simp [stageFilter, hb2, hw2]
        have hall : (stageFilter f api2).allFields = api.allFields := by
          simp [Api.allFields, hschema, hschema3]
        refine ⟨f, rfl, hw1, ?_, ?_, ?_⟩
        · intro n hn
          have := hb1 n hn
          rw [hw2] at this
          rw [hasNamespace_map api _ (fun ns => by split <;> rfl)] at this
          exact this
        · simpa [hall] using ha1
        · rw [ha2, hall, hschema, hschema2, hschema3]
          congr 1
          cases f with
          | none =>
            simp only [stageFilter, hb2, hw2, List.map_map]
            apply List.map_congr_left
            intro ns _
            rfl
          | some e =>
            simp only [stageFilter, hb2, hw2, List.map_map]
            apply List.map_congr_left
            intro ns _
            rfl

/-- The pruning the code performs is the pruning the property describes. -/
theorem prune_eq_spec {o : Opts} {api api' : Api} (hc : api.Consistent) (h : prune o api = .ok api') :
    ∃ f, stageParse o = .ok f ∧ api' = pruneSpec o f api := by
  obtain ⟨f, hf, _, _, _, rfl⟩ := prune_ok h
  refine ⟨f, hf, ?_⟩
  simp only [pruneSpec]
  congr 1
  apply List.map_congr_left
  intro ns hns
  exact nsPipeline_eq o f _ (hc ns hns)

/-! ### errors -/

theorem prune_error_of_whitelist {o : Opts} {api : Api} (h : ∃ n ∈ o.whitelist, api.hasNamespace n = false) :
    ∃ err, prune o api = .error err := by
  cases hr : prune o api with
  | error e => exact ⟨e, rfl⟩
  | ok api' =>
    obtain ⟨f, _, hw, _⟩ := prune_ok hr
    obtain ⟨n, hn, hh⟩ := h
    simp [hw n hn] at hh

theorem prune_error_of_blacklist {o : Opts} {api : Api} (h : ∃ n ∈ o.blacklist, api.hasNamespace n = false) :
    ∃ err, prune o api = .error err := by
  cases hr : prune o api with
  | error e => exact ⟨e, rfl⟩
  | ok api' =>
    obtain ⟨f, _, _, hb, _⟩ := prune_ok hr
    obtain ⟨n, hn, hh⟩ := h
    simp [hb n hn] at hh

theorem prune_error_of_attribute {o : Opts} {api : Api}
    (h : ∃ n ∈ o.attributes, n ≠ allAttributes ∧ n ∉ api.allFields) : ∃ err, prune o api = .error err := by
  cases hr : prune o api with
  | error e => exact ⟨e, rfl⟩
  | ok api' =>
    obtain ⟨f, _, _, _, ha, _⟩ := prune_ok hr
    obtain ⟨n, hn, hna, hh⟩ := h
    have hne : o.attributes ≠ [] := by intro h0; simp [h0] at hn
    have : n ∈ wantedAttrs o.attributes api.allFields := by
      unfold wantedAttrs
      by_cases hall : allAttributes ∈ o.attributes
      · simp [hne, hall, hn, hna]
      · simp [hne, hall, hn]
    exact absurd (ha n this) hh

theorem prune_error_of_filter {o : Opts} {api : Api} {fe} (h : stageParse o = .error fe) :
    ∃ err, prune o api = .error err := by
  cases hr : prune o api with
  | error e => exact ⟨e, rfl⟩
  | ok api' =>
    obtain ⟨f, hf, _⟩ := prune_ok hr
    simp [h] at hf

end StoneVerif.Cli
