import StoneVerif.Lemmas.GraphFilter
/-! Invariants of the dependency walk `dfs`. -/
namespace StoneVerif.Graph

/-- Induction principle: a predicate on (pending calls, state) that survives a call on a seen
argument and a call on an unseen one holds when the walk ends. -/
theorem dfs_induction (g : Graph) (P : List Item → St → Prop)
    (hskip : ∀ it rest st, st.seen.contains it.key = true → P (it :: rest) st → P rest st)
    (hvisit : ∀ it rest st kids, st.seen.contains it.key = false → expand g it = .ok kids →
        P (it :: rest) st → P (kids ++ rest) (st.visit g it)) :
    ∀ fuel stack st st', dfs g fuel stack st = .ok st' → P stack st → P [] st' := by
  intro fuel
  induction fuel with
  | zero =>
    intro stack st st' h hp
    cases stack with
    | nil =>
      simp only [dfs] at h
      cases h; exact hp
    | cons it rest => simp [dfs] at h
  | succ fuel ih =>
    intro stack st st' h hp
    cases stack with
    | nil =>
      simp only [dfs] at h
      cases h; exact hp
    | cons it rest =>
      simp only [dfs] at h
      split at h
      · rename_i hseen
        exact ih rest st st' h (hskip it rest st hseen hp)
      · rename_i hseen
        split at h
        · simp at h
        · rename_i kids he
          exact ih _ _ st' h (hvisit it rest st kids (by simpa using hseen) he hp)

/-! ### soundness: the walk stays inside every closed set that contains its starting points -/

theorem dfs_sound {g : Graph} (hwf : g.refsOk = true) (hda : docsAgree g = true) {T : Id → Prop}
    (hT : ∀ a b, T a → Edge g a b → T b) {fuel : Nat} {stack : List Item} {st st' : St}
    (h : dfs g fuel stack st = .ok st')
    (hstack : ∀ it ∈ stack, ItemOk g T it) (htypes : ∀ t ∈ st.types, T t)
    (hroutes : ∀ r ∈ st.routes, T r) :
    (∀ t ∈ st'.types, T t) ∧ (∀ r ∈ st'.routes, T r) := by
  have := dfs_induction g
    (fun stack st => (∀ it ∈ stack, ItemOk g T it) ∧ (∀ t ∈ st.types, T t) ∧ (∀ r ∈ st.routes, T r))
    (by
      intro it rest st _ hp
      exact ⟨fun k hk => hp.1 k (List.mem_cons_of_mem _ hk), hp.2⟩)
    (by
      intro it rest st kids _ he hp
      have hk := expand_sound hwf hda hT (hp.1 it (List.mem_cons_self ..)) he
      refine ⟨?_, ?_, ?_⟩
      · intro k hk'
        rcases List.mem_append.1 hk' with h | h
        · exact hk k h
        · exact hp.1 k (List.mem_cons_of_mem _ h)
      · intro t ht
        simp only [St.visit] at ht
        cases it with
        | node id =>
          simp only at ht
          split at ht
          · rcases List.mem_append.1 ht with h | h
            · exact hp.2.1 t h
            · have : t = id := by simpa using h
              subst this
              exact hp.1 _ (List.mem_cons_self ..)
          · exact hp.2.1 t ht
        | field o f ctx => exact hp.2.1 t ht
      · intro r hr
        simp only [St.visit] at hr
        cases it with
        | node id =>
          simp only at hr
          split at hr
          · rcases List.mem_append.1 hr with h | h
            · exact hp.2.2 r h
            · have : r = id := by simpa using h
              subst this
              exact hp.1 _ (List.mem_cons_self ..)
          · exact hp.2.2 r hr
        | field o f ctx => exact hp.2.2 r hr)
    fuel stack st st' h ⟨hstack, htypes, hroutes⟩
  exact this.2

/-! ### completeness: everything a visited argument calls is visited -/

/-- the key is marked, or a call on it is pending -/
def Covered (seen : List Item) (stack : List Item) (k : Item) : Prop :=
  k ∈ seen ∨ k ∈ stack.map Item.key

theorem covered_skip {seen rest : List Item} {it k : Item} (hs : it.key ∈ seen)
    (h : Covered seen (it :: rest) k) : Covered seen rest k := by
  rcases h with h | h
  · exact Or.inl h
  · simp only [List.map_cons, List.mem_cons] at h
    rcases h with rfl | h
    · exact Or.inl hs
    · exact Or.inr h

theorem covered_visit {seen rest kids : List Item} {it k : Item}
    (h : Covered seen (it :: rest) k) : Covered (it.key :: seen) (kids ++ rest) k := by
  rcases h with h | h
  · exact Or.inl (List.mem_cons_of_mem _ h)
  · simp only [List.map_cons, List.mem_cons] at h
    rcases h with rfl | h
    · exact Or.inl (List.mem_cons_self ..)
    · exact Or.inr (by simp only [List.map_append, List.mem_append]; exact Or.inr h)

theorem covered_kid {seen rest kids : List Item} {c : Item} (h : c ∈ kids) :
    Covered seen (kids ++ rest) c.key := by
  refine Or.inr ?_
  simp only [List.map_append, List.mem_append]
  exact Or.inl (List.mem_map_of_mem h)

/-- the record kept for a marked key: the invocation that marked it and what it called -/
def Done (g : Graph) (seen stack : List Item) (k : Item) : Prop :=
  ∃ it kids, it.key = k ∧ ItemOk g (fun _ => True) it ∧ expand g it = .ok kids ∧
    (∀ c ∈ kids, Covered seen stack c.key)

structure Inv (g : Graph) (stack0 : List Item) (stack : List Item) (st : St) : Prop where
  wf : ∀ it ∈ stack, ItemOk g (fun _ => True) it
  done : ∀ k ∈ st.seen, Done g st.seen stack k
  types : ∀ i, i ∈ st.types ↔ (Item.node i ∈ st.seen ∧ g.isTypeId i = true)
  routes : ∀ i, i ∈ st.routes ↔ (Item.node i ∈ st.seen ∧ g.isRouteId i = true)
  init : ∀ it ∈ stack0, Covered st.seen stack it.key

/-- `out` (the data types, or the routes) collects exactly the marked nodes that satisfy `p` -/
theorem visit_collects {seen : List Item} {out : List Id} {p : Id → Bool} {it : Item}
    (h : ∀ i, i ∈ out ↔ (Item.node i ∈ seen ∧ p i = true)) :
    ∀ i, i ∈ (match it with
        | .node id => if p id then out ++ [id] else out
        | .field .. => out) ↔ (Item.node i ∈ it.key :: seen ∧ p i = true) := by
  intro i
  simp only [List.mem_cons]
  cases it with
  | node id =>
    simp only [Item.key]
    split
    · rename_i hty
      simp only [List.mem_append, List.mem_singleton, h i]
      constructor
      · rintro (h | rfl)
        · exact ⟨Or.inr h.1, h.2⟩
        · exact ⟨Or.inl rfl, hty⟩
      · rintro ⟨h | h, h2⟩
        · right; exact (Item.node.injEq _ _ ▸ h : i = id)
        · left; exact ⟨h, h2⟩
    · rename_i hty
      rw [h i]
      constructor
      · rintro ⟨h1, h2⟩
        exact ⟨Or.inr h1, h2⟩
      · rintro ⟨h | h, h2⟩
        · have : i = id := by simpa using h
          subst this
          exact absurd h2 hty
        · exact ⟨h, h2⟩
  | field o f ctx =>
    simp only [Item.key]
    rw [h i]
    constructor
    · rintro ⟨h1, h2⟩
      exact ⟨Or.inr h1, h2⟩
    · rintro ⟨h | h, h2⟩
      · cases h
      · exact ⟨h, h2⟩

theorem inv_final {g : Graph} (hwf : g.refsOk = true) (hda : docsAgree g = true) {stack0 : List Item}
    {fuel : Nat} {stack : List Item} {st st' : St} (h : dfs g fuel stack st = .ok st')
    (hinv : Inv g stack0 stack st) : Inv g stack0 [] st' := by
  refine dfs_induction g (Inv g stack0) ?_ ?_ fuel stack st st' h hinv
  · intro it rest st hseen hp
    have hs : it.key ∈ st.seen := by simpa using hseen
    refine ⟨fun k hk => hp.wf k (List.mem_cons_of_mem _ hk), ?_, hp.types, hp.routes, ?_⟩
    · intro k hk
      obtain ⟨it', kids, h1, h2, h3, h4⟩ := hp.done k hk
      exact ⟨it', kids, h1, h2, h3, fun c hc => covered_skip hs (h4 c hc)⟩
    · intro i hi
      exact covered_skip hs (hp.init i hi)
  · intro it rest st kids hseen he hp
    have hitok := hp.wf it (List.mem_cons_self ..)
    have hkids := expand_sound hwf hda (T := fun _ => True) (fun _ _ _ _ => trivial) hitok he
    refine ⟨?_, ?_, ?_, ?_, ?_⟩
    · intro k hk
      rcases List.mem_append.1 hk with h | h
      · exact hkids k h
      · exact hp.wf k (List.mem_cons_of_mem _ h)
    · intro k hk
      simp only [St.visit, List.mem_cons] at hk
      rcases hk with rfl | hk
      · exact ⟨it, kids, rfl, hitok, he, fun c hc => covered_kid hc⟩
      · obtain ⟨it', kids', h1, h2, h3, h4⟩ := hp.done k hk
        exact ⟨it', kids', h1, h2, h3, fun c hc => covered_visit (h4 c hc)⟩
    · simp only [St.visit]
      exact visit_collects (p := g.isTypeId) hp.types
    · simp only [St.visit]
      exact visit_collects (p := g.isRouteId) hp.routes
    · intro i hi
      simp only [St.visit]
      exact covered_visit (hp.init i hi)

end StoneVerif.Graph
