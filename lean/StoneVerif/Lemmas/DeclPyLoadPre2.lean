import StoneVerif.Lemmas.DeclPyLoadPre
namespace StoneVerif.DeclPy

/-- the lower-ranked modules that are in `sys.modules` are completely loaded -/
def InvB (api : Api) (rank : Name → Nat) (st : St) (r : Nat) : Prop :=
  ∀ ns' ∈ api.namespaces, rank ns'.name < r → modName ns' ∈ st.started → Loaded api st ns'

structure LoadPost (api : Api) (rank : Name → Nat) (st st' : St) (ns : Namespace) : Prop where
  le : Le st st'
  wf : StWF st'
  loaded : Loaded api st' ns
  frame : ∀ m ∈ st.started, ∀ n, st'.global? m n = st.global? m n
  newer : ∀ ns' ∈ api.namespaces, modName ns' ∈ st'.started →
    modName ns' ∈ st.started ∨ (rank ns'.name ≤ rank ns.name ∧ Loaded api st' ns')

theorem imports_info {api : Api} (hapi : apiWF api = true) {ns : Namespace} (hns : ns ∈ api.namespaces)
    {m : Name} (hm : m ∈ ns.imports) : ∃ nsm ∈ api.namespaces, nsm.name = m := by
  have hw := nsWF_of_apiWF hapi hns
  simp only [nsWF, Bool.and_eq_true] at hw
  have := List.all_eq_true.mp hw.1.1.2 m hm
  simp only [Bool.and_eq_true] at this
  obtain ⟨nsm, hf⟩ := isSome_get this.1
  unfold Api.findNs at hf
  have h2 := List.find?_some hf
  simp only [beq_iff_eq] at h2
  exact ⟨nsm, List.mem_of_find?_eq_some hf, h2⟩

theorem imports_nodup {api : Api} (hapi : apiWF api = true) {ns : Namespace} (hns : ns ∈ api.namespaces) :
    (ns.imports.map fmtNamespace).Nodup := by
  have hnd := bindNames_nodup hapi hns
  simp only [bindNames, List.append_assoc] at hnd
  exact (List.nodup_append.mp hnd).1

theorem stWF_start {st : St} (hwf : StWF st) (m : Name) : StWF { st with started := m :: st.started } :=
  ⟨hwf.tbl, hwf.clsval, hwf.keyglob, fun m' n h => List.mem_cons_of_mem _ (hwf.globstarted m' n h)⟩

theorem le_start (st : St) (m : Name) : Le st { st with started := m :: st.started } :=
  ⟨⟨[], rfl, by simp⟩, fun _ h => h, fun _ _ _ h => h, fun _ h => List.mem_cons_of_mem _ h⟩

/-- binding the local name of an imported module -/
theorem bind_module {st : St} {cur m : Name} (hwf : StWF st) (hcur : cur ∈ st.started)
    (hfresh : st.global? cur m = none) :
    let st' : St := { st with globals := ((cur, m), .modu m) :: st.globals }
    Le st st' ∧ StWF st' ∧ st'.global? cur m = some (.modu m)
      ∧ (∀ m' n, (m', n) ≠ (cur, m) → st'.global? m' n = st.global? m' n) := by
  intro st'
  refine ⟨⟨⟨[], rfl, by simp⟩, fun _ h => h, ?_, fun _ h => h⟩, ⟨hwf.tbl, ?_, ?_, ?_⟩, ?_, ?_⟩
  · intro m' n v h
    show St.global? { st with globals := ((cur, m), Val.modu m) :: st.globals } m' n = some v
    rw [global?_cons]
    split
    · rename_i heq; injection heq with h1 h2; subst h1 h2; rw [hfresh] at h; exact absurd h (by simp)
    · exact h
  · intro m' n c h
    have h' : St.global? { st with globals := ((cur, m), Val.modu m) :: st.globals } m' n = some (.cls c) := h
    rw [global?_cons] at h'
    split at h'
    · simp at h'
    · exact hwf.clsval m' n c h'
  · intro c hc
    show (St.global? { st with globals := ((cur, m), Val.modu m) :: st.globals } c.1 c.2).isSome = true
    rw [global?_cons]
    split
    · rfl
    · exact hwf.keyglob c hc
  · intro m' n h
    have h' : (St.global? { st with globals := ((cur, m), Val.modu m) :: st.globals } m' n).isSome = true := h
    rw [global?_cons] at h'
    split at h'
    · rename_i heq; injection heq with h1 h2; subst h1; exact hcur
    · exact hwf.globstarted m' n h'
  · show St.global? { st with globals := ((cur, m), Val.modu m) :: st.globals } cur m = some (.modu m)
    rw [global?_cons]; simp
  · intro m' n hne
    show St.global? { st with globals := ((cur, m), Val.modu m) :: st.globals } m' n = st.global? m' n
    rw [global?_cons]
    split
    · rename_i heq; exact absurd heq.symm hne
    · rfl

end StoneVerif.DeclPy
