import StoneVerif.Lemmas.DeclPyTargets
namespace StoneVerif.DeclPy

theorem self_ne_append (c s : String) (hs : s ≠ "") : c ≠ c ++ s := fun h => append_ne_self c s hs h.symm

theorem globals_aliasStmts (api : Api) (cur : Name) (a : Alias) :
    (aliasStmts api cur a).flatMap Stmt.globals
      = (fmtClass a.name ++ "_validator") :: (if aliasEndsInUser api api.nAliases a.ty then [fmtClass a.name] else []) := by
  simp only [aliasStmts, List.flatMap_append, List.flatMap_cons, List.flatMap_nil, globals_assign_none]
  by_cases hr : a.redact <;> by_cases he : aliasEndsInUser api api.nAliases a.ty = true
  all_goals simp [hr, he]
  all_goals (rcases aliasEndsInUser_shape he with ⟨x, y, hxy⟩ | ⟨x, y, hxy⟩ <;> simp [hxy])

/-- alias validators and class aliases -/
theorem sec_aliases {api : Api} (hapi : apiWF api = true) {ns : Namespace} (hns : ns ∈ api.namespaces) (st : St)
    (hwf : StWF st) (hctx : Ctx api st ns) (hcls : ∀ d ∈ ns.types, ClassOK api st ns d)
    (hnd : ((aliasSection api ns).flatMap Stmt.globals).Nodup)
    (hfresh : ∀ n ∈ (aliasSection api ns).flatMap Stmt.globals, st.global? (modName ns) n = none) :
    ∃ st', Steps st (modName ns) (aliasSection api ns) st' ∧ ∀ a ∈ ns.aliases, AliasOK api st' ns a := by
  refine steps_flatMap' (α := Alias) (aliasStmts api ns.name) (modName ns)
    (fun st => Ctx api st ns ∧ ∀ d ∈ ns.types, ClassOK api st ns d) (fun a st => AliasOK api st ns a)
    (fun hle h => ⟨h.1.mono hle, fun d hd => (h.2 d hd).mono hle⟩) (fun hle h => h.mono hle) ns.aliases ?_
    hnd st hwf ⟨hctx, hcls⟩ hfresh
  intro pre a post hsplit st hwf ⟨hctx, hcls⟩ hpre hfr
  obtain ⟨htok, hal⟩ := aliasWF_at hapi hns hsplit
  have hsub : ∀ y ∈ pre, y ∈ ns.aliases := fun y hy => by rw [hsplit]; exact List.mem_append_left _ hy
  -- names bound by this item
  rw [globals_aliasStmts] at hfr
  have hfr_v : st.global? (modName ns) (fmtClass a.name ++ "_validator") = none :=
    hfr _ List.mem_cons_self
  -- (1) the validator
  have hready := ready_tyRefs hapi hns hctx hcls pre hpre a.ty htok hal
  obtain ⟨st1, v1, hs1, hg1, _, hc1, ha1⟩ := steps_assign_glob (cur := modName ns) (t := fmtClass a.name ++ "_validator")
    (cp := match a.ty with
      | .user ns' n => some (qual ns.name ns' (fmtClass n ++ "_validator"))
      | .alias ns' n => some (qual ns.name ns' (fmtClass n ++ "_validator"))
      | _ => none)
    (uses := tyRefs ns.name a.ty) hwf hready
    (fun r hr => by
      cases hty : a.ty with
      | user ns' n => simp only [hty] at hr; injection hr with hr; subst hr; exact hready _ (by simp [hty, tyRefs])
      | alias ns' n => simp only [hty] at hr; injection hr with hr; subst hr; exact hready _ (by simp [hty, tyRefs])
      | prim => simp [hty] at hr
      | void => simp [hty] at hr
      | list t => simp [hty] at hr
      | map k v => simp [hty] at hr
      | nullable t => simp [hty] at hr)
    hfr_v hctx.started
  -- (2) the redactor
  have step2 : ∃ st2, Steps st1 (modName ns)
      (if a.redact then [Stmt.assign (fmtClass a.name ++ "_validator") (some "_redact") none [here (fmtClass a.name ++ "_validator")]]
       else []) st2 ∧ st2.globals = st1.globals := by
    by_cases hr : a.redact = true
    · simp only [hr, if_true]
      obtain ⟨st2, hs2, hg2, _, _⟩ := steps_assign_attr (cur := modName ns) (t := fmtClass a.name ++ "_validator")
        (a := "_redact") (cp := none) (uses := [here (fmtClass a.name ++ "_validator")]) hs1.wf
        (fun r hr => by simp only [List.mem_singleton] at hr; subst hr; exact ready_here_global hg1)
        (by simp [hg1])
      exact ⟨st2, hs2, hg2⟩
    · simp only [hr, Bool.false_eq_true, if_false]
      exact ⟨st1, Steps.nil hs1.wf, rfl⟩
  obtain ⟨st2, hs2, hgl2⟩ := step2
  have hs12 := hs1.append hs2
  have hg2 : st2.global? (modName ns) (fmtClass a.name ++ "_validator") = some v1 := by
    rw [global?_congr hgl2]; exact hg1
  have hvalid : ∀ st', Le st2 st' → (st'.global? (modName ns) (fmtClass a.name ++ "_validator")).isSome = true := by
    intro st' hle
    rw [hle.glob _ _ _ hg2]; rfl
  -- (3) the class alias
  by_cases hends : aliasEndsInUser api api.nAliases a.ty = true
  · have hshape := aliasEndsInUser_shape hends
    have hfr_a : st.global? (modName ns) (fmtClass a.name) = none := hfr _ (by simp [hends])
    have key : ∀ ns' n', (a.ty = .user ns' n' ∨ a.ty = .alias ns' n') →
        ∃ st3, Steps st2 (modName ns)
            [Stmt.assign (fmtClass a.name) none (some (qual ns.name ns' (fmtClass n'))) [qual ns.name ns' (fmtClass n')]] st3
          ∧ ∃ c, st3.global? (modName ns) (fmtClass a.name) = some (.cls c)
              ∧ ∀ k' tag, tagOKTy api k' a.ty tag = true → HasA st3 c (fmtVar tag) := by
      intro ns' n' ht
      obtain ⟨c, hres, htags⟩ := alias_target hapi hns hctx hcls pre hsub hpre htok hal
        (Nat.le_succ _) hends ht none
      have hres2 := hres.mono hs12.le
      have hrdy : Ready st2 (modName ns) (qual ns.name ns' (fmtClass n')) :=
        ⟨.cls c, hres2, fun a ha => by rw [qual_attr] at ha; exact absurd ha (by simp)⟩
      have hfr2 : st2.global? (modName ns) (fmtClass a.name) = none := by
        rw [hs12.frame _ _ (fun _ => ?_)]
        · exact hfr_a
        · have : (([Stmt.assign (fmtClass a.name ++ "_validator") none
              (match a.ty with
                | .user ns' n => some (qual ns.name ns' (fmtClass n ++ "_validator"))
                | .alias ns' n => some (qual ns.name ns' (fmtClass n ++ "_validator"))
                | _ => none) (tyRefs ns.name a.ty)] ++
              (if a.redact then [Stmt.assign (fmtClass a.name ++ "_validator") (some "_redact") none
                [here (fmtClass a.name ++ "_validator")]] else [])).flatMap Stmt.globals) = [fmtClass a.name ++ "_validator"] := by
            by_cases hr : a.redact = true <;> simp [hr]
          rw [this]
          simp only [List.mem_singleton]
          exact self_ne_append _ _ (by decide)
      obtain ⟨st3, v3, hs3, hg3, hres3, _, _⟩ := steps_assign_glob (cur := modName ns) (t := fmtClass a.name)
        (cp := some (qual ns.name ns' (fmtClass n'))) (uses := [qual ns.name ns' (fmtClass n')]) hs2.wf
        (fun r hr => by simp only [List.mem_singleton] at hr; subst hr; exact hrdy)
        (fun r hr => by injection hr with hr; subst hr; exact hrdy) hfr2 (hs12.le.started _ hctx.started)
      have hv3 : v3 = .cls c := (hres3 _ rfl (qual_attr _ _ _ _)).unique hres2
      subst hv3
      exact ⟨st3, hs3, c, hg3, fun k' tag hk' => (hs12.le.trans hs3.le).hasA (htags k' tag hk')⟩
    rcases hshape with ⟨ns', n', ht⟩ | ⟨ns', n', ht⟩
    · obtain ⟨st3, hs3, c, hg3, htags⟩ := key ns' n' (Or.inl ht)
      refine ⟨st3, ?_, hvalid st3 hs3.le, fun _ => ⟨c, hg3, htags⟩⟩
      simp only [ht] at hs12
      have hends' := hends
      rw [ht] at hends'
      simp only [aliasStmts, ht, hends', if_true]
      exact hs12.append hs3
    · obtain ⟨st3, hs3, c, hg3, htags⟩ := key ns' n' (Or.inr ht)
      refine ⟨st3, ?_, hvalid st3 hs3.le, fun _ => ⟨c, hg3, htags⟩⟩
      simp only [ht] at hs12
      have hends' := hends
      rw [ht] at hends'
      simp only [aliasStmts, ht, hends', if_true]
      exact hs12.append hs3
  · refine ⟨st2, ?_, hvalid st2 (Le.refl _), fun h => absurd h hends⟩
    simp only [aliasStmts, hends, Bool.false_eq_true, if_false, List.append_nil]
    exact hs12

end StoneVerif.DeclPy
