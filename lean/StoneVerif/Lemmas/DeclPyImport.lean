import StoneVerif.Lemmas.DeclPy
namespace StoneVerif.DeclPy

/-! ## Class table -/

def clsKeys (st : St) : List ClsId := st.classes.map (·.1)

/-- keys are distinct and every base lies further down (was created earlier) -/
def TableWF : List (ClsId × Option ClsId) → Prop
  | [] => True
  | (c, p) :: rest => c ∉ rest.map (·.1) ∧ (∀ q, p = some q → q ∈ rest.map (·.1)) ∧ TableWF rest

theorem lookupAttr_attrs_mono {A A' : List (ClsId × Name)} (h : ∀ x ∈ A, x ∈ A') :
    ∀ (tbl : List (ClsId × Option ClsId)) (c : ClsId) (a : Name),
      lookupAttr A tbl c a = true → lookupAttr A' tbl c a = true := by
  intro tbl
  induction tbl with
  | nil => intro c a h'; simp [lookupAttr] at h'
  | cons e rest ih =>
    obtain ⟨c', p⟩ := e
    intro c a h'
    simp only [lookupAttr] at h' ⊢
    split at h'
    · rename_i hc
      simp only [hc, if_true]
      simp only [Bool.or_eq_true] at h' ⊢
      rcases h' with h' | h'
      · left
        simp only [List.contains_eq_mem, decide_eq_true_eq] at h' ⊢
        exact h _ h'
      · right
        cases p with
        | none => simp at h'
        | some q => exact ih q a h'
    · rename_i hc
      simp only [hc]
      exact ih c a h'

theorem lookupAttr_not_key {A : List (ClsId × Name)} :
    ∀ (tbl : List (ClsId × Option ClsId)) (c : ClsId) (a : Name),
      c ∉ tbl.map (·.1) → lookupAttr A tbl c a = false := by
  intro tbl
  induction tbl with
  | nil => intro c a _; rfl
  | cons e rest ih =>
    obtain ⟨c', p⟩ := e
    intro c a h
    simp only [List.map_cons, List.mem_cons, not_or] at h
    have hne : (c' == c) = false := by
      simp only [beq_eq_false_iff_ne, ne_eq]
      exact fun e => h.1 e.symm
    simp only [lookupAttr, hne]
    exact ih c a h.2

theorem lookupAttr_prepend {A : List (ClsId × Name)} (new tbl : List (ClsId × Option ClsId)) (c : ClsId) (a : Name)
    (h : c ∉ new.map (·.1)) : lookupAttr A (new ++ tbl) c a = lookupAttr A tbl c a := by
  induction new with
  | nil => rfl
  | cons e rest ih =>
    obtain ⟨c', p⟩ := e
    simp only [List.map_cons, List.mem_cons, not_or] at h
    have hne : (c' == c) = false := by
      simp only [beq_eq_false_iff_ne, ne_eq]
      exact fun e => h.1 e.symm
    simp only [List.cons_append, lookupAttr, hne]
    exact ih h.2

theorem lookupAttr_direct {A : List (ClsId × Name)} :
    ∀ (tbl : List (ClsId × Option ClsId)) (c : ClsId) (a : Name),
      c ∈ tbl.map (·.1) → (c, a) ∈ A → lookupAttr A tbl c a = true := by
  intro tbl
  induction tbl with
  | nil => intro c a h; simp at h
  | cons e rest ih =>
    obtain ⟨c', p⟩ := e
    intro c a h hA
    simp only [lookupAttr]
    by_cases hc : c' = c
    · subst hc
      simp [hA]
    · have : (c' == c) = false := by simpa using hc
      simp only [this]
      simp only [List.map_cons, List.mem_cons] at h
      rcases h with h | h
      · exact absurd h.symm hc
      · exact ih c a h hA

theorem TableWF.parent_mem : ∀ {tbl : List (ClsId × Option ClsId)}, TableWF tbl → ∀ {c p : ClsId},
    (c, some p) ∈ tbl → p ∈ tbl.map (·.1)
  | [], _, _, _, h => by simp at h
  | (c', p') :: rest, hwf, c, p, h => by
    simp only [List.mem_cons] at h
    simp only [List.map_cons, List.mem_cons]
    rcases h with h | h
    · injection h with h1 h2
      subst h1 h2
      exact Or.inr (hwf.2.1 p rfl)
    · exact Or.inr (TableWF.parent_mem hwf.2.2 h)

/-- attribute lookup along the base: what the base has, the class has -/
theorem lookupAttr_inherit {A : List (ClsId × Name)} :
    ∀ {tbl : List (ClsId × Option ClsId)}, TableWF tbl → ∀ {c p : ClsId} {a : Name},
      (c, some p) ∈ tbl → lookupAttr A tbl p a = true → lookupAttr A tbl c a = true
  | [], _, _, _, _, h, _ => by simp at h
  | (c', p') :: rest, hwf, c, p, a, h, hp => by
    simp only [List.mem_cons] at h
    rcases h with h | h
    · injection h with h1 h2
      subst h1 h2
      have hpin : p ∈ rest.map (·.1) := hwf.2.1 p rfl
      have hne : (c == p) = false := by
        simp only [beq_eq_false_iff_ne, ne_eq]
        intro e; subst e; exact hwf.1 hpin
      simp only [lookupAttr, hne, Bool.false_eq_true, if_false] at hp
      simp only [lookupAttr, beq_self_eq_true, if_true, hp, Bool.or_true]
    · have hcin : c ∈ rest.map (·.1) := List.mem_map.mpr ⟨_, h, rfl⟩
      have hpin : p ∈ rest.map (·.1) := TableWF.parent_mem hwf.2.2 h
      have hne1 : (c' == c) = false := by
        simp only [beq_eq_false_iff_ne, ne_eq]
        intro e; subst e; exact hwf.1 hcin
      have hne2 : (c' == p) = false := by
        simp only [beq_eq_false_iff_ne, ne_eq]
        intro e; subst e; exact hwf.1 hpin
      simp only [lookupAttr, hne2, Bool.false_eq_true, if_false] at hp
      simp only [lookupAttr, hne1, Bool.false_eq_true, if_false]
      exact lookupAttr_inherit hwf.2.2 h hp


/-! ## States: order, well-formedness -/

theorem global?_cons (st : St) (k : Name × Name) (v : Val) (cls : List (ClsId × Option ClsId))
    (at' : List (ClsId × Name)) (sd : List Name) (m n : Name) :
    St.global? { started := sd, globals := (k, v) :: st.globals, classes := cls, attrs := at' } m n
      = if k = (m, n) then some v else st.global? m n := by
  unfold St.global?
  simp only [List.find?_cons]
  by_cases h : k = (m, n)
  · simp [h]
  · have : (k == (m, n)) = false := by simpa using h
    simp [this, h]

theorem global?_congr {st st' : St} (h : st'.globals = st.globals) (m n : Name) :
    st'.global? m n = st.global? m n := by
  unfold St.global?; rw [h]

/-- `st'` extends `st`: new classes with fresh keys on top, more attributes, every binding kept -/
structure Le (st st' : St) : Prop where
  cls : ∃ new, st'.classes = new ++ st.classes ∧ ∀ e ∈ new, e.1 ∉ clsKeys st
  attrs : ∀ x ∈ st.attrs, x ∈ st'.attrs
  glob : ∀ m n v, st.global? m n = some v → st'.global? m n = some v
  started : ∀ m ∈ st.started, m ∈ st'.started

theorem Le.refl (st : St) : Le st st :=
  ⟨⟨[], rfl, by simp⟩, fun _ h => h, fun _ _ _ h => h, fun _ h => h⟩

theorem Le.trans {a b c : St} (h1 : Le a b) (h2 : Le b c) : Le a c := by
  obtain ⟨n1, e1, f1⟩ := h1.cls
  obtain ⟨n2, e2, f2⟩ := h2.cls
  refine ⟨⟨n2 ++ n1, by rw [e2, e1, List.append_assoc], ?_⟩, fun x h => h2.attrs x (h1.attrs x h),
    fun m n v h => h2.glob m n v (h1.glob m n v h), fun m h => h2.started m (h1.started m h)⟩
  intro e he
  rcases List.mem_append.mp he with he | he
  · intro hk
    apply f2 e he
    simp only [clsKeys, e1, List.map_append, List.mem_append]
    exact Or.inr hk
  · exact f1 e he

def HasA (st : St) (c : ClsId) (a : Name) : Prop := lookupAttr st.attrs st.classes c a = true

theorem HasA.key {st : St} {c : ClsId} {a : Name} (h : HasA st c a) : c ∈ clsKeys st := by
  by_cases hc : c ∈ clsKeys st
  · exact hc
  · have := lookupAttr_not_key (A := st.attrs) st.classes c a hc
    unfold HasA at h; rw [this] at h; exact absurd h (by simp)

theorem Le.hasA {st st' : St} (h : Le st st') {c : ClsId} {a : Name} (ha : HasA st c a) : HasA st' c a := by
  obtain ⟨new, e, f⟩ := h.cls
  have hk := ha.key
  unfold HasA
  rw [e, lookupAttr_prepend]
  · exact lookupAttr_attrs_mono h.attrs _ _ _ ha
  · intro hc
    obtain ⟨e', he', rfl⟩ := List.mem_map.mp hc
    exact f e' he' hk

theorem Le.mem_classes {st st' : St} (h : Le st st') {e : ClsId × Option ClsId} (he : e ∈ st.classes) :
    e ∈ st'.classes := by
  obtain ⟨new, e', _⟩ := h.cls
  rw [e']; exact List.mem_append_right _ he

structure StWF (st : St) : Prop where
  tbl : TableWF st.classes
  clsval : ∀ m n c, st.global? m n = some (.cls c) → c ∈ clsKeys st
  keyglob : ∀ c ∈ clsKeys st, (st.global? c.1 c.2).isSome = true
  globstarted : ∀ m n, (st.global? m n).isSome = true → m ∈ st.started

/-! ## Evaluating names -/

def Resolves (st : St) (cur : Name) (mod : Option Name) (name : Name) (v : Val) : Prop :=
  match mod with
  | none => st.global? cur name = some v
  | some m => ∃ m', st.global? cur m = some (.modu m') ∧ st.global? m' name = some v

def Ready (st : St) (cur : Name) (r : Ref) : Prop :=
  ∃ v, Resolves st cur r.mod r.name v ∧ ∀ a, r.attr = some a → ∃ c, v = .cls c ∧ HasA st c a

theorem Resolves.mono {st st' : St} (h : Le st st') {cur : Name} {mod : Option Name} {name : Name} {v : Val}
    (hr : Resolves st cur mod name v) : Resolves st' cur mod name v := by
  cases mod with
  | none => exact h.glob _ _ _ hr
  | some m => obtain ⟨m', h1, h2⟩ := hr; exact ⟨m', h.glob _ _ _ h1, h.glob _ _ _ h2⟩

theorem Ready.mono {st st' : St} (h : Le st st') {cur : Name} {r : Ref} (hr : Ready st cur r) : Ready st' cur r := by
  obtain ⟨v, h1, h2⟩ := hr
  refine ⟨v, h1.mono h, fun a ha => ?_⟩
  obtain ⟨c, hc, hh⟩ := h2 a ha
  exact ⟨c, hc, h.hasA hh⟩

theorem evalRef_ready {st : St} {cur : Name} {r : Ref} (h : Ready st cur r) :
    ∃ v, evalRef st cur r = .ok v ∧ (r.attr = none → Resolves st cur r.mod r.name v) := by
  obtain ⟨v, h1, h2⟩ := h
  obtain ⟨mod, name, attr⟩ := r
  cases mod with
  | none =>
    simp only [Resolves] at h1
    cases attr with
    | none => exact ⟨v, by simp [evalRef, h1, bind, Except.bind, pure, Except.pure], fun _ => h1⟩
    | some a =>
      obtain ⟨c, rfl, hh⟩ := h2 a rfl
      unfold HasA at hh
      exact ⟨.obj, by simp [evalRef, h1, hh, bind, Except.bind, pure, Except.pure], fun h => by simp at h⟩
  | some m =>
    obtain ⟨m', h1a, h1b⟩ := h1
    cases attr with
    | none => exact ⟨v, by simp [evalRef, h1a, h1b, bind, Except.bind, pure, Except.pure], fun _ => ⟨m', h1a, h1b⟩⟩
    | some a =>
      obtain ⟨c, rfl, hh⟩ := h2 a rfl
      unfold HasA at hh
      exact ⟨.obj, by simp [evalRef, h1a, h1b, hh, bind, Except.bind, pure, Except.pure], fun h => by simp at h⟩

theorem evalAll_ready {st : St} {cur : Name} : ∀ {rs : List Ref}, (∀ r ∈ rs, Ready st cur r) →
    evalAll st cur rs = .ok ()
  | [], _ => rfl
  | r :: rs, h => by
    obtain ⟨v, hv, _⟩ := evalRef_ready (h r List.mem_cons_self)
    simp only [evalAll, hv, bind, Except.bind]
    exact evalAll_ready (fun r' hr' => h r' (List.mem_cons_of_mem _ hr'))



/-! ## Executing statements -/

/-- run statements none of which is an import -/
def execBody (cur : Name) : St → List Stmt → Except Err St
  | st, [] => pure st
  | st, s :: rest => do
    let st ← execStmt st cur s
    execBody cur st rest

def Stmt.isImp : Stmt → Bool
  | .imp _ => true
  | _ => false

theorem execStmts_noimp (imp : St → Name → Except Err St) (cur : Name) :
    ∀ (l : List Stmt) (st : St), (∀ s ∈ l, s.isImp = false) → execStmts imp cur st l = execBody cur st l
  | [], st, _ => rfl
  | s :: rest, st, h => by
    have hs := h s List.mem_cons_self
    have ih := fun st' => execStmts_noimp imp cur rest st' (fun s' hs' => h s' (List.mem_cons_of_mem _ hs'))
    cases s with
    | imp m => simp [Stmt.isImp] at hs
    | cls n b body c => simp only [execStmts, execBody, ih]
    | assign t a c u => simp only [execStmts, execBody, ih]
    | expr u => simp only [execStmts, execBody, ih]

theorem execStmts_append (imp : St → Name → Except Err St) (cur : Name) :
    ∀ (a b : List Stmt) (st : St),
      execStmts imp cur st (a ++ b) = (execStmts imp cur st a >>= fun st' => execStmts imp cur st' b)
  | [], b, st => by simp [execStmts, pure, Except.pure, bind, Except.bind]
  | s :: rest, b, st => by
    have ih := fun st' => execStmts_append imp cur rest b st'
    cases s with
    | imp m =>
      simp only [List.cons_append, execStmts, bind, Except.bind]
      cases imp st m with
      | error e => rfl
      | ok st1 => simp only []; rw [ih]; rfl
    | cls n bs body c =>
      simp only [List.cons_append, execStmts, bind, Except.bind]
      cases execStmt st cur (.cls n bs body c) with
      | error e => rfl
      | ok st1 => simp only []; rw [ih]; rfl
    | assign t a c u =>
      simp only [List.cons_append, execStmts, bind, Except.bind]
      cases execStmt st cur (.assign t a c u) with
      | error e => rfl
      | ok st1 => simp only []; rw [ih]; rfl
    | expr u =>
      simp only [List.cons_append, execStmts, bind, Except.bind]
      cases execStmt st cur (.expr u) with
      | error e => rfl
      | ok st1 => simp only []; rw [ih]; rfl

/-- one successful step that keeps the state well-formed, only extends it, and binds at most the module-level names
`names` of module `cur` -/
structure Steps (st : St) (cur : Name) (l : List Stmt) (st' : St) : Prop where
  ok : execBody cur st l = .ok st'
  le : Le st st'
  wf : StWF st'
  started : st'.started = st.started
  frame : ∀ m n, (m = cur → n ∉ l.flatMap Stmt.globals) → st'.global? m n = st.global? m n

theorem Steps.nil {st : St} {cur : Name} (h : StWF st) : Steps st cur [] st :=
  ⟨rfl, Le.refl st, h, rfl, fun _ _ _ => rfl⟩

theorem Steps.append {st st1 st2 : St} {cur : Name} {a b : List Stmt} (h1 : Steps st cur a st1)
    (h2 : Steps st1 cur b st2) : Steps st cur (a ++ b) st2 := by
  refine ⟨?_, h1.le.trans h2.le, h2.wf, h2.started.trans h1.started, ?_⟩
  · have : ∀ (a : List Stmt) (st st1 : St), execBody cur st a = .ok st1 → execBody cur st (a ++ b) = execBody cur st1 b := by
      intro a
      induction a with
      | nil => intro st st1 h; simp only [execBody, pure, Except.pure] at h; injection h with h; subst h; rfl
      | cons s rest ih =>
        intro st st1 h
        simp only [List.cons_append, execBody, bind, Except.bind] at h ⊢
        cases hs : execStmt st cur s with
        | error e => simp [hs] at h
        | ok st' => simp only [hs] at h ⊢; exact ih st' st1 h
    rw [this a st st1 h1.ok]; exact h2.ok
  · intro m n hmn
    simp only [List.flatMap_append, List.mem_append, not_or] at hmn
    rw [h2.frame m n (fun e => (hmn e).2), h1.frame m n (fun e => (hmn e).1)]

theorem Steps.cons {st st1 st2 : St} {cur : Name} {s : Stmt} {l : List Stmt} (h1 : Steps st cur [s] st1)
    (h2 : Steps st1 cur l st2) : Steps st cur (s :: l) st2 := h1.append h2

theorem steps_single {st st' : St} {cur : Name} {s : Stmt} (hok : execStmt st cur s = .ok st') (hle : Le st st')
    (hwf : StWF st') (hst : st'.started = st.started)
    (hfr : ∀ m n, (m = cur → n ∉ s.globals) → st'.global? m n = st.global? m n) : Steps st cur [s] st' := by
  refine ⟨by simp [execBody, hok, bind, Except.bind, pure, Except.pure], hle, hwf, hst, ?_⟩
  intro m n h
  apply hfr m n
  intro e
  simpa using h e

/-- `Cls.attr = …` / `obj.attr = …` -/
theorem steps_assign_attr {st : St} {cur t a : Name} {cp : Option Ref} {uses : List Ref} (hwf : StWF st)
    (hu : ∀ r ∈ uses, Ready st cur r) (ht : (st.global? cur t).isSome = true) :
    ∃ st', Steps st cur [.assign t (some a) cp uses] st' ∧ st'.globals = st.globals ∧ st'.classes = st.classes
      ∧ (∀ c, st.global? cur t = some (.cls c) → (c, a) ∈ st'.attrs) := by
  have hev := evalAll_ready hu
  cases hg : st.global? cur t with
  | none => simp [hg] at ht
  | some v =>
    cases v with
    | cls c =>
      refine ⟨{ st with attrs := (c, a) :: st.attrs }, steps_single ?_ ?_ ?_ rfl ?_, rfl, rfl, ?_⟩
      · simp [execStmt, hev, hg, bind, Except.bind, pure, Except.pure]
      · exact ⟨⟨[], rfl, by simp⟩, fun x h => List.mem_cons_of_mem _ h, fun _ _ _ h => h, fun _ h => h⟩
      · exact ⟨hwf.tbl, hwf.clsval, hwf.keyglob, hwf.globstarted⟩
      · intro m n _; rfl
      · intro c' hc'; injection hc' with hc'; injection hc' with hc'; subst hc'; exact List.mem_cons_self
    | modu m' =>
      refine ⟨st, steps_single ?_ (Le.refl st) hwf rfl (fun _ _ _ => rfl), rfl, rfl, ?_⟩
      · simp [execStmt, hev, hg, bind, Except.bind, pure, Except.pure]
      · intro c hc; simp at hc
    | obj =>
      refine ⟨st, steps_single ?_ (Le.refl st) hwf rfl (fun _ _ _ => rfl), rfl, rfl, ?_⟩
      · simp [execStmt, hev, hg, bind, Except.bind, pure, Except.pure]
      · intro c hc; simp at hc

/-- an expression statement -/
theorem steps_expr {st : St} {cur : Name} {uses : List Ref} (hwf : StWF st) (hu : ∀ r ∈ uses, Ready st cur r) :
    Steps st cur [.expr uses] st := by
  refine steps_single ?_ (Le.refl st) hwf rfl (fun _ _ _ => rfl)
  simp [execStmt, evalAll_ready hu, bind, Except.bind, pure, Except.pure]

theorem resolves_cls_key {st : St} (hwf : StWF st) {cur : Name} {mod : Option Name} {name : Name} {c : ClsId}
    (h : Resolves st cur mod name (.cls c)) : c ∈ clsKeys st := by
  cases mod with
  | none => exact hwf.clsval _ _ _ h
  | some m => obtain ⟨m', _, h2⟩ := h; exact hwf.clsval _ _ _ h2

/-- `name = …` binding a fresh module-level name -/
theorem steps_assign_glob {st : St} {cur t : Name} {cp : Option Ref} {uses : List Ref} (hwf : StWF st)
    (hu : ∀ r ∈ uses, Ready st cur r) (hcp : ∀ r, cp = some r → Ready st cur r)
    (hfresh : st.global? cur t = none) (hcur : cur ∈ st.started) :
    ∃ st' v, Steps st cur [.assign t none cp uses] st' ∧ st'.global? cur t = some v
      ∧ (∀ r, cp = some r → r.attr = none → Resolves st cur r.mod r.name v)
      ∧ st'.classes = st.classes ∧ st'.attrs = st.attrs := by
  have hev := evalAll_ready hu
  have key : ∃ v, (match cp with | some r => evalRef st cur r | none => (pure Val.obj : Except Err Val)) = .ok v
      ∧ (∀ r, cp = some r → r.attr = none → Resolves st cur r.mod r.name v)
      ∧ (∀ c, v = .cls c → c ∈ clsKeys st) := by
    cases cp with
    | none => exact ⟨.obj, rfl, fun r h => by simp at h, fun c h => by simp at h⟩
    | some r =>
      obtain ⟨v, hv, hres⟩ := evalRef_ready (hcp r rfl)
      refine ⟨v, hv, fun r' h hattr => by injection h with h; subst h; exact hres hattr, fun c hc => ?_⟩
      subst hc
      cases hattr : r.attr with
      | none => exact resolves_cls_key hwf (hres hattr)
      | some a =>
        -- with an attribute path the value is an opaque object
        exfalso
        obtain ⟨v', h1, h2⟩ := hcp r rfl
        obtain ⟨c', rfl, hh⟩ := h2 a hattr
        obtain ⟨mod, name, attr⟩ := r
        simp only at hattr; subst hattr
        unfold HasA at hh
        cases mod with
        | none =>
          simp only [Resolves] at h1
          simp [evalRef, h1, hh, bind, Except.bind, pure, Except.pure] at hv
        | some m =>
          obtain ⟨m', h1a, h1b⟩ := h1
          simp [evalRef, h1a, h1b, hh, bind, Except.bind, pure, Except.pure] at hv
  obtain ⟨v, hv, hres, hkey⟩ := key
  refine ⟨{ st with globals := ((cur, t), v) :: st.globals }, v, steps_single ?_ ?_ ?_ rfl ?_, ?_, hres, rfl, rfl⟩
  · cases cp with
    | none => simp only [pure, Except.pure] at hv; injection hv with hv; subst hv
              simp [execStmt, hev, bind, Except.bind, pure, Except.pure]
    | some r => simp only at hv; simp [execStmt, hev, hv, bind, Except.bind, pure, Except.pure]
  · refine ⟨⟨[], rfl, by simp⟩, fun x h => h, ?_, fun _ h => h⟩
    intro m n v' h
    rw [global?_cons]
    split
    · rename_i heq; injection heq with h1 h2; subst h1 h2; rw [hfresh] at h; exact absurd h (by simp)
    · exact h
  · refine ⟨hwf.tbl, ?_, ?_, ?_⟩
    · intro m n c h
      rw [global?_cons] at h
      split at h
      · injection h with h; exact hkey c h
      · exact hwf.clsval m n c h
    · intro c hc
      rw [global?_cons]
      split
      · rfl
      · exact hwf.keyglob c hc
    · intro m n h
      rw [global?_cons] at h
      split at h
      · rename_i heq; injection heq with h1 h2; subst h1; exact hcur
      · exact hwf.globstarted m n h
  · intro m n h
    rw [global?_cons]
    split
    · rename_i heq; injection heq with h1 h2; subst h1 h2
      exact absurd (by simp) (h rfl)
    · rfl
  · rw [global?_cons]; simp



theorem Resolves.unique {st : St} {cur : Name} {mod : Option Name} {name : Name} {v v' : Val}
    (h : Resolves st cur mod name v) (h' : Resolves st cur mod name v') : v = v' := by
  cases mod with
  | none => simp only [Resolves] at h h'; rw [h] at h'; injection h'
  | some m =>
    obtain ⟨m1, a1, b1⟩ := h
    obtain ⟨m2, a2, b2⟩ := h'
    rw [a1] at a2; injection a2 with a2; injection a2 with a2; subst a2
    rw [b1] at b2; injection b2

/-- `class n(base): body` with a fresh name -/
theorem steps_cls {st : St} {cur n : Name} {base : Option Ref} {body : List Name} {ctor : Option (List Name)}
    (hwf : StWF st) (pid : Option ClsId)
    (hb : match base with
      | none => pid = none
      | some r => r.attr = none ∧ ∃ p, pid = some p ∧ Resolves st cur r.mod r.name (.cls p))
    (hfresh : st.global? cur n = none) (hcur : cur ∈ st.started) :
    ∃ st', Steps st cur [.cls n base body ctor] st' ∧ st'.global? cur n = some (.cls (cur, n))
      ∧ ((cur, n), pid) ∈ st'.classes ∧ (∀ b ∈ body, ((cur, n), b) ∈ st'.attrs) := by
  have hkey : (cur, n) ∉ clsKeys st := by
    intro h
    have := hwf.keyglob _ h
    simp only [hfresh] at this
    exact absurd this (by simp)
  have hpid : ∀ q, pid = some q → q ∈ clsKeys st := by
    intro q hq
    cases base with
    | none => simp only at hb; rw [hb] at hq; exact absurd hq (by simp)
    | some r =>
      obtain ⟨_, p, hp, hres⟩ := hb
      rw [hp] at hq; injection hq with hq; subst hq
      exact resolves_cls_key hwf hres
  refine ⟨{ st with globals := ((cur, n), .cls (cur, n)) :: st.globals,
                    classes := ((cur, n), pid) :: st.classes,
                    attrs := body.map (fun a => ((cur, n), a)) ++ st.attrs },
    steps_single ?_ ?_ ?_ rfl ?_, ?_, List.mem_cons_self, ?_⟩
  · cases base with
    | none =>
      simp only at hb; subst hb
      simp [execStmt, bind, Except.bind, pure, Except.pure]
    | some r =>
      obtain ⟨hattr, p, hp, hres⟩ := hb
      obtain ⟨v, hv, hres'⟩ := evalRef_ready (st := st) (cur := cur) (r := r)
        ⟨.cls p, hres, fun a ha => by rw [hattr] at ha; exact absurd ha (by simp)⟩
      have := (hres' hattr).unique hres
      subst this
      subst hp
      simp [execStmt, hv, bind, Except.bind, pure, Except.pure]
  · refine ⟨⟨[((cur, n), pid)], rfl, ?_⟩, fun x h => List.mem_append_right _ h, ?_, fun _ h => h⟩
    · intro e he; simp only [List.mem_singleton] at he; subst he; exact hkey
    · intro m n' v h
      rw [global?_cons]
      split
      · rename_i heq; injection heq with h1 h2; subst h1 h2; rw [hfresh] at h; exact absurd h (by simp)
      · exact h
  · refine ⟨⟨hkey, hpid, hwf.tbl⟩, ?_, ?_, ?_⟩
    · intro m n' c h
      rw [global?_cons] at h
      simp only [clsKeys, List.map_cons, List.mem_cons]
      split at h
      · injection h with h; injection h with h; exact Or.inl h.symm
      · exact Or.inr (hwf.clsval m n' c h)
    · intro c hc
      rw [global?_cons]
      simp only [clsKeys, List.map_cons, List.mem_cons] at hc
      split
      · rfl
      · rcases hc with hc | hc
        · rename_i hne; exact absurd (by rw [hc]) hne
        · exact hwf.keyglob c hc
    · intro m n' h
      rw [global?_cons] at h
      split at h
      · rename_i heq; injection heq with h1 h2; subst h1; exact hcur
      · exact hwf.globstarted m n' h
  · intro m n' h
    rw [global?_cons]
    split
    · rename_i heq; injection heq with h1 h2; subst h1 h2
      exact absurd (by simp [globals_cls]) (h rfl)
    · rfl
  · rw [global?_cons]; simp
  · intro b hb'
    exact List.mem_append_left _ (List.mem_map.mpr ⟨b, hb', rfl⟩)


end StoneVerif.DeclPy
