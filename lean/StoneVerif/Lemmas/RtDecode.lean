import StoneVerif.Model.Rt.SpecC06
/-! Helper lemmas about the RT decoder (`Model/Rt/Decode.lean`) used by the C06 property theorems. -/
namespace StoneVerif.Rt

/-! ### Small facts about the result type -/

theorem R_bind_ok {α β} (x : R α) (f : α → R β) (a : α) (h : x = .ok a) : (x >>= f) = f a := by
  subst h; rfl

theorem R_bind_error {α β} (x : R α) (f : α → R β) (e : Err) (h : x = .error e) : (x >>= f) = .error e := by
  subst h; rfl

/-! ### Tag tables: a present tag has a value type (`KeyError` is unreachable) -/

theorem valDataType_isSome_of_present (u : UnionDef) (tag : String) (perms : List String)
    (h : u.isTagPresent tag perms = true) : (u.valDataType tag perms).isSome = true := by
  unfold UnionDef.valDataType
  cases hf : perms.findSome? fun p => (u.tagmapAttr (some p)).bind (findTag tag) with
  | some t => simp
  | none =>
    simp only [Option.isSome_map]
    unfold UnionDef.isTagPresent at h
    rw [Bool.or_eq_true] at h
    cases h with
    | inl h => exact h
    | inr h =>
      rw [List.any_eq_true] at h
      obtain ⟨p, hp, hs⟩ := h
      rw [List.findSome?_eq_none_iff] at hf
      have := hf p hp
      rw [this] at hs
      simp at hs

/-! ### Object members -/

theorem childLookup_decodeMembers_none (E : Ext) (env : Env) (perms : List String) (strict : Bool)
    (tbl : List (String × PTy)) (k : String) (kvs : List (String × JVal))
    (h : jsonLookup k kvs = none) :
    childLookup k (decodeMembers E env perms strict tbl kvs) = none := by
  induction kvs with
  | nil => simp [decodeMembers, childLookup]
  | cons kv rest ih =>
    obtain ⟨k', x⟩ := kv
    simp only [jsonLookup] at h
    split at h
    · cases h
    · rename_i hk
      simp only [decodeMembers]
      split
      · simp only [childLookup, hk]
        exact ih h
      · exact ih h

/-! ### `attrSet`, slots, `finishFields` -/

theorem R_bind_pure {α β} (a : R α) (g : α → β) : (a >>= fun x => pure (g x)) = a.map g := by
  cases a <;> rfl

theorem attrSet_eq (E : Ext) (env : Env) (f : FieldDef) (slots : List (String × PyVal)) (x : PyVal) :
    attrSet E env f slots x =
      if f.attrNullable && isNoneV x then .ok (delSlot f.name slots)
      else if f.attrUserDefined then (validateTypeOnly env f.ty x).map fun _ => setSlot f.name x slots
      else (validate E env f.ty x).map fun x' => setSlot f.name x' slots := by
  cases x <;> simp only [attrSet, isNoneV, R_bind_pure] <;> rfl

/-- the three ways `Attribute.__set__` succeeds -/
theorem attrSet_ok (E : Ext) (env : Env) (f : FieldDef) (slots slots' : List (String × PyVal)) (x : PyVal)
    (h : attrSet E env f slots x = .ok slots') :
    (f.attrNullable = true ∧ x = .none ∧ slots' = delSlot f.name slots) ∨
    (f.attrUserDefined = true ∧ validateTypeOnly env f.ty x = .ok () ∧ slots' = setSlot f.name x slots) ∨
    (f.attrUserDefined = false ∧ ∃ x', validate E env f.ty x = .ok x' ∧ slots' = setSlot f.name x' slots) := by
  rw [attrSet_eq] at h
  split at h
  · rename_i hc
    rw [Bool.and_eq_true] at hc
    left
    refine ⟨hc.1, ?_, ?_⟩
    · cases x <;> simp_all [isNoneV]
    · cases h; rfl
  · split at h
    · rename_i hu
      right; left
      cases hv : validateTypeOnly env f.ty x with
      | error e => simp [hv, Except.map] at h
      | ok u => simp [hv, Except.map] at h; exact ⟨hu, rfl, h.symm⟩
    · rename_i hu
      right; right
      cases hv : validate E env f.ty x with
      | error e => simp [hv, Except.map] at h
      | ok x' => simp [hv, Except.map] at h; exact ⟨by simpa using hu, x', rfl, h.symm⟩

theorem lookupSlot_setSlot_ne (n k : String) (x : PyVal) (slots : List (String × PyVal)) (h : k ≠ n) :
    lookupSlot n (setSlot k x slots) = lookupSlot n slots := by
  induction slots with
  | nil => simp [setSlot, lookupSlot, h]
  | cons kv rest ih =>
    obtain ⟨k', w⟩ := kv
    simp only [setSlot]
    split
    · rename_i hk
      have : k' = k := by simpa using hk
      subst this
      simp [lookupSlot, h]
    · simp only [lookupSlot]
      split
      · rfl
      · exact ih

theorem lookupSlot_delSlot_none (n k : String) (slots : List (String × PyVal)) 
    (h : lookupSlot n slots = none) : lookupSlot n (delSlot k slots) = none := by
  induction slots with
  | nil => simp [delSlot, lookupSlot]
  | cons kv rest ih =>
    obtain ⟨k', w⟩ := kv
    simp only [lookupSlot] at h
    split at h
    · cases h
    · rename_i hk
      simp only [delSlot]
      split
      · exact h
      · simp only [lookupSlot, hk]
        exact ih h

theorem attrSet_slot_none (E : Ext) (env : Env) (f : FieldDef) (n : String) (slots slots' : List (String × PyVal)) (x : PyVal)
    (hne : f.name ≠ n) (h : lookupSlot n slots = none) (hs : attrSet E env f slots x = .ok slots') :
    lookupSlot n slots' = none := by
  rcases attrSet_ok E env f slots slots' x hs with ⟨_, _, rfl⟩ | ⟨_, _, rfl⟩ | ⟨_, x', _, rfl⟩
  · exact lookupSlot_delSlot_none _ _ _ h
  · rw [lookupSlot_setSlot_ne _ _ _ _ hne]; exact h
  · rw [lookupSlot_setSlot_ne _ _ _ _ hne]; exact h

/-- one step of the table loop -/
theorem finishFields_cons (E : Ext) (env : Env) (f : FieldDef) (rest : List FieldDef)
    (children : List (String × R PyVal)) (slots : List (String × PyVal)) :
    finishFields E env (f :: rest) children slots =
      match childLookup f.name children with
      | some (.error e) => .error e
      | some (.ok v) => match attrSet E env f slots v with
        | .error e => .error e
        | .ok slots' => finishFields E env rest children slots'
      | none =>
        if hasDefault env f.ty then match attrSet E env f slots (getDefault f.ty) with
          | .error e => .error e
          | .ok slots' => finishFields E env rest children slots'
        else finishFields E env rest children slots := by
  cases hr : childLookup f.name children with
  | none =>
    simp only [finishFields, hr]
    split
    · simp only [bind, Except.bind]; cases attrSet E env f slots (getDefault f.ty) <;> rfl
    · rfl
  | some r =>
    cases r with
    | error e => simp only [finishFields, hr]; rfl
    | ok v =>
      simp only [finishFields, hr, bind, Except.bind]
      cases attrSet E env f slots v <;> rfl

theorem finishFields_slot_none (E : Ext) (env : Env) (n : String) (children : List (String × R PyVal)) :
    ∀ (fields : List FieldDef) (slots slots' : List (String × PyVal)),
    (∀ g ∈ fields, g.name = n → childLookup g.name children = none ∧ hasDefault env g.ty = false) →
    lookupSlot n slots = none →
    finishFields E env fields children slots = .ok slots' → lookupSlot n slots' = none := by
  intro fields
  induction fields with
  | nil => intro slots slots' _ h hf; simp [finishFields] at hf; subst hf; exact h
  | cons f rest ih =>
    intro slots slots' hg h hf
    have hrest : ∀ g ∈ rest, g.name = n → childLookup g.name children = none ∧ hasDefault env g.ty = false :=
      fun g hgm => hg g (List.mem_cons_of_mem _ hgm)
    rw [finishFields_cons] at hf
    by_cases hn : f.name = n
    · obtain ⟨hc, hd⟩ := hg f (List.mem_cons_self) hn
      simp only [hc, hd] at hf
      exact ih slots slots' hrest h hf
    · split at hf
      · cases hf
      · rename_i v hr
        cases ha : attrSet E env f slots v with
        | error e => simp [ha] at hf
        | ok s1 =>
          simp only [ha] at hf
          exact ih s1 slots' hrest (attrSet_slot_none E env f n slots s1 v hn h ha) hf
      · split at hf
        · cases ha : attrSet E env f slots (getDefault f.ty) with
          | error e => simp [ha] at hf
          | ok s1 =>
            simp only [ha] at hf
            exact ih s1 slots' hrest (attrSet_slot_none E env f n slots s1 _ hn h ha) hf
        · exact ih slots slots' hrest h hf

theorem nodupS_names_unique {α} (name : α → String) :
    ∀ (l : List α), nodupS (l.map name) = true → ∀ f g, f ∈ l → g ∈ l → name f = name g → f = g := by
  intro l
  induction l with
  | nil => intro _ f g hf; cases hf
  | cons a l ih =>
    intro h f g hf hg hn
    simp only [List.map, nodupS, Bool.and_eq_true, Bool.not_eq_true', List.contains_eq_mem,
      decide_eq_false_iff_not, List.mem_map, not_exists, not_and] at h
    obtain ⟨h1, h2⟩ := h
    rcases List.mem_cons.mp hf with rfl | hf'
    · rcases List.mem_cons.mp hg with rfl | hg'
      · rfl
      · exact absurd hn.symm (h1 g hg')
    · rcases List.mem_cons.mp hg with rfl | hg'
      · exact absurd hn (h1 f hf')
      · exact ih h2 f g hf' hg' hn

theorem decode_struct_obj (E : Ext) (env : Env) (perms : List String) (strict : Bool) (fl : Flags)
    (cls : String) (kvs : List (String × JVal)) :
    decode E env perms strict (.struct fl cls) (.obj kvs) =
      finishStruct E env perms strict cls kvs
        (decodeMembers E env perms strict (memberTable env perms strict (.struct fl cls) kvs) kvs) := by
  unfold decode; simp

theorem finishFields_append_ok (E : Ext) (env : Env) (children : List (String × R PyVal)) (b : List FieldDef) :
    ∀ (a : List FieldDef) (s0 s1 : List (String × PyVal)),
    finishFields E env a children s0 = .ok s1 →
    finishFields E env (a ++ b) children s0 = finishFields E env b children s1 := by
  intro a
  induction a with
  | nil => intro s0 s1 h; simp [finishFields] at h; subst h; rfl
  | cons f rest ih =>
    intro s0 s1 h
    rw [List.cons_append, finishFields_cons]
    rw [finishFields_cons] at h
    split at h
    · cases h
    · rename_i v hr
      cases ha : attrSet E env f s0 v with
      | error e => simp [ha] at h
      | ok s => simp only [ha] at h ⊢; exact ih s s1 h
    · split at h
      · rename_i hd
        simp only [hd, if_true]
        cases ha : attrSet E env f s0 (getDefault f.ty) with
        | error e => simp [ha] at h
        | ok s => simp only [ha] at h ⊢; exact ih s s1 h
      · rename_i hd
        simp only [hd]
        exact ih s0 s1 h

/-! ### Nullable fields: explicit `null` and absence -/

theorem validate_nullable_none (E : Ext) (env : Env) (t : PTy) (h : t.flags.nullable = true) :
    validate E env t .none = .ok .none := by
  unfold validate; simp [h]

theorem decode_nullable_null (E : Ext) (env : Env) (perms : List String) (strict : Bool) (t : PTy)
    (h : t.flags.nullable = true) : decode E env perms strict t .null = .ok .none := by
  unfold decode; simp [h]

theorem getDefault_nullable (t : PTy) (h : t.flags.nullable = true) : getDefault t = .none := by
  simp [getDefault, h]

theorem hasDefault_nullable (env : Env) (t : PTy) (h : t.flags.nullable = true) : hasDefault env t = true := by
  simp [hasDefault, h]

theorem childLookup_append (k : String) (a b : List (String × R PyVal)) :
    childLookup k (a ++ b) = match childLookup k a with
      | some r => some r
      | none => childLookup k b := by
  induction a with
  | nil => simp [childLookup]
  | cons kv rest ih =>
    obtain ⟨k', r⟩ := kv
    simp only [List.cons_append, childLookup]
    split
    · rfl
    · exact ih

theorem decodeMembers_append (E : Ext) (env : Env) (perms : List String) (strict : Bool)
    (tbl : List (String × PTy)) (a b : List (String × JVal)) :
    decodeMembers E env perms strict tbl (a ++ b) =
      decodeMembers E env perms strict tbl a ++ decodeMembers E env perms strict tbl b := by
  induction a with
  | nil => simp [decodeMembers]
  | cons kv rest ih =>
    obtain ⟨k, x⟩ := kv
    simp only [List.cons_append, decodeMembers]
    split
    · simp [ih]
    · exact ih

/-- An explicit `null` member for a field whose validator is nullable is handled by the table loop exactly
like an absent member. -/
theorem finishFields_null_eq_absent (E : Ext) (env : Env) (c1 c2 : List (String × R PyVal)) :
    ∀ (fields : List FieldDef) (slots : List (String × PyVal)),
    (∀ g ∈ fields, childLookup g.name c1 = childLookup g.name c2 ∨
      (g.ty.flags.nullable = true ∧ childLookup g.name c1 = some (.ok .none) ∧ childLookup g.name c2 = none)) →
    finishFields E env fields c1 slots = finishFields E env fields c2 slots := by
  intro fields
  induction fields with
  | nil => intro slots _; simp [finishFields]
  | cons f rest ih =>
    intro slots h
    have hrest := fun g hg => h g (List.mem_cons_of_mem _ hg)
    rw [finishFields_cons, finishFields_cons]
    rcases h f List.mem_cons_self with heq | ⟨hn, h1, h2⟩
    · rw [heq]
      cases childLookup f.name c2 with
      | none =>
        simp only []
        split
        · cases attrSet E env f slots (getDefault f.ty) with
          | error e => rfl
          | ok s => exact ih s hrest
        · exact ih slots hrest
      | some r =>
        cases r with
        | error e => rfl
        | ok v =>
          simp only []
          cases attrSet E env f slots v with
          | error e => rfl
          | ok s => exact ih s hrest
    · rw [h1, h2]
      simp only [hasDefault_nullable env f.ty hn, getDefault_nullable f.ty hn, if_true]
      cases attrSet E env f slots .none with
      | error e => rfl
      | ok s => exact ih s hrest

theorem memberTable_struct (env : Env) (perms : List String) (strict : Bool) (fl : Flags) (cls : String)
    (s : StructDef) (kvs : List (String × JVal)) (hs : env.struct? cls = some s) :
    memberTable env perms strict (.struct fl cls) kvs = (s.fieldsFor perms).map fun f => (f.name, f.ty) := by
  simp [memberTable, hs]

theorem find_table_of_mem (fields : List FieldDef) (n : String) (f : FieldDef) (hf : f ∈ fields) (hn : f.name = n) :
    ∃ g ∈ fields, g.name = n ∧ (fields.map fun f => (f.name, f.ty)).find? (·.1 == n) = some (g.name, g.ty) := by
  induction fields with
  | nil => cases hf
  | cons a rest ih =>
    by_cases ha : a.name = n
    · exact ⟨a, List.mem_cons_self, ha, by simp [ha]⟩
    · rcases List.mem_cons.mp hf with rfl | hf'
      · exact absurd hn ha
      · obtain ⟨g, hg, hgn, hfind⟩ := ih hf'
        refine ⟨g, List.mem_cons_of_mem _ hg, hgn, ?_⟩
        simp [ha, hfind]

theorem jsonLookup_none_of_not_mem (k : String) (kvs : List (String × JVal))
    (h : ∀ x, (k, x) ∉ kvs) : jsonLookup k kvs = none := by
  induction kvs with
  | nil => rfl
  | cons kv rest ih =>
    obtain ⟨k', x⟩ := kv
    simp only [jsonLookup]
    split
    · rename_i hk
      have : k' = k := by simpa using hk
      subst this
      exact absurd List.mem_cons_self (h x)
    · exact ih fun x hx => h x (List.mem_cons_of_mem _ hx)

/-- json_serializer.rst: "an explicit null for a nullable field is the same as leaving the field out". -/
theorem decode_struct_null_member (E : Ext) (env : Env) (perms : List String) (strict : Bool)
    (fl : Flags) (cls : String) (s : StructDef) (pre post : List (String × JVal)) (f : FieldDef)
    (hs : env.struct? cls = some s) (hf : f ∈ s.fieldsFor perms)
    (hnull : ∀ g ∈ s.fieldsFor perms, g.name = f.name → g.ty.flags.nullable = true)
    (hpost : jsonLookup f.name post = none) :
    decode E env perms strict (.struct fl cls) (.obj (pre ++ (f.name, .null) :: post)) =
    decode E env perms strict (.struct fl cls) (.obj (pre ++ post)) := by
  rw [decode_struct_obj, decode_struct_obj, memberTable_struct _ _ _ _ _ s _ hs, memberTable_struct _ _ _ _ _ s _ hs]
  unfold finishStruct
  simp only [hs]
  have hknown : ((s.fieldsFor perms).map (·.name)).contains f.name = true := by
    simp only [List.contains_eq_mem, List.mem_map, decide_eq_true_eq]
    exact ⟨f, hf, rfl⟩
  have hany : ∀ (p : String × JVal → Bool), p (f.name, .null) = false →
      (pre ++ (f.name, JVal.null) :: post).any p = (pre ++ post).any p := by
    intro p hp
    simp [List.any_append, List.any_cons, hp]
  rw [hany _ (by
    show (!((s.fieldsFor perms).map (·.name)).contains f.name && !f.name.startsWith ".tag") = false
    rw [hknown]; rfl)]
  obtain ⟨g, hg, hgn, hfind⟩ := find_table_of_mem _ f.name f hf rfl
  have hgnull := hnull g hg hgn
  have hfin : ∀ slots, finishFields E env (s.fieldsFor perms)
      (decodeMembers E env perms strict ((s.fieldsFor perms).map fun f => (f.name, f.ty)) (pre ++ (f.name, .null) :: post)) slots =
      finishFields E env (s.fieldsFor perms)
      (decodeMembers E env perms strict ((s.fieldsFor perms).map fun f => (f.name, f.ty)) (pre ++ post)) slots := by
    intro slots
    apply finishFields_null_eq_absent
    intro h hh
    rw [decodeMembers_append, decodeMembers_append, childLookup_append, childLookup_append]
    cases hA : childLookup h.name (decodeMembers E env perms strict _ pre) with
    | some r => left; rfl
    | none =>
      simp only [decodeMembers, hfind, childLookup]
      by_cases hhn : h.name = f.name
      · right
        refine ⟨hnull h hh hhn, ?_, ?_⟩
        · simp [hhn, decode_nullable_null E env perms strict g.ty hgnull]
        · rw [hhn]; exact childLookup_decodeMembers_none E env perms strict _ _ _ hpost
      · left
        have : (f.name == h.name) = false := by simpa using fun h' => hhn h'.symm
        simp [this]
  simp only [hfin]

/-! ### Optional fields -/

theorem lookupSlot_setSlot_self (k : String) (x : PyVal) (slots : List (String × PyVal)) :
    lookupSlot k (setSlot k x slots) = some x := by
  induction slots with
  | nil => simp [setSlot, lookupSlot]
  | cons kv rest ih =>
    obtain ⟨k', w⟩ := kv
    simp only [setSlot]
    split
    · rename_i hk; simp [lookupSlot, hk]
    · rename_i hk; simp only [lookupSlot, hk]; exact ih

theorem lookupSlot_delSlot_ne (n k : String) (slots : List (String × PyVal)) (h : k ≠ n) :
    lookupSlot n (delSlot k slots) = lookupSlot n slots := by
  induction slots with
  | nil => simp [delSlot, lookupSlot]
  | cons kv rest ih =>
    obtain ⟨k', w⟩ := kv
    simp only [delSlot]
    split
    · rename_i hk
      have : k' = k := by simpa using hk
      subst this
      have : (k' == n) = false := by simpa using h
      simp [lookupSlot, this]
    · simp only [lookupSlot]
      split
      · rfl
      · exact ih

theorem attrSet_lookup_ne (E : Ext) (env : Env) (f : FieldDef) (n : String) (slots slots' : List (String × PyVal))
    (x : PyVal) (hne : f.name ≠ n) (hs : attrSet E env f slots x = .ok slots') :
    lookupSlot n slots' = lookupSlot n slots := by
  rcases attrSet_ok E env f slots slots' x hs with ⟨_, _, rfl⟩ | ⟨_, _, rfl⟩ | ⟨_, x', _, rfl⟩
  · exact lookupSlot_delSlot_ne _ _ _ hne
  · exact lookupSlot_setSlot_ne _ _ _ _ hne
  · exact lookupSlot_setSlot_ne _ _ _ _ hne

/-- assigning None to a field whose validator is nullable always succeeds and leaves the field readable -/
theorem attrSet_none_nullable (E : Ext) (env : Env) (f : FieldDef) (slots : List (String × PyVal))
    (hn : f.ty.flags.nullable = true) :
    ∃ s', attrSet E env f slots .none = .ok s' ∧ attrHas f s' = true := by
  rw [attrSet_eq]
  by_cases h1 : f.attrNullable = true
  · refine ⟨delSlot f.name slots, by simp [h1, isNoneV], ?_⟩
    simp only [attrHas, attrGet]
    cases lookupSlot f.name (delSlot f.name slots) <;> simp [h1]
  · by_cases h2 : f.attrUserDefined = true
    · refine ⟨setSlot f.name .none slots, ?_, ?_⟩
      · simp [h1, h2, validateTypeOnly, hn, Except.map]
      · simp [attrHas, attrGet, lookupSlot_setSlot_self]
    · refine ⟨setSlot f.name .none slots, ?_, ?_⟩
      · simp [h1, h2, validate_nullable_none E env f.ty hn, Except.map]
      · simp [attrHas, attrGet, lookupSlot_setSlot_self]

theorem attrHas_congr (f : FieldDef) (s1 s2 : List (String × PyVal)) (h : lookupSlot f.name s1 = lookupSlot f.name s2) :
    attrHas f s1 = attrHas f s2 := by
  simp [attrHas, attrGet, h]

/-- the table loop over optional fields with no member present: succeeds, every field readable -/
theorem finishFields_all_optional (E : Ext) (env : Env) :
    ∀ (fields : List FieldDef) (slots : List (String × PyVal)),
    nodupS (fields.map (·.name)) = true → (∀ f ∈ fields, f.optional env = true) →
    ∃ slots', finishFields E env fields [] slots = .ok slots' ∧ (∀ f ∈ fields, attrHas f slots' = true) ∧
      (∀ n, n ∉ fields.map (·.name) → lookupSlot n slots' = lookupSlot n slots) := by
  intro fields
  induction fields with
  | nil => intro slots _ _; exact ⟨slots, rfl, by simp, by simp⟩
  | cons f rest ih =>
    intro slots hnd hopt
    simp only [List.map, nodupS, Bool.and_eq_true, Bool.not_eq_true', List.contains_eq_mem,
      decide_eq_false_iff_not] at hnd
    obtain ⟨hfn, hnd'⟩ := hnd
    have hopt' := fun g hg => hopt g (List.mem_cons_of_mem _ hg)
    have hof := hopt f List.mem_cons_self
    -- state after the step for `f`
    have step : ∃ s1, finishFields E env (f :: rest) [] slots = finishFields E env rest [] s1 ∧
        attrHas f s1 = true ∧ (∀ n, n ≠ f.name → lookupSlot n s1 = lookupSlot n slots) := by
      rw [finishFields_cons]
      simp only [childLookup]
      simp only [FieldDef.optional, Bool.or_eq_true, Bool.and_eq_true, Bool.not_eq_true'] at hof
      by_cases hn : f.ty.flags.nullable = true
      · obtain ⟨s1, hs1, hh⟩ := attrSet_none_nullable E env f slots hn
        refine ⟨s1, ?_, hh, fun n hne => attrSet_lookup_ne E env f n slots s1 .none (Ne.symm hne) hs1⟩
        simp [hasDefault_nullable env f.ty hn, getDefault_nullable f.ty hn, hs1]
      · rcases hof with hn' | ⟨hd, hnd⟩
        · exact absurd hn' hn
        · refine ⟨slots, by simp [hnd], ?_, fun _ _ => rfl⟩
          simp only [attrHas, attrGet]
          cases lookupSlot f.name slots with
          | some v => rfl
          | none => cases f.attrNullable <;> simp [hd]
    obtain ⟨s1, heq, hh, hpres⟩ := step
    rw [heq]
    obtain ⟨slots', hfin, hall, hkeep⟩ := ih s1 hnd' hopt'
    refine ⟨slots', hfin, ?_, ?_⟩
    · intro g hg
      rcases List.mem_cons.mp hg with rfl | hg'
      · rw [attrHas_congr g slots' s1 (hkeep g.name hfn)]; exact hh
      · exact hall g hg'
    · intro n hn
      simp only [List.map, List.mem_cons, not_or] at hn
      rw [hkeep n hn.2, hpres n hn.1]

end StoneVerif.Rt
