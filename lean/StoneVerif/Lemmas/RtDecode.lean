import StoneVerif.Model.Rt.SpecC06
/-! Helper lemmas about the RT decoder (`Model/Rt/Decode.lean`) used by the C06 property theorems. -/
namespace StoneVerif.Rt.DecL

/-! ### Small facts about the result type -/

theorem R_bind_ok {α β} (x : R α) (f : α → R β) (a : α) (h : x = .ok a) : (x >>= f) = f a := by
  subst h; rfl

theorem R_bind_error {α β} (x : R α) (f : α → R β) (e : Err) (h : x = .error e) : (x >>= f) = .error e := by
  subst h; rfl

/-! ### Tag tables: a present tag has a value type (`KeyError` is unreachable) -/

theorem valDataType_isSome_of_present (u : UnionDef) (tag : String) (perms : List String)
    (h : u.isTagPresent tag perms = true) : (u.valDataType tag perms).isSome = true := by
  unfold UnionDef.valDataType
  cases hf : perms.findSome? fun p => (u.tagmapAttr (some p)).bind (findTag tag) with
  | some t => simp
  | none =>
    simp only [Option.isSome_map]
    unfold UnionDef.isTagPresent at h
    rw [Bool.or_eq_true] at h
    cases h with
    | inl h => exact h
    | inr h =>
      rw [List.any_eq_true] at h
      obtain ⟨p, hp, hs⟩ := h
      rw [List.findSome?_eq_none_iff] at hf
      have := hf p hp
      rw [this] at hs
      simp at hs

/-! ### Object members -/

theorem childLookup_decodeMembers_none (E : Ext) (env : Env) (perms : List String) (strict : Bool)
    (tbl : List (String × PTy)) (k : String) (kvs : List (String × JVal))
    (h : jsonLookup k kvs = none) :
    childLookup k (decodeMembers E env perms strict tbl kvs) = none := by
  induction kvs with
  | nil => simp [decodeMembers, childLookup]
  | cons kv rest ih =>
    obtain ⟨k', x⟩ := kv
    simp only [jsonLookup] at h
    split at h
    · cases h
    · rename_i hk
      simp only [decodeMembers]
      split
      · simp only [childLookup, hk]
        exact ih h
      · exact ih h

/-! ### `attrSet`, slots, `finishFields` -/

theorem R_bind_pure {α β} (a : R α) (g : α → β) : (a >>= fun x => pure (g x)) = a.map g := by
  cases a <;> rfl

theorem attrSet_eq (E : Ext) (env : Env) (f : FieldDef) (slots : List (String × PyVal)) (x : PyVal) :
    attrSet E env f slots x =
      if f.attrNullable && isNoneV x then .ok (delSlot f.name slots)
      else if f.attrUserDefined then (validateTypeOnly env f.ty x).map fun _ => setSlot f.name x slots
      else (validate E env f.ty x).map fun x' => setSlot f.name x' slots := by
  cases x <;> simp only [attrSet, isNoneV, R_bind_pure] <;> rfl

/-- the three ways `Attribute.__set__` succeeds -/
theorem attrSet_ok (E : Ext) (env : Env) (f : FieldDef) (slots slots' : List (String × PyVal)) (x : PyVal)
    (h : attrSet E env f slots x = .ok slots') :
    (f.attrNullable = true ∧ x = .none ∧ slots' = delSlot f.name slots) ∨
    (f.attrUserDefined = true ∧ validateTypeOnly env f.ty x = .ok () ∧ slots' = setSlot f.name x slots) ∨
    (f.attrUserDefined = false ∧ ∃ x', validate E env f.ty x = .ok x' ∧ slots' = setSlot f.name x' slots) := by
  rw [attrSet_eq] at h
  split at h
  · rename_i hc
    rw [Bool.and_eq_true] at hc
    left
    refine ⟨hc.1, ?_, ?_⟩
    · cases x <;> simp_all [isNoneV]
    · cases h; rfl
  · split at h
    · rename_i hu
      right; left
      cases hv : validateTypeOnly env f.ty x with
      | error e => simp [hv, Except.map] at h
      | ok u => simp [hv, Except.map] at h; exact ⟨hu, rfl, h.symm⟩
    · rename_i hu
      right; right
      cases hv : validate E env f.ty x with
      | error e => simp [hv, Except.map] at h
      | ok x' => simp [hv, Except.map] at h; exact ⟨by simpa using hu, x', rfl, h.symm⟩

theorem lookupSlot_setSlot_ne (n k : String) (x : PyVal) (slots : List (String × PyVal)) (h : k ≠ n) :
    lookupSlot n (setSlot k x slots) = lookupSlot n slots := by
  induction slots with
  | nil => simp [setSlot, lookupSlot, h]
  | cons kv rest ih =>
    obtain ⟨k', w⟩ := kv
    simp only [setSlot]
    split
    · rename_i hk
      have : k' = k := by simpa using hk
      subst this
      simp [lookupSlot, h]
    · simp only [lookupSlot]
      split
      · rfl
      · exact ih

theorem lookupSlot_delSlot_none (n k : String) (slots : List (String × PyVal)) 
    (h : lookupSlot n slots = none) : lookupSlot n (delSlot k slots) = none := by
  induction slots with
  | nil => simp [delSlot, lookupSlot]
  | cons kv rest ih =>
    obtain ⟨k', w⟩ := kv
    simp only [lookupSlot] at h
    split at h
    · cases h
    · rename_i hk
      simp only [delSlot]
      split
      · exact h
      · simp only [lookupSlot, hk]
        exact ih h

theorem attrSet_slot_none (E : Ext) (env : Env) (f : FieldDef) (n : String) (slots slots' : List (String × PyVal)) (x : PyVal)
    (hne : f.name ≠ n) (h : lookupSlot n slots = none) (hs : attrSet E env f slots x = .ok slots') :
    lookupSlot n slots' = none := by
  rcases attrSet_ok E env f slots slots' x hs with ⟨_, _, rfl⟩ | ⟨_, _, rfl⟩ | ⟨_, x', _, rfl⟩
  · exact lookupSlot_delSlot_none _ _ _ h
  · rw [lookupSlot_setSlot_ne _ _ _ _ hne]; exact h
  · rw [lookupSlot_setSlot_ne _ _ _ _ hne]; exact h

/-- one step of the table loop -/
theorem finishFields_cons (E : Ext) (env : Env) (f : FieldDef) (rest : List FieldDef)
    (children : List (String × R PyVal)) (slots : List (String × PyVal)) :
    finishFields E env (f :: rest) children slots =
      match childLookup f.name children with
      | some (.error e) => .error e
      | some (.ok v) => match attrSet E env f slots v with
        | .error e => .error e
        | .ok slots' => finishFields E env rest children slots'
      | none =>
        if hasDefault env f.ty then match attrSet E env f slots (getDefault f.ty) with
          | .error e => .error e
          | .ok slots' => finishFields E env rest children slots'
        else finishFields E env rest children slots := by
  cases hr : childLookup f.name children with
  | none =>
    simp only [finishFields, hr]
    split
    · simp only [bind, Except.bind]; cases attrSet E env f slots (getDefault f.ty) <;> rfl
    · rfl
  | some r =>
    cases r with
    | error e => simp only [finishFields, hr]; rfl
    | ok v =>
      simp only [finishFields, hr, bind, Except.bind]
      cases attrSet E env f slots v <;> rfl

theorem finishFields_slot_none (E : Ext) (env : Env) (n : String) (children : List (String × R PyVal)) :
    ∀ (fields : List FieldDef) (slots slots' : List (String × PyVal)),
    (∀ g ∈ fields, g.name = n → childLookup g.name children = none ∧ hasDefault env g.ty = false) →
    lookupSlot n slots = none →
    finishFields E env fields children slots = .ok slots' → lookupSlot n slots' = none := by
  intro fields
  induction fields with
  | nil => intro slots slots' _ h hf; simp [finishFields] at hf; subst hf; exact h
  | cons f rest ih =>
    intro slots slots' hg h hf
    have hrest : ∀ g ∈ rest, g.name = n → childLookup g.name children = none ∧ hasDefault env g.ty = false :=
      fun g hgm => hg g (List.mem_cons_of_mem _ hgm)
    rw [finishFields_cons] at hf
    by_cases hn : f.name = n
    · obtain ⟨hc, hd⟩ := hg f (List.mem_cons_self) hn
      simp only [hc, hd] at hf
      exact ih slots slots' hrest h hf
    · split at hf
      · cases hf
      · rename_i v hr
        cases ha : attrSet E env f slots v with
        | error e => simp [ha] at hf
        | ok s1 =>
          simp only [ha] at hf
          exact ih s1 slots' hrest (attrSet_slot_none E env f n slots s1 v hn h ha) hf
      · split at hf
        · cases ha : attrSet E env f slots (getDefault f.ty) with
          | error e => simp [ha] at hf
          | ok s1 =>
            simp only [ha] at hf
            exact ih s1 slots' hrest (attrSet_slot_none E env f n slots s1 _ hn h ha) hf
        · exact ih slots slots' hrest h hf

theorem nodupS_names_unique {α} (name : α → String) :
    ∀ (l : List α), nodupS (l.map name) = true → ∀ f g, f ∈ l → g ∈ l → name f = name g → f = g := by
  intro l
  induction l with
  | nil => intro _ f g hf; cases hf
  | cons a l ih =>
    intro h f g hf hg hn
    simp only [List.map, nodupS, Bool.and_eq_true, Bool.not_eq_true', List.contains_eq_mem,
      decide_eq_false_iff_not, List.mem_map, not_exists, not_and] at h
    obtain ⟨h1, h2⟩ := h
    rcases List.mem_cons.mp hf with rfl | hf'
    · rcases List.mem_cons.mp hg with rfl | hg'
      · rfl
      · exact absurd hn.symm (h1 g hg')
    · rcases List.mem_cons.mp hg with rfl | hg'
      · exact absurd hn (h1 f hf')
      · exact ih h2 f g hf' hg' hn

theorem decode_struct_obj (E : Ext) (env : Env) (perms : List String) (strict : Bool) (fl : Flags)
    (cls : String) (kvs : List (String × JVal)) :
    decode E env perms strict (.struct fl cls) (.obj kvs) =
      finishStruct E env perms strict cls kvs
        (decodeMembers E env perms strict (memberTable env perms strict (.struct fl cls) kvs) kvs) := by
  unfold decode; simp

theorem finishFields_append_ok (E : Ext) (env : Env) (children : List (String × R PyVal)) (b : List FieldDef) :
    ∀ (a : List FieldDef) (s0 s1 : List (String × PyVal)),
    finishFields E env a children s0 = .ok s1 →
    finishFields E env (a ++ b) children s0 = finishFields E env b children s1 := by
  intro a
  induction a with
  | nil => intro s0 s1 h; simp [finishFields] at h; subst h; rfl
  | cons f rest ih =>
    intro s0 s1 h
    rw [List.cons_append, finishFields_cons]
    rw [finishFields_cons] at h
    split at h
    · cases h
    · rename_i v hr
      cases ha : attrSet E env f s0 v with
      | error e => simp [ha] at h
      | ok s => simp only [ha] at h ⊢; exact ih s s1 h
    · split at h
      · rename_i hd
        simp only [hd, if_true]
        cases ha : attrSet E env f s0 (getDefault f.ty) with
        | error e => simp [ha] at h
        | ok s => simp only [ha] at h ⊢; exact ih s s1 h
      · rename_i hd
        simp only [hd]
        exact ih s0 s1 h

/-! ### Nullable fields: explicit `null` and absence -/

theorem validate_nullable_none (E : Ext) (env : Env) (t : PTy) (h : t.flags.nullable = true) :
    validate E env t .none = .ok .none := by
  unfold validate; simp [h]

theorem decode_nullable_null (E : Ext) (env : Env) (perms : List String) (strict : Bool) (t : PTy)
    (h : t.flags.nullable = true) : decode E env perms strict t .null = .ok .none := by
  unfold decode; simp [h]

theorem getDefault_nullable (t : PTy) (h : t.flags.nullable = true) : getDefault t = .none := by
  simp [getDefault, h]

theorem hasDefault_nullable (env : Env) (t : PTy) (h : t.flags.nullable = true) : hasDefault env t = true := by
  simp [hasDefault, h]

theorem childLookup_append (k : String) (a b : List (String × R PyVal)) :
    childLookup k (a ++ b) = match childLookup k a with
      | some r => some r
      | none => childLookup k b := by
  induction a with
  | nil => simp [childLookup]
  | cons kv rest ih =>
    obtain ⟨k', r⟩ := kv
    simp only [List.cons_append, childLookup]
    split
    · rfl
    · exact ih

theorem decodeMembers_append (E : Ext) (env : Env) (perms : List String) (strict : Bool)
    (tbl : List (String × PTy)) (a b : List (String × JVal)) :
    decodeMembers E env perms strict tbl (a ++ b) =
      decodeMembers E env perms strict tbl a ++ decodeMembers E env perms strict tbl b := by
  induction a with
  | nil => simp [decodeMembers]
  | cons kv rest ih =>
    obtain ⟨k, x⟩ := kv
    simp only [List.cons_append, decodeMembers]
    split
    · simp [ih]
    · exact ih

/-- An explicit `null` member for a field whose validator is nullable is handled by the table loop exactly
like an absent member. -/
theorem finishFields_null_eq_absent (E : Ext) (env : Env) (c1 c2 : List (String × R PyVal)) :
    ∀ (fields : List FieldDef) (slots : List (String × PyVal)),
    (∀ g ∈ fields, childLookup g.name c1 = childLookup g.name c2 ∨
      (g.ty.flags.nullable = true ∧ childLookup g.name c1 = some (.ok .none) ∧ childLookup g.name c2 = none)) →
    finishFields E env fields c1 slots = finishFields E env fields c2 slots := by
  intro fields
  induction fields with
  | nil => intro slots _; simp [finishFields]
  | cons f rest ih =>
    intro slots h
    have hrest := fun g hg => h g (List.mem_cons_of_mem _ hg)
    rw [finishFields_cons, finishFields_cons]
    rcases h f List.mem_cons_self with heq | ⟨hn, h1, h2⟩
    · rw [heq]
      cases childLookup f.name c2 with
      | none =>
        simp only []
        split
        · cases attrSet E env f slots (getDefault f.ty) with
          | error e => rfl
          | ok s => exact ih s hrest
        · exact ih slots hrest
      | some r =>
        cases r with
        | error e => rfl
        | ok v =>
          simp only []
          cases attrSet E env f slots v with
          | error e => rfl
          | ok s => exact ih s hrest
    · rw [h1, h2]
      simp only [hasDefault_nullable env f.ty hn, getDefault_nullable f.ty hn, if_true]
      cases attrSet E env f slots .none with
      | error e => rfl
      | ok s => exact ih s hrest

theorem memberTable_struct (env : Env) (perms : List String) (strict : Bool) (fl : Flags) (cls : String)
    (s : StructDef) (kvs : List (String × JVal)) (hs : env.struct? cls = some s) :
    memberTable env perms strict (.struct fl cls) kvs = (s.fieldsFor perms).map fun f => (f.name, f.ty) := by
  simp [memberTable, hs]

theorem find_table_of_mem (fields : List FieldDef) (n : String) (f : FieldDef) (hf : f ∈ fields) (hn : f.name = n) :
    ∃ g ∈ fields, g.name = n ∧ (fields.map fun f => (f.name, f.ty)).find? (·.1 == n) = some (g.name, g.ty) := by
  induction fields with
  | nil => cases hf
  | cons a rest ih =>
    by_cases ha : a.name = n
    · exact ⟨a, List.mem_cons_self, ha, by simp [ha]⟩
    · rcases List.mem_cons.mp hf with rfl | hf'
      · exact absurd hn ha
      · obtain ⟨g, hg, hgn, hfind⟩ := ih hf'
        refine ⟨g, List.mem_cons_of_mem _ hg, hgn, ?_⟩
        simp [ha, hfind]

theorem jsonLookup_none_of_not_mem (k : String) (kvs : List (String × JVal))
    (h : ∀ x, (k, x) ∉ kvs) : jsonLookup k kvs = none := by
  induction kvs with
  | nil => rfl
  | cons kv rest ih =>
    obtain ⟨k', x⟩ := kv
    simp only [jsonLookup]
    split
    · rename_i hk
      have : k' = k := by simpa using hk
      subst this
      exact absurd List.mem_cons_self (h x)
    · exact ih fun x hx => h x (List.mem_cons_of_mem _ hx)

/-- json_serializer.rst: "an explicit null for a nullable field is the same as leaving the field out". -/
theorem decode_struct_null_member (E : Ext) (env : Env) (perms : List String) (strict : Bool)
    (fl : Flags) (cls : String) (s : StructDef) (pre post : List (String × JVal)) (f : FieldDef)
    (hs : env.struct? cls = some s) (hf : f ∈ s.fieldsFor perms)
    (hnull : ∀ g ∈ s.fieldsFor perms, g.name = f.name → g.ty.flags.nullable = true)
    (hpost : jsonLookup f.name post = none) :
    decode E env perms strict (.struct fl cls) (.obj (pre ++ (f.name, .null) :: post)) =
    decode E env perms strict (.struct fl cls) (.obj (pre ++ post)) := by
  rw [decode_struct_obj, decode_struct_obj, memberTable_struct _ _ _ _ _ s _ hs, memberTable_struct _ _ _ _ _ s _ hs]
  unfold finishStruct
  simp only [hs]
  have hknown : ((s.fieldsFor perms).map (·.name)).contains f.name = true := by
    simp only [List.contains_eq_mem, List.mem_map, decide_eq_true_eq]
    exact ⟨f, hf, rfl⟩
  have hany : ∀ (p : String × JVal → Bool), p (f.name, .null) = false →
      (pre ++ (f.name, JVal.null) :: post).any p = (pre ++ post).any p := by
    intro p hp
    simp [List.any_append, List.any_cons, hp]
  rw [hany _ (by
    show (!((s.fieldsFor perms).map (·.name)).contains f.name && !f.name.startsWith ".tag") = false
    rw [hknown]; rfl)]
  obtain ⟨g, hg, hgn, hfind⟩ := find_table_of_mem _ f.name f hf rfl
  have hgnull := hnull g hg hgn
  have hfin : ∀ slots, finishFields E env (s.fieldsFor perms)
      (decodeMembers E env perms strict ((s.fieldsFor perms).map fun f => (f.name, f.ty)) (pre ++ (f.name, .null) :: post)) slots =
      finishFields E env (s.fieldsFor perms)
      (decodeMembers E env perms strict ((s.fieldsFor perms).map fun f => (f.name, f.ty)) (pre ++ post)) slots := by
    intro slots
    apply finishFields_null_eq_absent
    intro h hh
    rw [decodeMembers_append, decodeMembers_append, childLookup_append, childLookup_append]
    cases hA : childLookup h.name (decodeMembers E env perms strict _ pre) with
    | some r => left; rfl
    | none =>
      simp only [decodeMembers, hfind, childLookup]
      by_cases hhn : h.name = f.name
      · right
        refine ⟨hnull h hh hhn, ?_, ?_⟩
        · simp [hhn, decode_nullable_null E env perms strict g.ty hgnull]
        · rw [hhn]; exact childLookup_decodeMembers_none E env perms strict _ _ _ hpost
      · left
        have : (f.name == h.name) = false := by simpa using fun h' => hhn h'.symm
        simp [this]
  simp only [hfin]

/-! ### Optional fields -/

theorem lookupSlot_setSlot_self (k : String) (x : PyVal) (slots : List (String × PyVal)) :
    lookupSlot k (setSlot k x slots) = some x := by
  induction slots with
  | nil => simp [setSlot, lookupSlot]
  | cons kv rest ih =>
    obtain ⟨k', w⟩ := kv
    simp only [setSlot]
    split
    · rename_i hk; simp [lookupSlot, hk]
    · rename_i hk; simp only [lookupSlot, hk]; exact ih

theorem lookupSlot_delSlot_ne (n k : String) (slots : List (String × PyVal)) (h : k ≠ n) :
    lookupSlot n (delSlot k slots) = lookupSlot n slots := by
  induction slots with
  | nil => simp [delSlot, lookupSlot]
  | cons kv rest ih =>
    obtain ⟨k', w⟩ := kv
    simp only [delSlot]
    split
    · rename_i hk
      have : k' = k := by simpa using hk
      subst this
      have : (k' == n) = false := by simpa using h
      simp [lookupSlot, this]
    · simp only [lookupSlot]
      split
      · rfl
      · exact ih

theorem attrSet_lookup_ne (E : Ext) (env : Env) (f : FieldDef) (n : String) (slots slots' : List (String × PyVal))
    (x : PyVal) (hne : f.name ≠ n) (hs : attrSet E env f slots x = .ok slots') :
    lookupSlot n slots' = lookupSlot n slots := by
  rcases attrSet_ok E env f slots slots' x hs with ⟨_, _, rfl⟩ | ⟨_, _, rfl⟩ | ⟨_, x', _, rfl⟩
  · exact lookupSlot_delSlot_ne _ _ _ hne
  · exact lookupSlot_setSlot_ne _ _ _ _ hne
  · exact lookupSlot_setSlot_ne _ _ _ _ hne

/-- assigning None to a field whose validator is nullable always succeeds and leaves the field readable -/
theorem attrSet_none_nullable (E : Ext) (env : Env) (f : FieldDef) (slots : List (String × PyVal))
    (hn : f.ty.flags.nullable = true) :
    ∃ s', attrSet E env f slots .none = .ok s' ∧ attrHas f s' = true := by
  rw [attrSet_eq]
  by_cases h1 : f.attrNullable = true
  · refine ⟨delSlot f.name slots, by simp [h1, isNoneV], ?_⟩
    simp only [attrHas, attrGet]
    cases lookupSlot f.name (delSlot f.name slots) <;> simp [h1]
  · by_cases h2 : f.attrUserDefined = true
    · refine ⟨setSlot f.name .none slots, ?_, ?_⟩
      · simp [h1, h2, validateTypeOnly, hn, Except.map]
      · simp [attrHas, attrGet, lookupSlot_setSlot_self]
    · refine ⟨setSlot f.name .none slots, ?_, ?_⟩
      · simp [h1, h2, validate_nullable_none E env f.ty hn, Except.map]
      · simp [attrHas, attrGet, lookupSlot_setSlot_self]

theorem attrHas_congr (f : FieldDef) (s1 s2 : List (String × PyVal)) (h : lookupSlot f.name s1 = lookupSlot f.name s2) :
    attrHas f s1 = attrHas f s2 := by
  simp [attrHas, attrGet, h]

/-- the table loop over optional fields with no member present: succeeds, every field readable -/
theorem finishFields_all_optional (E : Ext) (env : Env) :
    ∀ (fields : List FieldDef) (slots : List (String × PyVal)),
    nodupS (fields.map (·.name)) = true → (∀ f ∈ fields, f.optional env = true) →
    ∃ slots', finishFields E env fields [] slots = .ok slots' ∧ (∀ f ∈ fields, attrHas f slots' = true) ∧
      (∀ n, n ∉ fields.map (·.name) → lookupSlot n slots' = lookupSlot n slots) := by
  intro fields
  induction fields with
  | nil => intro slots _ _; exact ⟨slots, rfl, by simp, by simp⟩
  | cons f rest ih =>
    intro slots hnd hopt
    simp only [List.map, nodupS, Bool.and_eq_true, Bool.not_eq_true', List.contains_eq_mem,
      decide_eq_false_iff_not] at hnd
    obtain ⟨hfn, hnd'⟩ := hnd
    have hopt' := fun g hg => hopt g (List.mem_cons_of_mem _ hg)
    have hof := hopt f List.mem_cons_self
    -- state after the step for `f`
    have step : ∃ s1, finishFields E env (f :: rest) [] slots = finishFields E env rest [] s1 ∧
        attrHas f s1 = true ∧ (∀ n, n ≠ f.name → lookupSlot n s1 = lookupSlot n slots) := by
      rw [finishFields_cons]
      simp only [childLookup]
      simp only [FieldDef.optional, Bool.or_eq_true, Bool.and_eq_true, Bool.not_eq_true'] at hof
      by_cases hn : f.ty.flags.nullable = true
      · obtain ⟨s1, hs1, hh⟩ := attrSet_none_nullable E env f slots hn
        refine ⟨s1, ?_, hh, fun n hne => attrSet_lookup_ne E env f n slots s1 .none (Ne.symm hne) hs1⟩
        simp [hasDefault_nullable env f.ty hn, getDefault_nullable f.ty hn, hs1]
      · rcases hof with hn' | ⟨hd, hnd⟩
        · exact absurd hn' hn
        · refine ⟨slots, by simp [hnd], ?_, fun _ _ => rfl⟩
          simp only [attrHas, attrGet]
          cases lookupSlot f.name slots with
          | some v => rfl
          | none => cases f.attrNullable <;> simp [hd]
    obtain ⟨s1, heq, hh, hpres⟩ := step
    rw [heq]
    obtain ⟨slots', hfin, hall, hkeep⟩ := ih s1 hnd' hopt'
    refine ⟨slots', hfin, ?_, ?_⟩
    · intro g hg
      rcases List.mem_cons.mp hg with rfl | hg'
      · rw [attrHas_congr g slots' s1 (hkeep g.name hfn)]; exact hh
      · exact hall g hg'
    · intro n hn
      simp only [List.map, List.mem_cons, not_or] at hn
      rw [hkeep n hn.2, hpres n hn.1]

/-! ### Nothing but the validation error escapes: `validate` -/

/-- nothing but the validation error escapes -/
def NoCrash {α} (r : R α) : Prop := ∀ e, r ≠ .error (.crash e)

theorem NoCrash.ok {α} (a : α) : NoCrash (.ok a : R α) := fun _ h => by cases h
theorem NoCrash.verr {α} (m : String) : NoCrash (verr m : R α) := fun _ h => by cases h
theorem NoCrash.verr' {α} (m : String) : NoCrash (.error (.verr m) : R α) := fun _ h => by cases h

theorem NoCrash.bind {α β : Type} {x : R α} {f : α → R β} (hx : NoCrash x) (hf : ∀ a, x = .ok a → NoCrash (f a)) :
    NoCrash (x >>= f) := by
  cases x with
  | error e => intro e' h; exact hx e' (by cases h; rfl)
  | ok a => exact hf a rfl

theorem NoCrash.map {α β : Type} {x : R α} {f : α → β} (hx : NoCrash x) : NoCrash (x.map f) := by
  cases x with
  | error e => intro e' h; exact hx e' (by cases h; rfl)
  | ok a => exact NoCrash.ok _

theorem validateList_nc (E : Ext) (env : Env) (t : PTy) (ih : ∀ v, NoCrash (validate E env t v)) :
    ∀ xs, NoCrash (validateList E env t xs) := by
  intro xs
  induction xs with
  | nil => exact NoCrash.ok _
  | cons x xs ihx =>
    simp only [validateList]
    exact NoCrash.bind (ih x) fun _ _ => NoCrash.bind ihx fun _ _ => NoCrash.ok _

theorem validateDict_nc (E : Ext) (env : Env) (kt vt : PTy) (ihk : ∀ v, NoCrash (validate E env kt v))
    (ihv : ∀ v, NoCrash (validate E env vt v)) :
    ∀ kvs, NoCrash (validateDict E env kt vt kvs) := by
  intro kvs
  induction kvs with
  | nil => exact NoCrash.ok _
  | cons kv rest ih =>
    obtain ⟨k, x⟩ := kv
    simp only [validateDict]
    exact NoCrash.bind (ihk k) fun _ _ => NoCrash.bind (ihv x) fun _ _ => NoCrash.bind ih fun _ _ => NoCrash.ok _

/-- `validate` raises nothing but `ValidationError` -/
theorem validate_nc (E : Ext) (env : Env) (t : PTy) : ∀ v, NoCrash (validate E env t v) := by
  induction t with
  | list fl item a b ih =>
    intro v; unfold validate
    cases v <;> simp only [] <;> repeat' split
    all_goals first | exact NoCrash.ok _ | exact NoCrash.verr _ | exact NoCrash.map (validateList_nc E env item ih _)
  | map fl kt vt ihk ihv =>
    intro v; unfold validate
    cases v <;> simp only [] <;> repeat' split
    all_goals first | exact NoCrash.ok _ | exact NoCrash.verr _ | exact NoCrash.map (validateDict_nc E env kt vt ihk ihv _)
  | _ =>
    intro v; unfold validate
    cases v <;> simp only [] <;> repeat' split
    all_goals first | exact NoCrash.ok _ | exact NoCrash.verr _

/-! ### Environment and class-table facts -/

theorem struct?_mem (env : Env) (c : String) (s : StructDef) (h : env.struct? c = some s) :
    s ∈ env.structs ∧ s.cls = c := by
  unfold Env.struct? at h
  exact ⟨List.mem_of_find?_eq_some h, by simpa using List.find?_some h⟩

theorem union?_mem (env : Env) (c : String) (u : UnionDef) (h : env.union? c = some u) :
    u ∈ env.unions ∧ u.cls = c := by
  unfold Env.union? at h
  exact ⟨List.mem_of_find?_eq_some h, by simpa using List.find?_some h⟩

theorem envWF_struct (env : Env) (hwf : envWF env = true) (c : String) (s : StructDef)
    (h : env.struct? c = some s) : s.wf env = true := by
  simp only [envWF, Bool.and_eq_true, List.all_eq_true] at hwf
  exact hwf.1.2 s (struct?_mem env c s h).1

theorem envWF_union (env : Env) (hwf : envWF env = true) (c : String) (u : UnionDef)
    (h : env.union? c = some u) : u.wf env = true := by
  simp only [envWF, Bool.and_eq_true, List.all_eq_true] at hwf
  exact hwf.2 u (union?_mem env c u h).1

theorem mem_allFieldsAttrRev (X : Option String) :
    ∀ (ls : List Level) (l : List FieldDef), allFieldsAttrRev X ls = some l →
    ∀ f ∈ l, f ∈ ls.flatMap (·.fields) := by
  intro ls
  induction ls with
  | nil => intro l h; simp [allFieldsAttrRev] at h
  | cons lv parents ih =>
    intro l h f hf
    simp only [allFieldsAttrRev] at h
    split at h
    · split at h
      · cases hp : allFieldsAttrRev X parents with
        | none => simp [hp] at h
        | some lp =>
          simp only [hp, Option.map_some, Option.some.injEq] at h
          subst h
          rw [List.flatMap_cons]
          rcases List.mem_append.mp hf with h1 | h2
          · exact List.mem_append_right _ (ih lp hp f h1)
          · exact List.mem_append_left _ (List.mem_filter.mp h2).1
      · simp only [Option.some.injEq] at h
        subst h
        rw [List.flatMap_cons]
        exact List.mem_append_left _ (List.mem_filter.mp hf).1
    · rw [List.flatMap_cons]
      exact List.mem_append_right _ (ih l h f hf)

theorem mem_allFieldsAttr (s : StructDef) (X : Option String) (f : FieldDef)
    (hf : f ∈ (s.allFieldsAttr X).getD []) : f ∈ s.allAttrs := by
  unfold StructDef.allFieldsAttr at hf
  cases h : allFieldsAttrRev X s.levels.reverse with
  | none => simp [h] at hf
  | some l =>
    simp only [h, Option.getD_some] at hf
    have := mem_allFieldsAttrRev X _ l h f hf
    simp only [StructDef.allAttrs, List.mem_flatMap, List.mem_reverse] at this ⊢
    exact this

theorem fieldsFor_subset (s : StructDef) (perms : List String) (f : FieldDef) (hf : f ∈ s.fieldsFor perms) :
    f ∈ s.allAttrs := by
  unfold StructDef.fieldsFor at hf
  rcases List.mem_append.mp hf with h | h
  · exact mem_allFieldsAttr s none f h
  · obtain ⟨p, _, hp⟩ := List.mem_flatMap.mp h
    exact mem_allFieldsAttr s (some p) f hp

theorem mem_tagmapAttrRev (X : Option String) :
    ∀ (ls : List ULevel) (l : List TagDef), tagmapAttrRev X ls = some l →
    ∀ t ∈ l, t ∈ ls.flatMap (·.tags) := by
  intro ls
  induction ls with
  | nil => intro l h; simp [tagmapAttrRev] at h
  | cons lv parents ih =>
    intro l h f hf
    simp only [tagmapAttrRev] at h
    split at h
    · split at h
      · cases hp : tagmapAttrRev X parents with
        | none => simp [hp] at h
        | some lp =>
          simp only [hp, Option.map_some, Option.some.injEq] at h
          subst h
          rw [List.flatMap_cons]
          rcases List.mem_append.mp hf with h1 | h2
          · exact List.mem_append_left _ (List.mem_filter.mp h1).1
          · exact List.mem_append_right _ (ih lp hp f h2)
      · simp only [Option.some.injEq] at h
        subst h
        rw [List.flatMap_cons]
        exact List.mem_append_left _ (List.mem_filter.mp hf).1
    · rw [List.flatMap_cons]
      exact List.mem_append_right _ (ih l h f hf)

theorem findTag_mem (n : String) : ∀ (l : List TagDef) (t : TagDef), findTag n l = some t → t ∈ l ∧ t.name = n := by
  intro l
  induction l with
  | nil => intro t h; simp [findTag] at h
  | cons a rest ih =>
    intro t h
    simp only [findTag] at h
    split at h
    · rename_i hn
      cases h
      exact ⟨List.mem_cons_self, by simpa using hn⟩
    · obtain ⟨h1, h2⟩ := ih t h
      exact ⟨List.mem_cons_of_mem _ h1, h2⟩

theorem tagmapAttr_findTag_mem (u : UnionDef) (X : Option String) (tag : String) (t : TagDef)
    (h : (u.tagmapAttr X).bind (findTag tag) = some t) : t ∈ u.levels.flatMap (·.tags) ∧ t.name = tag := by
  unfold UnionDef.tagmapAttr at h
  cases hm : tagmapAttrRev X u.levels.reverse with
  | none => simp [hm] at h
  | some l =>
    simp only [hm, Option.bind_some] at h
    obtain ⟨h1, h2⟩ := findTag_mem tag l t h
    have := mem_tagmapAttrRev X _ l hm t h1
    simp only [List.mem_flatMap, List.mem_reverse] at this ⊢
    exact ⟨this, h2⟩

/-- the value type `_get_val_data_type` returns belongs to a declared tag of that name -/
theorem valDataType_mem (u : UnionDef) (tag : String) (perms : List String) (ft : PTy)
    (h : u.valDataType tag perms = some ft) :
    ∃ t ∈ u.levels.flatMap (·.tags), t.name = tag ∧ t.ty = ft := by
  unfold UnionDef.valDataType at h
  split at h
  · rename_i t ht
    obtain ⟨p, _, hp⟩ := List.exists_of_findSome?_eq_some ht
    obtain ⟨h1, h2⟩ := tagmapAttr_findTag_mem u (some p) tag t hp
    exact ⟨t, h1, h2, by simpa using h⟩
  · cases hn : (u.tagmapAttr none).bind (findTag tag) with
    | none => simp [hn] at h
    | some t =>
      simp only [hn, Option.map_some, Option.some.injEq] at h
      obtain ⟨h1, h2⟩ := tagmapAttr_findTag_mem u none tag t hn
      exact ⟨t, h1, h2, h⟩


theorem StructDef.wf_parts (env : Env) (s : StructDef) (h : s.wf env = true) :
    (match s.levels.getLast? with | some l => l.cls == s.cls | none => false) = true ∧
    nodupS (s.allAttrs.map (·.name)) = true ∧
    (∀ f ∈ s.allAttrs, (!f.name.startsWith ".") = true ∧ (f.name != "") = true) ∧
    (∀ f ∈ s.allAttrs, tyWF env f.ty = true ∧ (match f.ty with | .void _ => true | _ => false) = false) ∧
    (∀ l ∈ s.levels, ∃ a, env.struct? l.cls = some a ∧ levelsPrefix a.levels s.levels = true ∧
        a.levels.length ≤ s.levels.length) ∧
    (∀ subs, s.subtypes = some subs →
      nodupS (subs.map fun (_, c, _) => c) = true ∧
      (∀ e ∈ subs, e.1.isEmpty = false ∧ e.2.1 ≠ s.cls ∧ ∃ d, env.struct? e.2.1 = some d ∧
        levelsPrefix s.levels d.levels = true ∧ d.subtypes.isSome = e.2.2) ∧
      nodupS (subs.map fun (tags, _, _) => String.intercalate "\x00" tags) = true) := by
  simp only [StructDef.wf, Bool.and_eq_true, List.all_eq_true] at h
  obtain ⟨⟨⟨⟨⟨h1, h2⟩, h3⟩, h4⟩, h5⟩, h6⟩ := h
  refine ⟨h1, h2, h3, ?_, ?_, ?_⟩
  · intro f hf
    have := h4 f hf
    simp only [Bool.not_eq_true'] at this
    exact this
  · intro l hl
    have := h5 l hl
    cases ha : env.struct? l.cls with
    | none => simp [ha] at this
    | some a =>
      simp only [ha, Bool.and_eq_true, decide_eq_true_eq] at this
      exact ⟨a, rfl, this.1, this.2⟩
  · intro subs hs
    simp only [hs, Bool.and_eq_true, List.all_eq_true] at h6
    obtain ⟨⟨g1, g2⟩, g3⟩ := h6
    refine ⟨g1, ?_, g3⟩
    intro e he
    obtain ⟨tags, c, isTree⟩ := e
    have := g2 _ he
    simp only [Bool.not_eq_true', bne_iff_ne, ne_eq] at this
    obtain ⟨⟨g4, g5⟩, g6⟩ := this
    refine ⟨g4, g5, ?_⟩
    cases hd : env.struct? c with
    | none => simp [hd] at g6
    | some d =>
      simp only [hd, Bool.and_eq_true, beq_iff_eq] at g6
      exact ⟨d, rfl, g6.1, g6.2⟩

theorem UnionDef.wf_parts (env : Env) (u : UnionDef) (h : u.wf env = true) :
    (match u.levels.getLast? with | some l => l.cls == u.cls | none => false) = true ∧
    nodupS ((u.levels.flatMap (·.tags)).map (·.name)) = true ∧
    (∀ t ∈ u.levels.flatMap (·.tags), t.name.startsWith "." = false ∧ t.name ≠ "" ∧ tyWF env t.ty = true) ∧
    (∀ l ∈ u.levels, ∃ a, env.union? l.cls = some a ∧ ulevelsPrefix a.levels u.levels = true ∧
        a.levels.length ≤ u.levels.length) ∧
    (∀ n, u.catchAll = some n → ∃ t, findTag n (u.levels.flatMap (·.tags)) = some t ∧ t.omitted = none ∧
        isVoidTy t.ty = true) := by
  simp only [UnionDef.wf, Bool.and_eq_true, List.all_eq_true] at h
  obtain ⟨⟨⟨⟨h1, h2⟩, h3⟩, h4⟩, h5⟩ := h
  refine ⟨h1, h2, ?_, ?_, ?_⟩
  · intro t ht
    have := h3 t ht
    simp only [Bool.not_eq_true', bne_iff_ne, ne_eq] at this
    exact ⟨this.1.1, this.1.2, this.2⟩
  · intro l hl
    have := h4 l hl
    cases ha : env.union? l.cls with
    | none => simp [ha] at this
    | some a =>
      simp only [ha, Bool.and_eq_true, decide_eq_true_eq] at this
      exact ⟨a, rfl, this.1, this.2⟩
  · intro n hn
    simp only [hn] at h5
    cases hf : findTag n (u.levels.flatMap (·.tags)) with
    | none => simp [hf] at h5
    | some t =>
      simp only [hf, Bool.and_eq_true, Option.isNone_iff_eq_none] at h5
      refine ⟨t, rfl, h5.1, ?_⟩
      cases hty : t.ty <;> simp_all [isVoidTy]

theorem fieldFlagsWF_struct (env : Env) (h : fieldFlagsWF env = true) (c : String) (s : StructDef)
    (hs : env.struct? c = some s) : ∀ f ∈ s.allAttrs, f.flagsWF = true := by
  simp only [fieldFlagsWF, List.all_eq_true] at h
  exact h s (struct?_mem env c s hs).1

theorem validateTypeOnly_nc (env : Env) (t : PTy) (v : PyVal) (h : isUserTy t = true) :
    NoCrash (validateTypeOnly env t v) := by
  unfold validateTypeOnly
  cases t <;> simp only [isUserTy, Bool.false_eq_true] at h <;> simp only [] <;> repeat' split
  all_goals first | exact NoCrash.ok _ | exact NoCrash.verr _

theorem attrSet_nc (E : Ext) (env : Env) (f : FieldDef) (slots : List (String × PyVal)) (x : PyVal)
    (h : f.flagsWF = true) : NoCrash (attrSet E env f slots x) := by
  rw [attrSet_eq]
  split
  · exact NoCrash.ok _
  · split
    · rename_i hu
      simp only [FieldDef.flagsWF, Bool.and_eq_true, Bool.or_eq_true, Bool.not_eq_true'] at h
      have : isUserTy f.ty = true := by
        rcases h.1 with h' | h'
        · rw [hu] at h'; cases h'
        · exact h'
      exact NoCrash.map (validateTypeOnly_nc env f.ty x this)
    · exact NoCrash.map (validate_nc E env f.ty x)

theorem finishFields_nc (E : Ext) (env : Env) (children : List (String × R PyVal))
    (hc : ∀ k r, childLookup k children = some r → NoCrash r) :
    ∀ (fields : List FieldDef) (slots : List (String × PyVal)), (∀ f ∈ fields, f.flagsWF = true) →
    NoCrash (finishFields E env fields children slots) := by
  intro fields
  induction fields with
  | nil => intro slots _; exact NoCrash.ok _
  | cons f rest ih =>
    intro slots hfl
    have hrest := fun g hg => hfl g (List.mem_cons_of_mem _ hg)
    have hf := hfl f List.mem_cons_self
    rw [finishFields_cons]
    split
    · rename_i e hr
      intro e' h; exact hc _ _ hr e' (by cases h; rfl)
    · rename_i v hr
      cases ha : attrSet E env f slots v with
      | error e => intro e' h; exact attrSet_nc E env f slots v hf e' (by rw [ha]; exact h)
      | ok s => exact ih s hrest
    · split
      · cases ha : attrSet E env f slots (getDefault f.ty) with
        | error e => intro e' h; exact attrSet_nc E env f slots _ hf e' (by rw [ha]; exact h)
        | ok s => exact ih s hrest
      · exact ih slots hrest

theorem finishStruct_nc (E : Ext) (env : Env) (perms : List String) (strict : Bool) (cls : String)
    (s : StructDef) (kvs : List (String × JVal)) (children : List (String × R PyVal))
    (hff : fieldFlagsWF env = true) (hs : env.struct? cls = some s)
    (hc : ∀ k r, childLookup k children = some r → NoCrash r) :
    NoCrash (finishStruct E env perms strict cls kvs children) := by
  unfold finishStruct
  simp only [hs]
  split
  · exact NoCrash.verr _
  · have := finishFields_nc E env children hc (s.fieldsFor perms) []
      (fun f hf => fieldFlagsWF_struct env hff cls s hs f (fieldsFor_subset s perms f hf))
    split
    · rename_i e he
      intro e' h; exact this e' (by rw [he]; cases h; rfl)
    · split
      · exact NoCrash.ok _
      · exact NoCrash.verr _

theorem mkUnion_nc (E : Ext) (env : Env) (cls tag : String) (x : PyVal) (u : UnionDef)
    (hu : env.union? cls = some u) : NoCrash (mkUnion E env cls tag x) := by
  unfold mkUnion
  simp only [hu]
  split
  · exact NoCrash.verr _
  · rename_i t ht
    cases t <;> simp only [] <;> repeat' split
    all_goals first
      | exact NoCrash.ok _
      | exact NoCrash.verr _
      | exact NoCrash.bind (validateTypeOnly_nc env _ x rfl) fun _ _ => NoCrash.ok _
      | exact NoCrash.bind (validate_nc E env _ x) fun _ _ => NoCrash.ok _
      | (exfalso; simp_all)


theorem tyWF_withFlags_empty (env : Env) (t : PTy) (h : tyWF env t = true) : tyWF env (t.withFlags {}) = true := by
  cases t <;> simp_all [tyWF, PTy.withFlags]

theorem structTable_tyWF (env : Env) (hwf : envWF env = true) (perms : List String) (c : String) (s : StructDef)
    (hs : env.struct? c = some s) (p : String × PTy)
    (hp : p ∈ (s.fieldsFor perms).map (fun f => (f.name, f.ty))) : tyWF env p.2 = true := by
  obtain ⟨f, hf, rfl⟩ := List.mem_map.mp hp
  exact ((StructDef.wf_parts env s (envWF_struct env hwf c s hs)).2.2.2.1 f (fieldsFor_subset s perms f hf)).1

theorem valDataType_tyWF (env : Env) (hwf : envWF env = true) (cls : String) (u : UnionDef)
    (hu : env.union? cls = some u) (tag : String) (perms : List String) (ft : PTy)
    (h : u.valDataType tag perms = some ft) : tyWF env ft = true := by
  obtain ⟨t, ht, _, rfl⟩ := valDataType_mem u tag perms ft h
  exact ((UnionDef.wf_parts env u (envWF_union env hwf cls u hu)).2.2.1 t ht).2.2

theorem memberTableStruct_tyWF (env : Env) (hwf : envWF env = true) (perms : List String) (ft : PTy) :
    ∀ p ∈ memberTable.memberTableStruct env perms ft, tyWF env p.2 = true := by
  unfold memberTable.memberTableStruct
  repeat' split
  all_goals first
    | (intro p hp; cases hp; done)
    | (intro p hp; exact structTable_tyWF env hwf perms _ _ (by assumption) p hp)

theorem memberTable_tyWF (env : Env) (hwf : envWF env = true) (perms : List String) (strict : Bool) (t : PTy)
    (kvs : List (String × JVal)) :
    ∀ p ∈ memberTable env perms strict t kvs, tyWF env p.2 = true := by
  unfold memberTable
  cases t <;> simp only [] <;> repeat' split
  all_goals first
    | (intro p hp; cases hp; done)
    | (intro p hp; exact structTable_tyWF env hwf perms _ _ (by assumption) p hp)
    | exact memberTableStruct_tyWF env hwf perms _
    | (intro p hp
       simp only [List.mem_singleton] at hp
       subst hp
       exact tyWF_withFlags_empty env _ (valDataType_tyWF env hwf _ _ (by assumption) _ _ _ (by assumption)))


/-! ### Nothing but the validation error escapes: the decoder -/

theorem makeStoneFriendly_nc (E : Ext) (env : Env) (perms : List String) (strict : Bool) (b : Bool) (t : PTy) (j : JVal) :
    NoCrash (makeStoneFriendly E env perms strict b t j) := by
  unfold makeStoneFriendly
  cases t <;> simp only [] <;> repeat' split
  all_goals first
    | exact NoCrash.ok _
    | exact NoCrash.verr _
    | (rename_i e he; intro e' h; exact validate_nc E env _ _ e' (by rw [he]; cases h; rfl))

theorem subtype_registered (env : Env) (hwf : envWF env = true) (cls : String) (s : StructDef)
    (hs : env.struct? cls = some s) (p : List String × String × Bool → Bool) (e : List String × String × Bool)
    (hf : (s.subtypes.getD []).find? p = some e) :
    ∃ subs, s.subtypes = some subs ∧ e ∈ subs ∧ ∃ d, env.struct? e.2.1 = some d ∧
      levelsPrefix s.levels d.levels = true ∧ d.subtypes.isSome = e.2.2 := by
  cases hsub : s.subtypes with
  | none => simp [hsub] at hf
  | some subs =>
    simp only [hsub, Option.getD_some] at hf
    have hmem := List.mem_of_find?_eq_some hf
    obtain ⟨_, h2, _⟩ := (StructDef.wf_parts env s (envWF_struct env hwf cls s hs)).2.2.2.2.2 subs hsub
    obtain ⟨_, _, d, hd, hp, hi⟩ := h2 e hmem
    exact ⟨subs, rfl, hmem, d, hd, hp, hi⟩

theorem memberTable_union_eq (env : Env) (perms : List String) (strict : Bool) (fl : Flags) (cls tag : String)
    (u : UnionDef) (kvs : List (String × JVal)) (ft : PTy)
    (htag : jsonLookup ".tag" kvs = some (.str tag)) (hu : env.union? cls = some u)
    (hp : u.isTagPresent tag perms = true) (hft : u.valDataType tag perms = some ft) :
    memberTable env perms strict (.union fl cls) kvs =
      if isPlainStruct ft then memberTable.memberTableStruct env perms ft else [(tag, ft.withFlags {})] := by
  simp [memberTable, htag, hu, hp, hft]

theorem childLookup_decodeMembers_isSome (E : Ext) (env : Env) (perms : List String) (strict : Bool)
    (tbl : List (String × PTy)) (k : String) (e : String × PTy) (hfind : tbl.find? (·.1 == k) = some e) :
    ∀ (kvs : List (String × JVal)), (jsonLookup k kvs).isSome = true →
    (childLookup k (decodeMembers E env perms strict tbl kvs)).isSome = true := by
  intro kvs
  induction kvs with
  | nil => intro h; simp [jsonLookup] at h
  | cons kv rest ih =>
    obtain ⟨k', x⟩ := kv
    intro h
    simp only [jsonLookup] at h
    by_cases hk : (k' == k) = true
    · have : k' = k := by simpa using hk
      subst this
      simp [decodeMembers, hfind, childLookup]
    · simp only [hk] at h
      simp only [decodeMembers]
      split
      · simp only [childLookup, hk]; exact ih h
      · exact ih h

theorem decode_nc_of (E : Ext) (env : Env) (perms : List String) (strict : Bool)
    (hwf : envWF env = true) (hff : fieldFlagsWF env = true) (j : JVal) (t : PTy) (ht : tyWF env t = true)
    (hlist : ∀ xs item, j = .arr xs → tyWF env item = true → NoCrash (decodeList E env perms strict item xs))
    (hmap : ∀ kvs vt, j = .obj kvs → tyWF env vt = true → NoCrash (decodeMap E env perms strict vt kvs))
    (hmem : ∀ kvs tbl, j = .obj kvs → (∀ p ∈ tbl, tyWF env p.2 = true) →
      ∀ k r, childLookup k (decodeMembers E env perms strict tbl kvs) = some r → NoCrash r) :
    NoCrash (decode E env perms strict t j) := by
  cases t with
  | list fl item a b =>
    simp only [tyWF] at ht
    unfold decode
    cases j <;> simp only [] <;> repeat' split
    all_goals first
      | exact NoCrash.ok _
      | exact NoCrash.verr _
      | exact NoCrash.map (hlist _ _ rfl ht)
  | map fl kt vt =>
    simp only [tyWF, Bool.and_eq_true] at ht
    unfold decode
    cases j <;> simp only [] <;> repeat' split
    all_goals first
      | exact NoCrash.ok _
      | exact NoCrash.verr _
      | exact NoCrash.map (hmap _ _ rfl ht.2)
  | struct fl cls =>
    cases hs : env.struct? cls with
    | none => simp [tyWF, hs] at ht
    | some s =>
      unfold decode
      cases j <;> simp only [] <;> repeat' split
      all_goals first
        | exact NoCrash.ok _
        | exact NoCrash.verr _
        | exact finishStruct_nc E env perms strict cls s _ _ hff hs
            (hmem _ _ rfl (memberTable_tyWF env hwf perms strict _ _))
  | tree fl cls =>
    cases hs : env.struct? cls with
    | none => simp [tyWF, hs] at ht
    | some s =>
      unfold decode
      simp only [hs]
      cases j <;> simp only [] <;> repeat' split
      all_goals first
        | exact NoCrash.ok _
        | exact NoCrash.verr _
        | (obtain ⟨_, _, _, d, hd, _, _⟩ := subtype_registered env hwf cls s hs _ _ (by assumption)
           exact finishStruct_nc E env perms strict _ d _ _ hff hd
            (hmem _ _ rfl (memberTable_tyWF env hwf perms strict _ _)))
        | exact finishStruct_nc E env perms strict cls s _ _ hff hs
            (hmem _ _ rfl (memberTable_tyWF env hwf perms strict _ _))
  | union fl cls =>
    cases hu : env.union? cls with
    | none => simp [tyWF, hu] at ht
    | some u =>
      have hmk := fun tag x => mkUnion_nc E env cls tag x u hu
      unfold decode
      simp only [hu]
      cases j with
      | obj kvs =>
        simp only [Bool.and_false, Bool.false_eq_true, if_false]
        cases htag : jsonLookup ".tag" kvs with
        | none => exact NoCrash.verr _
        | some x =>
          cases x with
          | str tag =>
            simp only []
            by_cases hp : u.isTagPresent tag perms = true
            · simp only [hp, Bool.not_true, Bool.false_eq_true, if_false]
              by_cases hca : (some tag == u.catchAll) = true
              · simp only [hca, if_true]; exact NoCrash.verr _
              · simp only [hca, Bool.false_eq_true, if_false]
                obtain ⟨ft, hft⟩ := Option.isSome_iff_exists.mp (valDataType_isSome_of_present u tag perms hp)
                simp only [hft]
                have htf : tyWF env ft = true := valDataType_tyWF env hwf cls u hu tag perms ft hft
                have hch := hmem kvs (memberTable env perms strict (.union fl cls) kvs) rfl
                  (memberTable_tyWF env hwf perms strict _ _)
                by_cases hv : isVoidTy ft = true
                · simp only [hv, if_true]
                  repeat' split
                  all_goals first
                    | exact NoCrash.verr _
                    | exact hmk _ _
                · simp only [hv, Bool.false_eq_true, if_false]
                  by_cases hps : isPlainStruct ft = true
                  · simp only [hps, if_true]
                    split
                    · exact hmk _ _
                    · cases ft <;> simp only [isPlainStruct, Bool.false_eq_true] at hps
                      rename_i sc hnl
                      simp only []
                      cases hd : env.struct? sc with
                      | none => simp [tyWF, hd] at htf
                      | some d =>
                        have := finishStruct_nc E env perms strict sc d kvs _ hff hd hch
                        split
                        · exact hmk _ _
                        · rename_i e he
                          intro e' h; exact this e' (by rw [he]; cases h; rfl)
                  · simp only [hps, Bool.false_eq_true, if_false]
                    split
                    · rename_i e he
                      split at he
                      · rename_i r hr
                        intro e' h; exact hch _ _ hr e' (by rw [he]; cases h; rfl)
                      · rename_i hr
                        split at he
                        · rename_i hjs
                          exfalso
                          rw [memberTable_union_eq env perms strict fl cls tag u kvs ft htag hu hp hft] at hr
                          simp only [hps, Bool.false_eq_true, if_false] at hr
                          have := childLookup_decodeMembers_isSome E env perms strict
                            [(tag, ft.withFlags {})] tag (tag, ft.withFlags {}) (by simp) kvs hjs
                          rw [hr] at this
                          cases this
                        · split at he
                          · cases he
                          · cases he; exact NoCrash.verr' _
                    · split
                      · exact NoCrash.verr _
                      · exact hmk _ _
            · simp only [hp, Bool.not_false, if_true]
              split
              · exact hmk _ _
              · exact NoCrash.verr _
          | _ => exact NoCrash.verr _
      | str tag =>
        simp only [Bool.and_false, Bool.false_eq_true, if_false]
        by_cases hp : u.isTagPresent tag perms = true
        · simp only [hp, if_true]
          obtain ⟨ft, hft⟩ := Option.isSome_iff_exists.mp (valDataType_isSome_of_present u tag perms hp)
          simp only [hft]
          repeat' split
          all_goals first
            | exact NoCrash.verr _
            | exact hmk _ _
        · simp only [hp, Bool.false_eq_true, if_false]
          split
          · exact hmk _ _
          · exact NoCrash.verr _
      | _ =>
        simp only []
        repeat' split
        all_goals first
          | exact NoCrash.ok _
          | exact NoCrash.verr _
  | _ =>
    unfold decode
    cases j <;> simp only [] <;> repeat' split
    all_goals first
      | exact NoCrash.ok _
      | exact makeStoneFriendly_nc E env perms strict _ _ _

section
set_option linter.unusedSectionVars false
variable (E : Ext) (env : Env) (perms : List String) (strict : Bool)
  (hwf : envWF env = true) (hff : fieldFlagsWF env = true)
include hwf hff

mutual
theorem decode_nc : ∀ (j : JVal) (t : PTy), tyWF env t = true → NoCrash (decode E env perms strict t j)
  | .null, t, ht => decode_nc_of E env perms strict hwf hff _ t ht (fun _ _ h => by cases h) (fun _ _ h => by cases h)
      (fun _ _ h => by cases h)
  | .bool _, t, ht => decode_nc_of E env perms strict hwf hff _ t ht (fun _ _ h => by cases h) (fun _ _ h => by cases h)
      (fun _ _ h => by cases h)
  | .int _, t, ht => decode_nc_of E env perms strict hwf hff _ t ht (fun _ _ h => by cases h) (fun _ _ h => by cases h)
      (fun _ _ h => by cases h)
  | .flt _, t, ht => decode_nc_of E env perms strict hwf hff _ t ht (fun _ _ h => by cases h) (fun _ _ h => by cases h)
      (fun _ _ h => by cases h)
  | .str _, t, ht => decode_nc_of E env perms strict hwf hff _ t ht (fun _ _ h => by cases h) (fun _ _ h => by cases h)
      (fun _ _ h => by cases h)
  | .arr xs, t, ht => decode_nc_of E env perms strict hwf hff _ t ht
      (fun xs' item h hi => by cases h; exact decodeList_nc xs item hi) (fun _ _ h => by cases h)
      (fun _ _ h => by cases h)
  | .obj kvs, t, ht => decode_nc_of E env perms strict hwf hff _ t ht (fun _ _ h => by cases h)
      (fun kvs' vt h hv => by cases h; exact decodeMap_nc kvs vt hv)
      (fun kvs' tbl h htbl => by cases h; exact decodeMembers_nc kvs tbl htbl)
theorem decodeList_nc : ∀ (xs : List JVal) (t : PTy), tyWF env t = true → NoCrash (decodeList E env perms strict t xs)
  | [], _, _ => NoCrash.ok _
  | x :: xs, t, ht => by
    simp only [decodeList]
    exact NoCrash.bind (decode_nc x t ht) fun _ _ => NoCrash.bind (decodeList_nc xs t ht) fun _ _ => NoCrash.ok _
theorem decodeMap_nc : ∀ (kvs : List (String × JVal)) (t : PTy), tyWF env t = true →
    NoCrash (decodeMap E env perms strict t kvs)
  | [], _, _ => NoCrash.ok _
  | (k, x) :: rest, t, ht => by
    simp only [decodeMap]
    exact NoCrash.bind (decode_nc x t ht) fun _ _ => NoCrash.bind (decodeMap_nc rest t ht) fun _ _ => NoCrash.ok _
theorem decodeMembers_nc : ∀ (kvs : List (String × JVal)) (tbl : List (String × PTy)),
    (∀ p ∈ tbl, tyWF env p.2 = true) →
    ∀ k r, childLookup k (decodeMembers E env perms strict tbl kvs) = some r → NoCrash r
  | [], _, _, k, r, h => by simp [decodeMembers, childLookup] at h
  | (k', x) :: rest, tbl, htbl, k, r, h => by
    simp only [decodeMembers] at h
    split at h
    · rename_i ft hfind
      simp only [childLookup] at h
      split at h
      · cases h
        exact decode_nc x ft (htbl _ (List.mem_of_find?_eq_some hfind))
      · exact decodeMembers_nc rest tbl htbl k r h
    · exact decodeMembers_nc rest tbl htbl k r h
end

end

end StoneVerif.Rt.DecL
