import StoneVerif.Lemmas.RtCompatFwd
/-!
Helper lemmas for C07, part 7: `decode` case by case (the shapes of `decode` on each type / document kind, and the
simulation step for each of them given the simulation of the members).
-/
namespace StoneVerif.Rt.Compat
open StoneVerif.Rt

/-! ### `decode`, unfolded per case -/

theorem decode_null_nullable (E : Ext) (env : Env) (strict : Bool) (t : PTy) (h : t.flags.nullable = true) :
    decode E env [] strict t .null = .ok .none := by
  unfold decode; simp [h]

def isNullJ : JVal → Bool
  | .null => true
  | _ => false

theorem decode_prim (E : Ext) (env : Env) (strict : Bool) {t : PTy} (hp : isPrimTy t = true) (j : JVal) :
    decode E env [] strict t j =
      if t.flags.nullable && isNullJ j then .ok .none
      else makeStoneFriendly E env [] strict false t j := by
  cases t <;> simp only [isPrimTy, Bool.false_eq_true] at hp <;> cases j <;> (unfold decode; rfl)

theorem decode_list_arr (E : Ext) (env : Env) (strict : Bool) (fl : Flags) (item : PTy) (a b : Option Nat) (xs : List JVal) :
    decode E env [] strict (.list fl item a b) (.arr xs) = (decodeList E env [] strict item xs).map .list := by
  unfold decode; simp

theorem decode_map_obj (E : Ext) (env : Env) (strict : Bool) (fl : Flags) (kt vt : PTy) (kvs : List (String × JVal)) :
    decode E env [] strict (.map fl kt vt) (.obj kvs) = (decodeMap E env [] strict vt kvs).map .dict := by
  unfold decode; simp

theorem decode_struct_null (E : Ext) (env : Env) (strict : Bool) (fl : Flags) (cls : String) :
    decode E env [] strict (.struct fl cls) .null =
      if fl.nullable then .ok .none
      else if hasDefault env (.struct {} cls) then .ok (.struct cls []) else verr "expected object" := by
  unfold decode; simp only [PTy.flags, PTy.withFlags, Bool.and_true]; rfl

theorem decode_struct_obj' (E : Ext) (env : Env) (strict : Bool) (fl : Flags) (cls : String) (kvs : List (String × JVal)) :
    decode E env [] strict (.struct fl cls) (.obj kvs) =
      finishStruct E env [] strict cls kvs
        (decodeMembers E env [] strict (memberTable env [] strict (.struct fl cls) kvs) kvs) := by
  unfold decode; simp

/-! ### the members -/

/-- the simulation of the members of one object, for every pair of member tables -/
def MembersIH (E : Ext) (ρ : Rho) (A B : Env) (sA sB : Bool) (kvs : List (String × JVal)) : Prop :=
  ∀ (tblA tblB : List (String × PTy)) (k : String) (ftA ftB : PTy),
    (sA = true → knownMembers A tblA kvs = true) →
    tblA.find? (·.1 == k) = some (k, ftA) → tblB.find? (·.1 == k) = some (k, ftB) →
    tySub ρ ftA ftB = true → tyWF A ftA = true →
    ChildRel ρ A (decodeMembers E A [] sA tblA kvs) (decodeMembers E B [] sB tblB kvs) k ftA

/-- members of a related pair of struct tables -/
theorem children_struct {E : Ext} {ρ : Rho} {A B : Env} (cx : Ctx ρ A B) {a b : String} {sA sB : Bool}
    {kvs : List (String × JVal)} (hIH : MembersIH E ρ A B sA sB kvs)
    (hk : sA = true → knownMembers A (structTable A a) kvs = true)
    (hcommon : ∀ f ∈ publicFields A a, ∃ g ∈ publicFields B b, fieldSub ρ f g = true) :
    ∀ f ∈ publicFields A a, ChildRel ρ A (decodeMembers E A [] sA (structTable A a) kvs)
      (decodeMembers E B [] sB (structTable B b) kvs) f.name f.ty := by
  intro f hf
  obtain ⟨g, hg, hsub⟩ := hcommon f hf
  have h1 := structTable_find cx.wfA hf
  have h2 := structTable_find cx.wfB hg
  rw [← fieldSub_name hsub] at h2
  exact hIH _ _ f.name f.ty g.ty hk h1 h2 (fieldSub_parts hsub).1 (publicFields_tyWF cx.wfA hf)

/-! ### structs -/

theorem view_struct_struct (ρ : Rho) (A : Env) (fl : Flags) (cls c : String) (slots : List (String × PyVal)) :
    view ρ A (.struct fl cls) (.struct c slots) =
      .struct cls (orderSlots (publicFields A cls) (viewSlots ρ A (publicFields A cls) slots)) := by
  unfold view; rfl

theorem knownDoc_struct_obj (A : Env) (fl : Flags) (c : String) (kvs : List (String × JVal)) :
    knownDoc A (.struct fl c) (.obj kvs) = knownMembers A (structTable A c) kvs := by
  unfold knownDoc; rfl

theorem decode_struct_sub (E : Ext) {ρ : Rho} {A B : Env} (cx : Ctx ρ A B) {f g : Flags} {c c' : String}
    (hr : ρ.rel c c' = true) {sa : StructDef} (hsa : A.struct? c = some sa) (kvs : List (String × JVal)) (sA sB : Bool)
    (w : PyVal) (hIH : MembersIH E ρ A B sA sB kvs)
    (hk : sA = true → knownDoc A (.struct f c) (.obj kvs) = true)
    (h : decode E B [] sB (.struct g c') (.obj kvs) = .ok w) :
    decode E A [] sA (.struct f c) (.obj kvs) = .ok (view ρ A (.struct f c) w) := by
  obtain ⟨sb, hsb⟩ := struct_related cx hr hsa
  have hrel := fieldsRel_public cx.compat cx.wfA cx.wfB hr hsa
  rw [knownDoc_struct_obj] at hk
  rw [decode_struct_obj', memberTable_struct' B sB g c' sb kvs hsb] at h
  rw [decode_struct_obj', memberTable_struct' A sA f c sa kvs hsa]
  obtain ⟨slotsB, hw, hA⟩ := finishStruct_sub E cx hsa hsb hrel.common kvs
    (children_struct cx hIH hk hrel.common) sA sB w hk h
  rw [hA, hw, view_struct_struct]

/-! ### enumerated subtypes -/

theorem tagPred_eq (tag : String) :
    (fun (x : SubEntry) => match x with | (tags, _, _) => tags == [tag]) = fun e => e.1 == [tag] := by
  funext ⟨a, b, c⟩; rfl

theorem structTable_eq (env : Env) (cls : String) :
    (match env.struct? cls with
      | some s => (s.fieldsFor []).map fun f => (f.name, f.ty)
      | none => []) = structTable env cls := by
  unfold structTable publicFields
  cases env.struct? cls with
  | none => rfl
  | some s => simp [fieldsFor_nil]

theorem decode_tree_obj (E : Ext) (env : Env) (strict : Bool) (fl : Flags) (cls : String) (kvs : List (String × JVal))
    {tag : String} {s : StructDef} (ht : jsonLookup ".tag" kvs = some (.str tag)) (hs : env.struct? cls = some s) :
    decode E env [] strict (.tree fl cls) (.obj kvs) =
      match findSub [tag] (s.subtypes.getD []) with
      | some (_, sc, isTree) =>
        if isTree then verr "tag refers to non-leaf subtype"
        else finishStruct E env [] strict sc kvs (decodeMembers E env [] strict (structTable env sc) kvs)
      | none =>
        if strict then verr "unknown subtype"
        else if s.catchAll then finishStruct E env [] strict cls kvs (decodeMembers E env [] strict (structTable env cls) kvs)
        else verr "unknown subtype and not a catch-all" := by
  unfold decode
  simp only [PTy.flags, Bool.and_false, Bool.false_eq_true, if_false, ht, hs, memberTable, tagPred_eq, structTable_eq]
  unfold findSub
  cases hf : List.find? (fun e => e.1 == [tag]) (s.subtypes.getD []) with
  | none =>
    have hst := structTable_eq env cls
    simp only [hs] at hst
    simp only []
    cases strict <;> cases hc : s.catchAll <;> simp [hst]
  | some e =>
    obtain ⟨tags, sc, isTree⟩ := e
    cases isTree
    · cases hsc : env.struct? sc <;> simp [structTable, publicFields, hsc, fieldsFor_nil]
    · simp

theorem view_tree_struct (ρ : Rho) (A : Env) (fl : Flags) (cls c : String) (slots : List (String × PyVal)) :
    view ρ A (.tree fl cls) (.struct c slots) =
      .struct (treeClassA ρ A cls c) (orderSlots (publicFields A (treeClassA ρ A cls c))
        (viewSlots ρ A (publicFields A (treeClassA ρ A cls c)) slots)) := by
  unfold view; rfl

theorem findSub_some {tags : List String} {xs : List SubEntry} {e : SubEntry} (h : findSub tags xs = some e) :
    e ∈ xs ∧ e.1 = tags := by
  unfold findSub at h
  exact ⟨List.mem_of_find?_eq_some h, by simpa using List.find?_some h⟩

theorem findSub_none {tags : List String} {xs : List SubEntry} (h : findSub tags xs = none) :
    ∀ e ∈ xs, e.1 ≠ tags := by
  unfold findSub at h
  intro e he
  have := List.find?_eq_none.mp h e he
  simpa using this

theorem subs_class_inj {env : Env} {s : StructDef} (h : s.wf env = true) {e e' : SubEntry}
    (he : e ∈ s.subtypes.getD []) (he' : e' ∈ s.subtypes.getD []) (hc : e.2.1 = e'.2.1) : e = e' := by
  simp only [StructDef.wf, Bool.and_eq_true] at h
  have h6 := h.2
  cases hsub : s.subtypes with
  | none => simp [hsub] at he
  | some subs =>
    simp only [hsub, Option.getD_some] at he he'
    simp only [hsub, Bool.and_eq_true] at h6
    have hnd := (nodupS_iff _).mp h6.1.1
    exact names_inj_of_nodup (fun (e : SubEntry) => e.2.1) hnd e he e' he' hc

theorem structSubclass_entry {env : Env} (hwf : envWF env = true) {root : String} {s : StructDef}
    (hs : env.struct? root = some s) {e : SubEntry} (he : e ∈ s.subtypes.getD []) :
    env.structSubclass e.2.1 root = true ∧ ∃ d, env.struct? e.2.1 = some d := by
  obtain ⟨d, hd, hpre, _⟩ := subtype_entry_wf (struct_wf hwf hs) he
  have hself := struct_self_ancestor (struct_wf hwf hs)
  rw [(Compat.struct?_mem hs).2] at hself
  simp only [StructDef.ancestors, List.contains_eq_mem, List.mem_map, decide_eq_true_eq] at hself
  obtain ⟨l, hl, hlc⟩ := hself
  have := levelsPrefix_cls hpre l hl
  refine ⟨?_, d, hd⟩
  simp [Env.structSubclass, hd, StructDef.ancestors, hlc ▸ this]

theorem leafTag_of_entry {env : Env} (hwf : envWF env = true) {root tag sc : String} {s : StructDef}
    (hs : env.struct? root = some s) (he : ([tag], sc, false) ∈ s.subtypes.getD []) :
    leafTag? env root sc = some tag := by
  unfold leafTag?
  simp only [hs]
  cases hf : (s.subtypes.getD []).find? (fun x => match x with | (_, sc', _) => sc' == sc) with
  | none =>
    have := List.find?_eq_none.mp hf _ he
    simp at this
  | some e' =>
    have hm := List.mem_of_find?_eq_some hf
    have hp := List.find?_some hf
    obtain ⟨t', c', tr'⟩ := e'
    simp only [beq_iff_eq] at hp
    have := subs_class_inj (struct_wf hwf hs) hm he (by simpa using hp)
    cases this
    rfl

/-- B's class `scB` is listed by A (as `scA`) under the tag the document carries: A reads the instance under `scA` -/
theorem treeClassA_leaf {ρ : Rho} {A : Env} (hρ : ρ.wf = true) (hwf : envWF A = true) {root tag scA scB : String}
    {s : StructDef} (hs : A.struct? root = some s) (he : ([tag], scA, false) ∈ s.subtypes.getD [])
    (hr : ρ.rel scA scB = true) : treeClassA ρ A root scB = scA := by
  unfold treeClassA
  simp [Rho.toA_of_rel hρ hr, leafTag_of_entry hwf hs he]

/-- A lists no subtype under the tag of B's entry for `scB`: A reads the instance under the root -/
theorem treeClassA_fresh {ρ : Rho} {A B : Env} (cx : Ctx ρ A B) {root rootB tag scB : String} {sa sb : StructDef}
    (hsa : A.struct? root = some sa) (hsb : B.struct? rootB = some sb) (hrel : SubsRel ρ sa sb)
    (heB : ([tag], scB, false) ∈ sb.subtypes.getD []) (hnone : findSub [tag] (sa.subtypes.getD []) = none) :
    treeClassA ρ A root scB = root := by
  unfold treeClassA
  cases hto : ρ.toA scB with
  | none => rfl
  | some a' =>
    simp only []
    by_cases h1 : a' = root
    · simp [h1]
    · have : (leafTag? A root a').isSome = false := by
        cases hl : leafTag? A root a' with
        | none => rfl
        | some t' =>
          exfalso
          obtain ⟨s', hs', he'⟩ := leafTag_inv hl
          rw [hsa] at hs'; cases hs'
          obtain ⟨e'', hf'', hr'', _⟩ := hrel.known _ he'
          obtain ⟨hm'', ht''⟩ := findSub_some hf''
          have hrel' := Rho.rel_of_toA hto
          have hρ := compatEnv_wf cx.compat
          have hcls : e''.2.1 = scB := by
            have := (Rho.wf_iff hρ (Rho.rel_iff.mp hr'') (Rho.rel_iff.mp hrel')).mp rfl
            exact this
          have heq := subs_class_inj (struct_wf cx.wfB hsb) hm'' heB (by simpa using hcls)
          rw [heq] at ht''
          simp only at ht''
          -- so A lists the tag after all
          have := findSub_none hnone _ he'
          exact this ht''.symm
      simp [h1, this]

theorem knownDoc_tree_obj (A : Env) (fl : Flags) (c : String) (kvs : List (String × JVal)) {tag : String} {s : StructDef}
    (ht : jsonLookup ".tag" kvs = some (.str tag)) (hs : A.struct? c = some s) :
    knownDoc A (.tree fl c) (.obj kvs) =
      match findSub [tag] (s.subtypes.getD []) with
      | some (_, sc, false) => knownMembers A (structTable A sc) kvs
      | _ => false := by
  unfold knownDoc
  simp only [isVoidT, Bool.false_eq_true, if_false, ht, hs]
  rfl

theorem decode_tree_sub (E : Ext) {ρ : Rho} {A B : Env} (cx : Ctx ρ A B) {f g : Flags} {c c' : String}
    (hr : ρ.rel c c' = true) {sa : StructDef} (hsa : A.struct? c = some sa) (hta : sa.subtypes.isSome = true)
    (kvs : List (String × JVal)) (sA sB : Bool) (w : PyVal) (hIH : MembersIH E ρ A B sA sB kvs)
    (hk : sA = true → knownDoc A (.tree f c) (.obj kvs) = true)
    (h : decode E B [] sB (.tree g c') (.obj kvs) = .ok w) :
    decode E A [] sA (.tree f c) (.obj kvs) = .ok (view ρ A (.tree f c) w) := by
  obtain ⟨sb, hsb⟩ := struct_related cx hr hsa
  obtain ⟨_, hsubs⟩ := subsRel (compat_struct cx.compat hr hsa) hsa hsb hta
  have hρ := compatEnv_wf cx.compat
  cases ht : jsonLookup ".tag" kvs with
  | none => unfold decode at h; simp [ht, PTy.flags, verr] at h
  | some tv =>
    cases tv with
    | str tag =>
      rw [decode_tree_obj E B sB g c' kvs ht hsb] at h
      rw [decode_tree_obj E A sA f c kvs ht hsa]
      rw [knownDoc_tree_obj A f c kvs ht hsa] at hk
      cases hfB : findSub [tag] (sb.subtypes.getD []) with
      | some eB =>
        obtain ⟨tagsB, scB, trB⟩ := eB
        obtain ⟨hmB, htB⟩ := findSub_some hfB
        simp only at htB
        subst htB
        simp only [hfB] at h
        cases trB with
        | true => simp [verr] at h
        | false =>
          simp only [Bool.false_eq_true, if_false] at h
          obtain ⟨hsubB, dB, hdB⟩ := structSubclass_entry cx.wfB hsb hmB
          simp only at hsubB hdB
          cases hfA : findSub [tag] (sa.subtypes.getD []) with
          | some eA =>
            obtain ⟨tagsA, scA, trA⟩ := eA
            obtain ⟨hmA, htA⟩ := findSub_some hfA
            simp only at htA
            subst htA
            obtain ⟨e', hf', hr', htr'⟩ := hsubs.known _ hmA
            simp only at hf' hr' htr'
            rw [hfB] at hf'
            cases hf'
            simp only at hr' htr'
            subst htr'
            obtain ⟨_, dA, hdA⟩ := structSubclass_entry cx.wfA hsa hmA
            simp only at hdA
            have hrel := fieldsRel_public cx.compat cx.wfA cx.wfB hr' hdA
            simp only [hfA] at hk
            obtain ⟨slotsB, hw, hA⟩ := finishStruct_sub E cx hdA hdB hrel.common kvs
              (children_struct cx hIH hk hrel.common) sA sB w hk h
            simp only [Bool.false_eq_true, if_false, hA, hw, view_tree_struct,
              treeClassA_leaf hρ cx.wfA hsa hmA hr']
          | none =>
            have hsA : sA = false := by
              cases sA with
              | false => rfl
              | true => have := hk rfl; simp [hfA] at this
            subst hsA
            have hca : sa.catchAll = true := by
              rcases hsubs.fresh with h1 | h1
              · exact h1
              · have := h1 _ hmB
                simp only [hfA] at this
                cases this
            have hrel := fieldsRel_public cx.compat cx.wfA cx.wfB hr hsa
            have hcommon : ∀ f' ∈ publicFields A c, ∃ g' ∈ publicFields B scB, fieldSub ρ f' g' = true := by
              intro f' hf'
              obtain ⟨g0, hg0, hs0⟩ := hrel.common f' hf'
              obtain ⟨g', hg', hs'⟩ := publicFields_prefixU cx.wfuB hsubB g0 hg0
              exact ⟨g', hg', fieldSub_trans_same hs0 hs'⟩
            obtain ⟨slotsB, hw, hA⟩ := finishStruct_sub E cx hsa hdB hcommon kvs
              (children_struct cx hIH (fun h => by cases h) hcommon) false sB w (fun h => by cases h) h
            simp only [Bool.false_eq_true, if_false, hca, if_true, hA, hw, view_tree_struct,
              treeClassA_fresh cx hsa hsb hsubs hmB hfA]
      | none =>
        simp only [hfB] at h
        cases sB with
        | true => simp [verr] at h
        | false =>
          simp only [Bool.false_eq_true, if_false] at h
          by_cases hcb : sb.catchAll = true
          · simp only [hcb, if_true] at h
            have hfA : findSub [tag] (sa.subtypes.getD []) = none := by
              cases hfA : findSub [tag] (sa.subtypes.getD []) with
              | none => rfl
              | some eA =>
                exfalso
                obtain ⟨hmA, htA⟩ := findSub_some hfA
                obtain ⟨e', hf', _⟩ := hsubs.known _ hmA
                rw [htA, hfB] at hf'
                cases hf'
            have hrel := fieldsRel_public cx.compat cx.wfA cx.wfB hr hsa
            have hsA : sA = false := by
              cases sA with
              | false => rfl
              | true => have := hk rfl; simp [hfA] at this
            subst hsA
            obtain ⟨slotsB, hw, hA⟩ := finishStruct_sub E cx hsa hsb hrel.common kvs
              (children_struct cx hIH (fun h => by cases h) hrel.common) false false w (fun h => by cases h) h
            simp only [hfA, Bool.false_eq_true, if_false, hsubs.catchAll, hcb, if_true, hA, hw, view_tree_struct,
              treeClassA_root hρ A hr]
          · simp [hcb, verr] at h
    | _ => unfold decode at h; simp [ht, PTy.flags, verr] at h

end StoneVerif.Rt.Compat
