import StoneVerif.Lemmas.IrCheck
/-! C10: since the frontend repairs, the compile-time checks of defaults and examples end in acceptance or in
`InvalidSpec` — never in another exception — on every type whose class names the compiler knows (`tyKnown`). -/
set_option linter.unusedSimpArgs false
set_option linter.unusedVariables false
namespace StoneVerif.IrCheck
open StoneVerif.Rt

/-- the result is not "an exception other than InvalidSpec escaped" -/
def NoCrash {α} (r : CR α) : Prop := ∀ e, r ≠ .error (.crash e)

theorem noCrash_ok {α} (a : α) : NoCrash (.ok a : CR α) := by intro e h; cases h
theorem noCrash_invalid {α} (s : String) : NoCrash (invalid s : CR α) := by intro e h; simp [invalid] at h

theorem noCrash_ite {α} {c : Prop} [Decidable c] {a b : CR α} (ha : NoCrash a) (hb : NoCrash b) :
    NoCrash (if c then a else b) := by
  by_cases h : c <;> simp [h] <;> assumption

theorem noCrash_map {α β} {r : CR α} (f : α → β) (h : NoCrash r) : NoCrash (r.map f) := by
  intro e he
  cases r with
  | ok a => simp [Except.map] at he
  | error x => simp [Except.map] at he; exact h e (by rw [he])

theorem checkIntVal_noCrash {cls : String} (mn mx : Option Int) (n : Int) (h : (irIntBounds cls).isSome = true) :
    NoCrash (checkIntVal cls mn mx n) := by
  unfold checkIntVal
  cases hb : irIntBounds cls with
  | none => simp [hb] at h
  | some b =>
    obtain ⟨lo, hi⟩ := b
    simp only
    exact noCrash_ite (noCrash_invalid _) (noCrash_ite (noCrash_invalid _) (noCrash_ite (noCrash_invalid _) (noCrash_ok _)))

theorem checkFloatVal_noCrash (E : Ext) {cls : String} (mn mx : Option FBits) (x : FBits)
    (h : (irFloatBounds cls).isSome = true) : NoCrash (checkFloatVal E cls mn mx x) := by
  unfold checkFloatVal
  refine noCrash_ite (noCrash_invalid _) ?_
  cases hb : irFloatBounds cls with
  | none => simp [hb] at h
  | some b =>
    obtain ⟨lo, hi⟩ := b
    simp only
    exact noCrash_ite (noCrash_invalid _) (noCrash_ite (noCrash_invalid _) (noCrash_ite (noCrash_invalid _)
      (noCrash_ite (noCrash_invalid _) (noCrash_ok _))))

/-- `data_type.check` raises nothing but ValueError on a primitive or union type (behind aliases and `?`):
the `NotImplementedError` of `List/Map/Struct.check` is all that is left, and those types are excluded. -/
theorem check_noCrash (E : Ext) (C : CExt) (us : List CUnion) :
    ∀ (t : IrTy), tyKnown us t = true → defaultable (unwrapAll t) = true → ∀ l, NoCrash (check E C us t l) := by
  intro t
  induction t with
  | bool => intro _ _ l; cases l <;> simp only [check] <;> first | exact noCrash_ok _ | exact noCrash_invalid _
  | int cls mn mx =>
    intro hk _ l
    simp only [tyKnown] at hk
    cases l <;> simp only [check] <;> first | exact checkIntVal_noCrash _ _ _ hk | exact noCrash_invalid _
  | float cls mn mx =>
    intro hk _ l
    simp only [tyKnown] at hk
    cases l <;> simp only [check]
    · exact noCrash_invalid _
    · exact noCrash_invalid _
    · split
      · exact noCrash_ite (checkFloatVal_noCrash E _ _ _ hk) (noCrash_invalid _)
      · exact noCrash_invalid _
    · exact checkFloatVal_noCrash E _ _ _ hk
    · exact noCrash_invalid _
    · exact noCrash_invalid _
  | str a b p =>
    intro _ _ l
    cases l <;> simp only [check] <;> (try exact noCrash_invalid _)
    refine noCrash_ite (noCrash_invalid _) (noCrash_ite (noCrash_invalid _) ?_)
    cases p with
    | none => exact noCrash_ok _
    | some q => exact noCrash_ite (noCrash_invalid _) (noCrash_ok _)
  | bytes => intro _ _ l; cases l <;> simp only [check] <;> first | exact noCrash_ok _ | exact noCrash_invalid _
  | ts f =>
    intro _ _ l
    cases l <;> simp only [check] <;> (try exact noCrash_invalid _)
    exact noCrash_ite (noCrash_ok _) (noCrash_invalid _)
  | void => intro _ _ l; cases l <;> simp only [check] <;> first | exact noCrash_ok _ | exact noCrash_invalid _
  | list t a b _ => intro _ hd; simp [unwrapAll, defaultable] at hd
  | map k w _ _ => intro _ hd; simp [unwrapAll, defaultable] at hd
  | struct c s => intro _ hd; simp [unwrapAll, defaultable] at hd
  | union cls =>
    intro hk _ l
    simp only [tyKnown] at hk
    cases l <;> simp only [check] <;> (try exact noCrash_invalid _)
    cases hu : us.find? (·.cls == cls) with
    | none => simp [hu] at hk
    | some u =>
      simp only
      split
      · exact noCrash_ite (noCrash_ok _) (noCrash_invalid _)
      · exact noCrash_invalid _
  | nullable t ih =>
    intro hk hd l
    simp only [tyKnown] at hk
    simp only [unwrapAll] at hd
    cases l <;> simp only [check] <;> first | exact noCrash_ok _ | exact ih hk hd _
  | alias n r t ih =>
    intro hk hd l
    simp only [tyKnown] at hk
    simp only [unwrapAll] at hd
    simp only [check]
    exact ih hk hd l

theorem coerceDefault_noCrash (E : Ext) (t : IrTy) (lit : Lit) : NoCrash (coerceDefault E t lit) := by
  unfold coerceDefault
  split
  · split
    · exact noCrash_ok _
    · exact noCrash_invalid _
  · split
    · exact noCrash_ok _
    · exact noCrash_invalid _
  · exact noCrash_ok _

theorem populateDefault_noCrash (E : Ext) (C : CExt) (us : List CUnion) (t : IrTy) (lit : Lit) (hk : tyKnown us t = true) :
    NoCrash (populateDefault E C us t lit) := by
  unfold populateDefault
  refine noCrash_ite (noCrash_invalid _) (noCrash_ite (noCrash_invalid _) ?_)
  by_cases hd : defaultable (unwrapAll t) = true
  · simp only [hd, Bool.not_true, Bool.false_eq_true, ↓reduceIte]
    cases hc : check E C us t lit with
    | error e =>
      intro x hx
      exact check_noCrash E C us t hk hd lit x (by rw [hc]; simpa using hx)
    | ok d => exact coerceDefault_noCrash E t lit
  · simp only [hd, Bool.not_false, ↓reduceIte]
    exact noCrash_invalid _

/-- `f T = lit`: the compiler accepts the default or reports a spec error. -/
theorem fieldDefault_noCrash (E : Ext) (C : CExt) (us : List CUnion) (t : IrTy) (lit : Lit) (hk : tyKnown us t = true) :
    NoCrash (fieldDefault E C us t lit) := by
  cases t
  case void => exact noCrash_invalid _
  case nullable => exact noCrash_invalid _
  all_goals exact populateDefault_noCrash E C us _ lit hk

/-! ## examples -/

theorem firstErr_noCrash {α} (f : α → CR Unit) (h : ∀ x, NoCrash (f x)) : ∀ xs, NoCrash (firstErr f xs)
  | [] => noCrash_ok _
  | x :: xs => by
    simp only [firstErr]
    cases hf : f x with
    | error e => intro c hc; exact h x c (by rw [hf]; simpa using hc)
    | ok _ => exact firstErr_noCrash f h xs

theorem checkPrimExample_noCrash (E : Ext) (C : CExt) (us : List CUnion) (t : IrTy) (v : ExVal)
    (hk : tyKnown us t = true) (hd : defaultable (unwrapAll t) = true) : NoCrash (checkPrimExample E C us t v) := by
  cases v <;> simp only [checkPrimExample] <;> (try exact noCrash_invalid _)
  rename_i l
  cases hc : check E C us t l with
  | ok _ => exact noCrash_ok _
  | error e =>
    cases e with
    | invalid h => exact noCrash_invalid _
    | crash c => exact absurd hc (check_noCrash E C us t hk hd l c)

/-- `data_type.check_example` answers with acceptance or InvalidSpec for every type and every example value. -/
theorem checkExample_noCrash (E : Ext) (C : CExt) (us : List CUnion) :
    ∀ (t : IrTy), tyKnown us t = true → ∀ v, NoCrash (checkExample E C us t v) := by
  intro t
  induction t with
  | bool => intro hk v; simp only [checkExample]; exact checkPrimExample_noCrash E C us _ v hk rfl
  | int cls mn mx => intro hk v; simp only [checkExample]; exact checkPrimExample_noCrash E C us _ v hk rfl
  | float cls mn mx => intro hk v; simp only [checkExample]; exact checkPrimExample_noCrash E C us _ v hk rfl
  | str a b p => intro hk v; simp only [checkExample]; exact checkPrimExample_noCrash E C us _ v hk rfl
  | ts f => intro hk v; simp only [checkExample]; exact checkPrimExample_noCrash E C us _ v hk rfl
  | bytes =>
    intro _ v; simp only [checkExample]
    split
    · split
      · exact noCrash_ite (noCrash_ok _) (noCrash_invalid _)
      · exact noCrash_invalid _
    · exact noCrash_invalid _
  | void => intro _ v; simp only [checkExample]; split <;> first | exact noCrash_ok _ | exact noCrash_invalid _
  | struct c s => intro _ v; simp only [checkExample]; split <;> first | exact noCrash_ok _ | exact noCrash_invalid _
  | union c => intro _ v; simp only [checkExample]; split <;> first | exact noCrash_ok _ | exact noCrash_invalid _
  | list t a b ih =>
    intro hk v
    simp only [tyKnown] at hk
    simp only [checkExample]
    split
    · exact noCrash_ite (noCrash_invalid _) (noCrash_ite (noCrash_invalid _) (firstErr_noCrash _ (fun x => ih hk x) _))
    · exact noCrash_invalid _
  | map k w ihk ihw =>
    intro hk v
    simp only [tyKnown, Bool.and_eq_true] at hk
    simp only [checkExample]
    split
    · refine firstErr_noCrash _ (fun p => ?_) _
      cases hc : checkExample E C us k (.lit (.str p.1)) with
      | error e => intro c hcc; exact ihk hk.1 _ c (by rw [hc]; simpa using hcc)
      | ok _ => exact ihw hk.2 _
    · exact noCrash_invalid _
  | nullable t ih =>
    intro hk v
    simp only [tyKnown] at hk
    simp only [checkExample]
    split
    · exact noCrash_ok _
    · exact ih hk v
  | alias n r t ih =>
    intro hk v
    simp only [tyKnown] at hk
    simp only [checkExample]
    exact ih hk v

theorem addStructExample_noCrash (E : Ext) (C : CExt) (us : List CUnion) (s : CStruct) (ex : List (String × ExVal))
    (hk : ∀ f ∈ s.allFields, tyKnown us f.ty = true) : NoCrash (addStructExample E C us s ex) := by
  unfold addStructExample
  simp only
  refine noCrash_ite (noCrash_invalid _) ?_
  have : ∀ (fs : List CField), (∀ f ∈ fs, tyKnown us f.ty = true) →
      NoCrash (firstErr (fun (f : CField) => match exLookup f.name ex with
        | some v => (match checkExample E C us f.ty v with
          | .error (.invalid h) => invalid ("Bad example for field: " ++ h)
          | r => r)
        | none => if f.dflt.isSome || f.ty.isNullableLit then .ok () else invalid "Missing field in example") fs) := by
    intro fs
    induction fs with
    | nil => intro _; exact noCrash_ok _
    | cons f fs ih =>
      intro hfs
      simp only [firstErr]
      have hf : NoCrash (match exLookup f.name ex with
          | some v => (match checkExample E C us f.ty v with
            | .error (.invalid h) => invalid ("Bad example for field: " ++ h)
            | r => r)
          | none => if f.dflt.isSome || f.ty.isNullableLit then (.ok () : CR Unit) else invalid "Missing field in example") := by
        cases exLookup f.name ex with
        | none => exact noCrash_ite (noCrash_ok _) (noCrash_invalid _)
        | some v =>
          simp only
          have := checkExample_noCrash E C us f.ty (hfs f (by simp)) v
          cases hc : checkExample E C us f.ty v with
          | ok _ => exact noCrash_ok _
          | error e =>
            cases e with
            | invalid h => exact noCrash_invalid _
            | crash c => exact absurd hc (this c)
      split
      · rename_i e he
        intro c hc
        exact hf c (by rw [he]; simpa using hc)
      · exact ih (fun g hg => hfs g (by simp [hg]))
  exact this _ hk

theorem addUnionExample_noCrash (E : Ext) (C : CExt) (us : List CUnion) (u : CUnion) (ex : List (String × ExVal))
    (hk : ∀ t ∈ u.allTags, tyKnown us t.ty = true) : NoCrash (addUnionExample E C us u ex) := by
  unfold addUnionExample
  split
  · rename_i tag v
    cases hf : u.allTags.find? (·.name == tag) with
    | none => exact noCrash_invalid _
    | some t =>
      simp only
      have := checkExample_noCrash E C us t.ty (hk t (List.mem_of_find?_eq_some hf)) v
      cases hc : checkExample E C us t.ty v with
      | ok _ => exact noCrash_ok _
      | error e =>
        cases e with
        | invalid h => exact noCrash_invalid _
        | crash c => exact absurd hc (this c)
  · exact noCrash_invalid _

theorem unionExample_noCrash (E : Ext) (C : CExt) (us : List CUnion) (u : CUnion) (ex : List (String × ExVal))
    (hk : ∀ t ∈ u.allTags, tyKnown us t.ty = true) : NoCrash (unionExample E C us u ex) := by
  unfold unionExample
  cases ha : addUnionExample E C us u ex with
  | ok _ => exact noCrash_ok _
  | error e => intro c hc; exact addUnionExample_noCrash E C us u ex hk c (by rw [ha]; simpa using hc)

end StoneVerif.IrCheck
