import StoneVerif.Lemmas.RtCompatFwd
/-!
Helper lemmas for C07, part 10 (backward direction): validators across the two environments, from the older to the newer —
whatever A's validator accepts, B's validator accepts once the value is seen under B (`lift`: same slots, B's classes).
-/
namespace StoneVerif.Rt.Compat
open StoneVerif.Rt

/-! ### `envWFU` implies `envWFX` -/

theorem attrsPrefix_of_U {P C : List FieldDef} (h : attrsPrefixU P C = true) : attrsPrefix P C = true := by
  induction P generalizing C with
  | nil => simp [attrsPrefix]
  | cons a as ih =>
    cases C with
    | nil => simp [attrsPrefixU] at h
    | cons b bs =>
      simp only [attrsPrefixU, sameAttr, Bool.and_eq_true] at h
      simp only [attrsPrefix, Bool.and_eq_true]
      exact ⟨h.1.1, ih h.2⟩

theorem envWFX_of_envWFU {env : Env} (h : envWFU env = true) : envWFX env = true := by
  simp only [envWFU, List.all_eq_true] at h
  simp only [envWFX, StructDef.chainExact, List.all_eq_true]
  intro s hs l hl
  have := h s hs l hl
  cases ha : env.struct? l.cls with
  | none => simp [ha] at this
  | some a =>
    simp only [ha] at this ⊢
    exact attrsPrefix_of_U this

/-! ### `lift`, by lookup and by shape -/

theorem lookupSlot_liftSlots (ρ : Rho) (B : Env) (fields : List FieldDef) (k : String) :
    ∀ (slots : List (String × PyVal)), lookupSlot k (liftSlots ρ B fields slots) =
      match fields.find? (·.name == k) with
      | some f => (lookupSlot k slots).map (lift ρ B f.ty)
      | none => none
  | [] => by simp only [liftSlots, lookupSlot]; split <;> rfl
  | (k', x) :: rest => by
    have ih := lookupSlot_liftSlots ρ B fields k rest
    by_cases hk : k' = k
    · subst hk
      simp only [liftSlots]
      split
      · rename_i f hf
        simp [lookupSlot, hf]
      · rename_i hf
        rw [ih]
        simp [hf]
    · have hne : (k' == k) = false := by simpa using hk
      simp only [liftSlots]
      split
      · simp only [lookupSlot, hne]
        exact ih
      · simp only [lookupSlot, hne]
        exact ih

theorem lift_none (ρ : Rho) (B : Env) (t : PTy) : lift ρ B t .none = .none := by unfold lift; rfl

theorem lift_prim (ρ : Rho) (B : Env) {t : PTy} (hp : isPrimTy t = true) (x : PyVal) : lift ρ B t x = x := by
  cases t <;> simp only [isPrimTy, Bool.false_eq_true] at hp <;> cases x <;> (unfold lift; rfl)

theorem isNoneV_lift (ρ : Rho) (B : Env) (t : PTy) (x : PyVal) : isNoneV (lift ρ B t x) = isNoneV x := by
  cases x <;> unfold lift <;> try rfl
  all_goals (cases t <;> try rfl)
  all_goals (simp only []; repeat' split) <;> rfl

theorem liftList_length (ρ : Rho) (B : Env) (t : PTy) : ∀ xs : List PyVal, (liftList ρ B t xs).length = xs.length
  | [] => rfl
  | x :: xs => by simp [liftList, liftList_length ρ B t xs]

theorem lift_struct_struct (ρ : Rho) (B : Env) (fl : Flags) (cls c : String) (slots : List (String × PyVal)) :
    lift ρ B (.struct fl cls) (.struct c slots) =
      .struct cls (orderSlots (publicFields B cls) (liftSlots ρ B (publicFields B cls) slots)) := by
  unfold lift; rfl

theorem lift_tree_struct (ρ : Rho) (B : Env) (fl : Flags) (cls c : String) (slots : List (String × PyVal)) :
    lift ρ B (.tree fl cls) (.struct c slots) =
      .struct (treeClassB ρ B cls c) (orderSlots (publicFields B (treeClassB ρ B cls c))
        (liftSlots ρ B (publicFields B (treeClassB ρ B cls c)) slots)) := by
  unfold lift; rfl

theorem lift_union (ρ : Rho) (B : Env) (fl : Flags) (cls c tag : String) (p : PyVal) :
    lift ρ B (.union fl cls) (.union c tag p) =
      match publicTag? B cls tag with
      | some td => if isVoidT td.ty then .union cls tag .none else .union cls tag (lift ρ B td.ty p)
      | none => .union cls tag p := by
  conv => lhs; unfold lift
  simp only []
  cases publicTag? B cls tag <;> rfl

theorem lift_union_known (ρ : Rho) (B : Env) (fl : Flags) {cls tag : String} {td : TagDef} (c : String) (p : PyVal)
    (h : publicTag? B cls tag = some td) :
    lift ρ B (.union fl cls) (.union c tag p) =
      if isVoidT td.ty then .union cls tag .none else .union cls tag (lift ρ B td.ty p) := by
  rw [lift_union, h]

theorem lift_withFlags (ρ : Rho) (B : Env) (t : PTy) (fl : Flags) (v : PyVal) :
    lift ρ B (t.withFlags fl) v = lift ρ B t v := by
  cases v <;> cases t <;> (unfold lift; rfl)

theorem lift_list_list (ρ : Rho) (B : Env) (fl : Flags) (item : PTy) (a b : Option Nat) (xs : List PyVal) :
    lift ρ B (.list fl item a b) (.list xs) = .list (liftList ρ B item xs) := by
  unfold lift; rfl

theorem lift_map_dict (ρ : Rho) (B : Env) (fl : Flags) (kt vt : PTy) (kvs : List (PyVal × PyVal)) :
    lift ρ B (.map fl kt vt) (.dict kvs) = .dict (liftDict ρ B vt kvs) := by
  unfold lift; rfl

theorem treeClassB_cases (ρ : Rho) (B : Env) (root c : String) :
    treeClassB ρ B root c = root ∨ (leafTag? B root (treeClassB ρ B root c)).isSome = true := by
  unfold treeClassB
  cases ρ.toB c with
  | none => exact .inl rfl
  | some a =>
    simp only []
    by_cases h1 : a = root
    · simp [h1]
    · by_cases h2 : (leafTag? B root a).isSome = true
      · simp [h1, h2]
      · simp [h1, h2]

theorem structSubclass_treeClassB {ρ : Rho} {B : Env} (hwf : envWF B = true) {root c : String} {s : StructDef}
    (hs : B.struct? root = some s) : B.structSubclass (treeClassB ρ B root c) root = true := by
  rcases treeClassB_cases ρ B root c with h | h
  · rw [h]; exact structSubclass_self hwf hs
  · obtain ⟨tag, ht⟩ := Option.isSome_iff_exists.mp h
    exact structSubclass_leaf hwf ht

theorem treeClassB_root {ρ : Rho} (hwf : ρ.wf = true) (B : Env) {a b : String} (hr : ρ.rel a b = true) :
    treeClassB ρ B b a = b := by
  simp [treeClassB, Rho.toB_of_rel hwf hr]

/-! ### related classes, seen from B -/

theorem union_related {ρ : Rho} {A B : Env} (cx : Ctx ρ A B) {a b : String} (hr : ρ.rel a b = true)
    {ua : UnionDef} (hua : A.union? a = some ua) : ∃ ub, B.union? b = some ub := by
  obtain ⟨ub, hub, _⟩ := unionSub_inv (compat_union cx.compat hr hua) hua
  exact ⟨ub, hub⟩

/-- a field of B's table is a field of A's table under the same name (then related to it), or new and optional -/
theorem fieldsRel_partner {ρ : Rho} {B : Env} {fa fb : List FieldDef} (h : FieldsRel ρ B fa fb) {g : FieldDef} (hg : g ∈ fb) :
    (∃ f ∈ fa, fieldSub ρ f g = true) ∨ ((∀ f ∈ fa, f.name ≠ g.name) ∧ newFieldOk B g = true) := by
  by_cases hex : ∃ f ∈ fa, f.name = g.name
  · obtain ⟨f, hf, hn⟩ := hex
    obtain ⟨g', hg', hsub⟩ := h.common f hf
    have : g' = g := by
      have h1 := find_name_of_mem h.nodupB hg
      have h2 := find_name_of_mem h.nodupB hg'
      rw [← fieldSub_name hsub, hn] at h2
      rw [h1] at h2
      exact (Option.some.inj h2).symm
    subst this
    exact .inl ⟨f, hf, hsub⟩
  · rcases h.extra g hg with h1 | h2
    · exact absurd h1 hex
    · right
      refine ⟨?_, h2⟩
      intro f hf hn
      exact hex ⟨f, hf, hn⟩

/-- a field readable on A's instance is readable on the instance seen under B; new fields are always readable -/
theorem attrHas_orderLift (ρ : Rho) (B : Env) {fb' : List FieldDef} (hnd : nodupS (fb'.map (·.name)) = true)
    {g : FieldDef} (slots : List (String × PyVal)) (hmem : g.name ∈ fb'.map (·.name))
    (h : (∃ f : FieldDef, f.name = g.name ∧ f.attrNullable = g.attrNullable ∧ f.dflt.isSome = g.dflt.isSome ∧
            attrHas f slots = true) ∨ newFieldOk B g = true) :
    attrHas g (orderSlots fb' (liftSlots ρ B fb' slots)) = true := by
  rw [attrHas_iff]
  rcases h with ⟨f, hname, hnul, hd, hf⟩ | hnew
  · rw [attrHas_iff] at hf
    rw [lookupSlot_orderSlots _ _ _ hnd, if_pos hmem, lookupSlot_liftSlots]
    have hfind : ∃ g'', fb'.find? (·.name == g.name) = some g'' := by
      cases hq : fb'.find? (·.name == g.name) with
      | some g'' => exact ⟨g'', rfl⟩
      | none => exact absurd hmem (find_name_none hq)
    obtain ⟨g'', hg''⟩ := hfind
    rw [hg'', ← hnul, ← hd, ← hname]
    cases hl : lookupSlot f.name slots <;> simp_all
  · have := newFieldOk_optional hnew
    simp only [optionalAttr, Bool.or_eq_true] at this
    rcases this with h | h <;> simp [h]

/-! ### `validate_type_only` -/

theorem lift_union_shape (ρ : Rho) (B : Env) (fl : Flags) (cls c tag : String) (p : PyVal) :
    ∃ p', lift ρ B (.union fl cls) (.union c tag p) = .union cls tag p' := by
  rw [lift_union]
  split
  · split <;> exact ⟨_, rfl⟩
  · exact ⟨_, rfl⟩

end StoneVerif.Rt.Compat
