import StoneVerif.Lemmas.DeclPyReflStructA
namespace StoneVerif.DeclPy

theorem ancestorCallers_none {api : Api} : ∀ (k : Nat), ancestorCallers api k none = []
  | 0 => rfl
  | _ + 1 => rfl

/-- the caller `oc` of the loop is public, an own caller or an inherited one -/
theorem mem_sCallers {api : Api} {d : DataType} {oc : Option Name} :
    oc ∈ sCallers api d ↔ oc = none ∨ ∃ x, oc = some x ∧ (x ∈ d.ownCallers ∨ x ∈ sParentCallers api d) := by
  simp only [sCallers, mem_sortCallers, List.mem_cons, List.mem_map, mem_dedup, List.mem_append]
  constructor
  · rintro (h | ⟨x, hx, rfl⟩)
    · exact Or.inl h
    · exact Or.inr ⟨x, rfl, hx⟩
  · rintro (h | ⟨x, rfl, hx⟩)
    · exact Or.inl h
    · exact Or.inr ⟨x, hx, rfl⟩

/-- the parent's tables for caller `oc`, when the generator reads them (`caller_in_parent`) -/
theorem pref_ready {api : Api} (hapi : apiWF api = true) {ns : Namespace} (hns : ns ∈ api.namespaces) {st : St}
    (hctx : Ctx api st ns) (hcls : ∀ d ∈ ns.types, ClassOK api st ns d) {pre post : List DataType} {d : DataType}
    (hsplit : ns.types = pre ++ d :: post) (hprer : ∀ y ∈ pre, ReflOK api st ns y) (hs : d.isStruct = true)
    (hp : d.parent.isSome = true) {oc : Option Name}
    (hoc : oc = none ∨ ∃ x, oc = some x ∧ x ∈ sParentCallers api d) :
    (∀ r ∈ pref ns.name d ("_all" ++ callerPrefix oc ++ "_field_names_"), Ready st (modName ns) r)
    ∧ (∀ r ∈ pref ns.name d ("_all" ++ callerPrefix oc ++ "_fields_"), Ready st (modName ns) r) := by
  cases hpar : d.parent with
  | none => simp [hpar] at hp
  | some q =>
    obtain ⟨pns, pn⟩ := q
    obtain ⟨P, nsP, hnsP, hname, hmem, hPn, hpo, hkind, hokP, hreflP, hres⟩ :=
      parent_refl_facts hapi hns hctx hcls hsplit hprer hpar
    have hcaller : IsReflCaller api P oc := by
      rcases hoc with rfl | ⟨x, rfl, hx⟩
      · exact Or.inl rfl
      · exact parent_isReflCaller hpo (mem_dedup.mp hx)
    have hall := hreflP.structAll (by rw [hkind, hs]) oc hcaller
    rw [hname, hPn] at hall
    have key : ∀ attr, HasA st (clsId pns pn) attr → ∀ r ∈ pref ns.name d attr, Ready st (modName ns) r := by
      intro attr ha r hr
      simp only [pref, baseRef, hpar, qual_with_attr, List.mem_singleton] at hr
      subst hr
      exact ⟨_, hres (some attr), fun a ha' => by
        rw [qual_attr] at ha'; injection ha' with ha'; subst ha'; exact ⟨_, rfl, ha⟩⟩
    exact ⟨key _ hall.1, key _ hall.2⟩

/-- in a subtype tree a leaf reads `Cls._<caller>_field_names_` of a caller it does not declare through its base -/
theorem names_inherited {api : Api} (hapi : apiWF api = true) {ns : Namespace} (hns : ns ∈ api.namespaces) {st : St}
    (hwf : StWF st) (hctx : Ctx api st ns) (hcls : ∀ d ∈ ns.types, ClassOK api st ns d)
    {pre post : List DataType} {d : DataType} (hsplit : ns.types = pre ++ d :: post)
    (hprer : ∀ y ∈ pre, ReflOK api st ns y) (hs : d.isStruct = true) (htree : isTreeMember api d = true)
    {x : Name} (hx : x ∈ sParentCallers api d) :
    HasA st (clsId ns.name d.name) ("_" ++ x ++ "_field_names_") := by
  have hd : d ∈ ns.types := by rw [hsplit]; simp
  have htw := typeWF_at hapi hns hsplit
  have hx' := mem_dedup.mp hx
  cases hpo : api.parentOf d with
  | none => rw [hpo, ancestorCallers_none] at hx'; simp at hx'
  | some P' =>
    cases hpar : d.parent with
    | none => simp [Api.parentOf, hpar] at hpo
    | some q =>
      obtain ⟨pns, pn⟩ := q
      obtain ⟨P, nsP, hnsP, hname, hmem, hPn, hpo', hkind, hokP, hreflP, hres⟩ :=
        parent_refl_facts hapi hns hctx hcls hsplit hprer hpar
      rw [hpo] at hpo'; injection hpo' with hpo'; subst hpo'
      have hsubP : P'.hasSubtypes = true := by
        simp only [isTreeMember, hpo, Bool.or_eq_true] at htree
        rcases htree with h | h
        · have := (typeWF_subtypes_clause htw h).2
          rw [hpar] at this; exact absurd this (by simp)
        · exact h
      obtain ⟨preP, htwP⟩ := typeWF_mem hapi hnsP hmem
      have hPpar := (typeWF_subtypes_clause htwP hsubP).2
      have hPpo : api.parentOf P' = none := by simp [Api.parentOf, hPpar]
      have hxP : x ∈ P'.ownCallers := by
        rw [hpo] at hx'
        cases hn : api.nTypes with
        | zero => rw [hn] at hx'; simp [ancestorCallers] at hx'
        | succ k =>
          rw [hn] at hx'
          simpa [ancestorCallers, hPpo, ancestorCallers_none] using hx'
      have hP := hreflP.treeNames (by rw [hkind, hs]) hsubP (some x) (Or.inr ⟨x, rfl, hxP⟩)
      rw [hname, hPn] at hP
      have hentry : (clsId ns.name d.name, some (clsId pns pn)) ∈ st.classes := by
        simpa [parentId, hpar] using (hcls d hd).entry
      exact lookupAttr_inherit hwf.tbl hentry hP

end StoneVerif.DeclPy
