import StoneVerif.Model.Cli
/-! Lemmas about the filter-expression parser `Cli.run` (C19): printed expressions are read back with
their meaning, the accepted token sequences are exactly the grammar `GExpr`. -/
namespace StoneVerif.Cli

/-! ### one-step equations of `run` -/

@[simp] theorem run_want_lpar (o a st ts) :
    run (.want o a) st (.lpar :: ts) = run (.want none none) ((o, a) :: st) ts := by
  simp [run]

@[simp] theorem run_want_atom (o a st x) (op : Op) (l ts) :
    run (.want o a) st (.id x :: op.tok :: .lit l :: ts) = run (.got o (mkAnd a (.pred op x l))) st ts := by
  cases op <;> simp [run, Op.tok]

@[simp] theorem run_got_and (o a st ts) :
    run (.got o a) st (.and :: ts) = run (.want o (some a)) st ts := by
  simp [run]

@[simp] theorem run_got_or (o a st ts) :
    run (.got o a) st (.or :: ts) = run (.want (some (mkOr o a)) none) st ts := by
  simp [run]

@[simp] theorem run_got_rpar (o a o' a' st ts) :
    run (.got o a) ((o', a') :: st) (.rpar :: ts) = run (.got o' (mkAnd a' (mkOr o a))) st ts := by
  simp [run]

@[simp] theorem run_got_end (o a) : run (.got o a) [] [] = .ok (mkOr o a) := by
  simp [run]

/-! ### evaluation of the accumulators -/

/-- value of an `or`-accumulator (neutral element when empty) -/
def evO (o : Option Expr) (r : Attrs) : Bool :=
  match o with
  | none => false
  | some e => e.eval r

/-- value of an `and`-accumulator -/
def evA (a : Option Expr) (r : Attrs) : Bool :=
  match a with
  | none => true
  | some e => e.eval r

@[simp] theorem eval_mkOr (o e r) : (mkOr o e).eval r = (evO o r || e.eval r) := by
  cases o <;> simp [mkOr, evO, Expr.eval]

@[simp] theorem eval_mkAnd (a e r) : (mkAnd a e).eval r = (evA a r && e.eval r) := by
  cases a <;> simp [mkAnd, evA, Expr.eval]

/-! ### printed expressions are read back with their meaning -/

def SExpr.toks (s : SExpr) : List Tok := s.stoks.map STok.tok

def parens (ts : List Tok) : List Tok := .lpar :: ts ++ [.rpar]

theorem toks_atom (op a l) : (SExpr.atom op a l).toks = [.id a, op.tok, .lit l.val] := by
  simp [SExpr.toks, SExpr.stoks, STok.tok]

theorem toks_paren (p : SExpr) : (SExpr.paren p).toks = parens p.toks := by
  simp [SExpr.toks, SExpr.stoks, sparens, parens, STok.tok]

theorem toks_or (l r : SExpr) : (SExpr.conj .or l r).toks = l.toks ++ .or :: r.toks := by
  simp [SExpr.toks, SExpr.stoks, STok.tok, Conj.tok]

/-- an operand of `and`, parenthesised when it is an `or` -/
def wrapOr (p : SExpr) : List Tok := if p.isOr then parens p.toks else p.toks

theorem toks_and (l r : SExpr) : (SExpr.conj .and l r).toks = wrapOr l ++ .and :: wrapOr r := by
  simp only [SExpr.toks, SExpr.stoks, wrapOr, parens]
  cases hl : l.isOr <;> cases hr : r.isOr <;> simp [sparens, STok.tok, Conj.tok]

/-- reading a parenthesised group whose inside is read correctly -/
theorem run_parens {ts : List Tok} {v : Attrs → Bool}
    (h : ∀ o st rest, ∃ o' a', run (.want o none) st (ts ++ rest) = run (.got o' a') st rest ∧
      ∀ r, (mkOr o' a').eval r = (evO o r || v r)) :
    ∀ o a st rest, ∃ a', run (.want o a) st (parens ts ++ rest) = run (.got o a') st rest ∧
      ∀ r, a'.eval r = (evA a r && v r) := by
  intro o a st rest
  obtain ⟨o', a'', h1, h2⟩ := h none ((o, a) :: st) (.rpar :: rest)
  refine ⟨mkAnd a (mkOr o' a''), ?_, ?_⟩
  · simp only [parens, List.cons_append, List.append_assoc, List.nil_append, run_want_lpar]
    rw [h1, run_got_rpar]
  · intro r
    rw [eval_mkAnd, h2 r]
    simp [evO]

/-- The two reading lemmas, proved together by induction on the written expression.
General position (`want o none`): the level's disjunction absorbs the expression.
Operand position (`want o a`, expression not a bare `or`): the pending conjunction absorbs it. -/
theorem run_print (p : SExpr) :
    (∀ o st rest, ∃ o' a', run (.want o none) st (p.toks ++ rest) = run (.got o' a') st rest ∧
      ∀ r, (mkOr o' a').eval r = (evO o r || p.strip.eval r)) ∧
    (p.isOr = false → ∀ o a st rest, ∃ a', run (.want o a) st (p.toks ++ rest) = run (.got o a') st rest ∧
      ∀ r, a'.eval r = (evA a r && p.strip.eval r)) := by
  induction p with
  | atom op x l =>
    have hA : ∀ o a st rest, ∃ a', run (.want o a) st ((SExpr.atom op x l).toks ++ rest) = run (.got o a') st rest ∧
        ∀ r, a'.eval r = (evA a r && (SExpr.atom op x l).strip.eval r) := by
      intro o a st rest
      refine ⟨mkAnd a (.pred op x l.val), ?_, ?_⟩
      · simp [toks_atom]
      · intro r; simp [SExpr.strip]
    refine ⟨?_, fun _ => hA⟩
    intro o st rest
    obtain ⟨a', h1, h2⟩ := hA o none st rest
    exact ⟨o, a', h1, fun r => by simp [h2 r, evA]⟩
  | paren p ih =>
    have hA := run_parens (v := fun r => p.strip.eval r) ih.1
    have hA' : ∀ o a st rest, ∃ a', run (.want o a) st ((SExpr.paren p).toks ++ rest) = run (.got o a') st rest ∧
        ∀ r, a'.eval r = (evA a r && (SExpr.paren p).strip.eval r) := by
      intro o a st rest
      rw [toks_paren]
      simpa [SExpr.strip] using hA o a st rest
    refine ⟨?_, fun _ => hA'⟩
    intro o st rest
    obtain ⟨a', h1, h2⟩ := hA' o none st rest
    exact ⟨o, a', h1, fun r => by simp [h2 r, evA]⟩
  | conj c l r ihl ihr =>
    cases c with
    | or =>
      refine ⟨?_, fun h => by simp [SExpr.isOr] at h⟩
      intro o st rest
      obtain ⟨o1, a1, h1, e1⟩ := ihl.1 o st (.or :: (r.toks ++ rest))
      obtain ⟨o2, a2, h2, e2⟩ := ihr.1 (some (mkOr o1 a1)) st rest
      refine ⟨o2, a2, ?_, ?_⟩
      · rw [toks_or]
        simp only [List.append_assoc, List.cons_append]
        rw [h1, run_got_or, h2]
      · intro x
        rw [e2 x]
        simp only [evO]
        rw [e1 x]
        simp [SExpr.strip, Expr.eval, Bool.or_assoc, evO]
    | and =>
      -- operands, parenthesised when they are `or`s
      have hw : ∀ q : SExpr,
          ((∀ o st rest, ∃ o' a', run (.want o none) st (q.toks ++ rest) = run (.got o' a') st rest ∧
            ∀ x, (mkOr o' a').eval x = (evO o x || q.strip.eval x)) ∧
          (q.isOr = false → ∀ o a st rest, ∃ a', run (.want o a) st (q.toks ++ rest) = run (.got o a') st rest ∧
            ∀ x, a'.eval x = (evA a x && q.strip.eval x))) →
          ∀ o a st rest, ∃ a', run (.want o a) st (wrapOr q ++ rest) = run (.got o a') st rest ∧
            ∀ x, a'.eval x = (evA a x && q.strip.eval x) := by
        intro q ih o a st rest
        unfold wrapOr
        cases hq : q.isOr with
        | true => simpa using run_parens (v := fun x => q.strip.eval x) ih.1 o a st rest
        | false => simpa using ih.2 hq o a st rest
      have hA : ∀ o a st rest, ∃ a', run (.want o a) st ((SExpr.conj .and l r).toks ++ rest) = run (.got o a') st rest ∧
          ∀ x, a'.eval x = (evA a x && (SExpr.conj .and l r).strip.eval x) := by
        intro o a st rest
        obtain ⟨a1, h1, e1⟩ := hw l ihl o a st (.and :: (wrapOr r ++ rest))
        obtain ⟨a2, h2, e2⟩ := hw r ihr o (some a1) st rest
        refine ⟨a2, ?_, ?_⟩
        · rw [toks_and]
          simp only [List.append_assoc, List.cons_append]
          rw [h1, run_got_and, h2]
        · intro x
          rw [e2 x]
          simp only [evA]
          rw [e1 x]
          simp [SExpr.strip, Expr.eval, Bool.and_assoc, evA]
      refine ⟨?_, fun _ => hA⟩
      intro o st rest
      obtain ⟨a', h1, h2⟩ := hA o none st rest
      exact ⟨o, a', h1, fun x => by simp [h2 x, evA]⟩

/-- a written expression parses, and the tree means what was written -/
theorem parseToks_print (p : SExpr) :
    ∃ e, parseToks p.toks = .ok e ∧ ∀ r, e.eval r = p.strip.eval r := by
  obtain ⟨o', a', h1, h2⟩ := (run_print p).1 none [] []
  refine ⟨mkOr o' a', ?_, fun r => by simpa [evO] using h2 r⟩
  simpa [parseToks] using h1

/-! ### flat sequences: `and` binds tighter than `or`, both left associative -/

theorem run_flat (val : Attrs → Atom → Bool) (hval : ∀ r b, val r b = b.expr.eval r) :
    ∀ (rest : List (Conj × Atom)) (o : Option Expr) (acc : Expr),
      ∃ e, run (.got o acc) [] (rest.flatMap (fun p => p.1.tok :: p.2.toks)) = .ok e ∧
        ∀ r, e.eval r = (evO o r || orOfAnds (val r) (acc.eval r) rest) := by
  intro rest
  induction rest with
  | nil => intro o acc; exact ⟨mkOr o acc, by simp, fun r => by simp [orOfAnds]⟩
  | cons p rest ih =>
    intro o acc
    obtain ⟨c, b⟩ := p
    cases c with
    | and =>
      obtain ⟨e, h1, h2⟩ := ih o (mkAnd (some acc) b.expr)
      refine ⟨e, ?_, ?_⟩
      · simpa [List.flatMap_cons, Conj.tok, Atom.toks, Atom.expr] using h1
      · intro r; rw [h2 r]; simp [orOfAnds, evA, hval]
    | or =>
      obtain ⟨e, h1, h2⟩ := ih (some (mkOr o acc)) (mkAnd none b.expr)
      refine ⟨e, ?_, ?_⟩
      · simpa [List.flatMap_cons, Conj.tok, Atom.toks, Atom.expr] using h1
      · intro r; rw [h2 r]; simp [orOfAnds, evO, hval, mkAnd, Bool.or_assoc]

/-! ### the accepted token sequences are exactly the grammar -/

/-- what one level has consumed when an operand is expected: nothing, or an expression and a connective -/
def NeedPre (p : List Tok) : Prop :=
  p = [] ∨ ∃ x, GExpr x ∧ (p = x ++ [.and] ∨ p = x ++ [.or])

theorem NeedPre.append {p x : List Tok} (hp : NeedPre p) (hx : GExpr x) : GExpr (p ++ x) := by
  rcases hp with rfl | ⟨y, hy, rfl | rfl⟩
  · simpa using hx
  · simpa using GExpr.and hy hx
  · simpa using GExpr.or hy hx

/-- the whole input, reassembled from the per-level prefixes (innermost first) and the rest -/
def assemble : List (List Tok) → List Tok → List Tok
  | [], inner => inner
  | p :: ps, inner => assemble ps (p ++ .lpar :: inner)

def StateOk : PState → List Tok → Prop
  | .want _ _, pc => NeedPre pc
  | .got _ _, pc => GExpr pc

theorem run_sound (s : PState) (st : List Frame) (ts : List Tok) (e : Expr) (h : run s st ts = .ok e) :
    ∀ (ps : List (List Tok)) (pc : List Tok), ps.length = st.length → (∀ p ∈ ps, NeedPre p) → StateOk s pc →
      GExpr (assemble ps (pc ++ ts)) := by
  fun_induction run s st ts with
  | case1 o a st ts ih =>
    intro ps pc hl hps hpc
    have := ih h (pc :: ps) [] (by simp [hl]) (by
      intro p hp
      rcases List.mem_cons.mp hp with rfl | hp
      · exact hpc
      · exact hps p hp) (Or.inl rfl)
    simpa [assemble] using this
  | case2 o a st x l ts ih =>
    intro ps pc hl hps hpc
    have := ih h ps (pc ++ [.id x, .eq, .lit l]) hl hps (NeedPre.append hpc (GExpr.predEq x l))
    simpa using this
  | case3 o a st x l ts ih =>
    intro ps pc hl hps hpc
    have := ih h ps (pc ++ [.id x, .neq, .lit l]) hl hps (NeedPre.append hpc (GExpr.predNeq x l))
    simpa using this
  | case12 o a st ts ih =>
    intro ps pc hl hps hpc
    have := ih h ps (pc ++ [.and]) hl hps (Or.inr ⟨pc, hpc, Or.inl rfl⟩)
    simpa using this
  | case13 o a st ts ih =>
    intro ps pc hl hps hpc
    have := ih h ps (pc ++ [.or]) hl hps (Or.inr ⟨pc, hpc, Or.inr rfl⟩)
    simpa using this
  | case14 o a o' a' st ts ih =>
    intro ps pc hl hps hpc
    match ps, hl, hps with
    | p :: ps', hl, hps =>
      have hp : NeedPre p := hps p (by simp)
      have hg : GExpr (p ++ (Tok.lpar :: pc ++ [Tok.rpar])) := NeedPre.append hp (GExpr.parens hpc)
      have := ih h ps' (p ++ (Tok.lpar :: pc ++ [Tok.rpar])) (by simpa using hl)
        (fun q hq => hps q (List.mem_cons_of_mem _ hq)) (by simpa [StateOk] using hg)
      simpa [assemble] using this
  | case17 o a =>
    intro ps pc hl hps hpc
    match ps, hl with
    | [], _ => simpa [assemble, StateOk] using hpc
  | _ => simp_all

theorem parseToks_sound {ts e} (h : parseToks ts = .ok e) : GExpr ts := by
  have := run_sound _ _ _ _ h [] [] rfl (by simp) (Or.inl rfl)
  simpa [assemble] using this

theorem run_complete {ts : List Tok} (h : GExpr ts) :
    ∀ o a st rest, ∃ o' a', run (.want o a) st (ts ++ rest) = run (.got o' a') st rest := by
  induction h with
  | predEq x l => intro o a st rest; exact ⟨o, _, by simpa [Op.tok] using run_want_atom o a st x .eq l rest⟩
  | predNeq x l => intro o a st rest; exact ⟨o, _, by simpa [Op.tok] using run_want_atom o a st x .neq l rest⟩
  | parens _ ih =>
    intro o a st rest
    obtain ⟨o', a', h1⟩ := ih none none ((o, a) :: st) (.rpar :: rest)
    exact ⟨o, mkAnd a (mkOr o' a'), by simp [h1]⟩
  | @or x y _ _ iha ihb =>
    intro o a st rest
    obtain ⟨o1, a1, h1⟩ := iha o a st (.or :: (y ++ rest))
    obtain ⟨o2, a2, h2⟩ := ihb (some (mkOr o1 a1)) none st rest
    exact ⟨o2, a2, by simp [h1, h2]⟩
  | @and x y _ _ iha ihb =>
    intro o a st rest
    obtain ⟨o1, a1, h1⟩ := iha o a st (.and :: (y ++ rest))
    obtain ⟨o2, a2, h2⟩ := ihb o1 (some a1) st rest
    exact ⟨o2, a2, by simp [h1, h2]⟩

theorem GExpr_balanced {ts : List Tok} (h : GExpr ts) : ts.count .lpar = ts.count .rpar := by
  induction h with
  | predEq x l => simp
  | predNeq x l => simp
  | parens _ ih => simp [List.count_append, ih]
  | or _ _ iha ihb => simp [List.count_append, iha, ihb]
  | and _ _ iha ihb => simp [List.count_append, iha, ihb]

theorem parseToks_complete {ts : List Tok} (h : GExpr ts) : ∃ e, parseToks ts = .ok e := by
  obtain ⟨o', a', h1⟩ := run_complete h none none [] []
  exact ⟨mkOr o' a', by simpa [parseToks] using h1⟩

end StoneVerif.Cli
