import StoneVerif.Model.Rt.Encode
import StoneVerif.Model.Rt.Spec
import StoneVerif.Model.Rt.WF
/-!
Helper lemmas for C05 (the encoder produces the documented wire form).

Part 1: class-table lemmas (`fieldsFor [] = fieldsSpec []`, `_tagmap` vs `tagsSpec []`) and the shape of `wire`.
-/
namespace StoneVerif.Rt

/-! ### generic list helpers -/

theorem nodupS_iff (l : List String) : nodupS l = true ↔ l.Nodup := by
  induction l with
  | nil => simp [nodupS]
  | cons x xs ih => simp [nodupS, ih]

/-! ### the struct field table -/

/-- `_all_fields_` of a class with a non-empty chain (given leaf first): the public fields of the
chain, root first, in declaration order. -/
theorem allFieldsAttrRev_none (ls : List Level) (h : ls ≠ []) :
    allFieldsAttrRev none ls = some ((ls.reverse.flatMap (·.fields)).filter (·.omitted == none)) := by
  induction ls with
  | nil => exact absurd rfl h
  | cons l parents ih =>
    by_cases hp : parents = []
    · subst hp; simp [allFieldsAttrRev]
    · have hne : parents.isEmpty = false := by cases parents <;> simp_all
      rw [allFieldsAttrRev]
      simp [hne, ih hp, List.filter_append]

theorem allFieldsAttr_none_getD (s : StructDef) :
    (s.allFieldsAttr none).getD [] = (s.levels.flatMap (·.fields)).filter (·.omitted == none) := by
  unfold StructDef.allFieldsAttr
  by_cases h : s.levels = []
  · simp [h, allFieldsAttrRev]
  · rw [allFieldsAttrRev_none _ (by simpa using h)]
    simp

theorem fieldsSpec_nil (s : StructDef) :
    s.fieldsSpec [] = (s.levels.flatMap (·.fields)).filter (·.omitted == none) := by
  unfold StructDef.fieldsSpec
  apply List.filter_congr
  intro f _
  cases f.omitted <;> simp

/-- TABLE LEMMA: for a caller without permissions the table `encode_struct` walks (`_all_fields_`, as the
generated reflection code assigns and inherits it) is exactly the public fields of the chain, parents first. -/
theorem fieldsFor_nil (s : StructDef) : s.fieldsFor [] = s.fieldsSpec [] := by
  simp [StructDef.fieldsFor, allFieldsAttr_none_getD, fieldsSpec_nil]

theorem allFieldsAttr_none_getD_eq_fieldsSpec (s : StructDef) :
    (s.allFieldsAttr none).getD [] = s.fieldsSpec [] := by
  rw [allFieldsAttr_none_getD, fieldsSpec_nil]

/-! ### the union tag table -/

theorem tagmapAttrRev_none (ls : List ULevel) (h : ls ≠ []) :
    tagmapAttrRev none ls = some ((ls.flatMap (·.tags)).filter (·.omitted == none)) := by
  induction ls with
  | nil => exact absurd rfl h
  | cons l parents ih =>
    by_cases hp : parents = []
    · subst hp; simp [tagmapAttrRev]
    · have hne : parents.isEmpty = false := by cases parents <;> simp_all
      rw [tagmapAttrRev]
      simp [hne, ih hp, List.filter_append]

/-- `_tagmap` holds the public tags of the chain, the class's own first, then its parents'. -/
theorem tagmapAttr_none_getD (u : UnionDef) :
    (u.tagmapAttr none).getD [] = (u.levels.reverse.flatMap (·.tags)).filter (·.omitted == none) := by
  unfold UnionDef.tagmapAttr
  by_cases h : u.levels = []
  · simp [h, tagmapAttrRev]
  · rw [tagmapAttrRev_none _ (by simpa using h)]
    simp

theorem tagsSpec_nil (u : UnionDef) :
    u.tagsSpec [] = (u.levels.flatMap (·.tags)).filter (·.omitted == none) := by
  unfold UnionDef.tagsSpec
  apply List.filter_congr
  intro f _
  cases f.omitted <;> simp

theorem findTag_eq_find? (tag : String) (l : List TagDef) : findTag tag l = l.find? (·.name == tag) := by
  induction l with
  | nil => rfl
  | cons t ts ih =>
    simp only [findTag, List.find?_cons, ih]
    cases h : t.name == tag <;> simp

theorem findTag_some_mem {tag : String} {l : List TagDef} {t : TagDef} (h : findTag tag l = some t) :
    t ∈ l ∧ t.name = tag := by
  rw [findTag_eq_find?] at h
  exact ⟨List.mem_of_find?_eq_some h, by simpa using List.find?_some h⟩

/-- with unique names, `findTag` finds the one entry of that name wherever it stands -/
theorem findTag_of_mem {l : List TagDef} (hnd : (l.map (·.name)).Nodup) {t : TagDef} (ht : t ∈ l) :
    findTag t.name l = some t := by
  induction l with
  | nil => cases ht
  | cons a as ih =>
    simp only [List.map_cons, List.nodup_cons] at hnd
    simp only [findTag]
    rcases List.mem_cons.mp ht with rfl | hm
    · simp
    · have : a.name ≠ t.name := by
        intro he; exact hnd.1 (he ▸ List.mem_map_of_mem hm)
      simp [this, ih hnd.2 hm]

theorem findTag_congr_of_nodup {l₁ l₂ : List TagDef} (hnd₁ : (l₁.map (·.name)).Nodup) (hnd₂ : (l₂.map (·.name)).Nodup)
    (hmem : ∀ t, t ∈ l₁ ↔ t ∈ l₂) (tag : String) : findTag tag l₁ = findTag tag l₂ := by
  cases h₁ : findTag tag l₁ with
  | some t =>
    obtain ⟨hm, rfl⟩ := findTag_some_mem h₁
    exact (findTag_of_mem hnd₂ ((hmem t).mp hm)).symm
  | none =>
    cases h₂ : findTag tag l₂ with
    | none => rfl
    | some t =>
      obtain ⟨hm, rfl⟩ := findTag_some_mem h₂
      rw [findTag_of_mem hnd₁ ((hmem t).mpr hm)] at h₁
      cases h₁

/-! ### the shape of `wire` -/

theorem wireList_eq_map (E : Ext) (env : Env) (t : PTy) (xs : List PyVal) :
    wireList E env t xs = xs.map (wire E env t) := by
  induction xs with
  | nil => simp [wireList]
  | cons x xs ih => simp [wireList, ih]

theorem wireDict_strKeys (E : Ext) (env : Env) (vt : PTy) (ks : List (String × PyVal)) :
    wireDict E env vt (ks.map fun kx => (.str kx.1, kx.2)) = ks.map fun kx => (kx.1, wire E env vt kx.2) := by
  induction ks with
  | nil => simp [wireDict]
  | cons kx ks ih => simp [wireDict, ih]

theorem pick_keys (fields : List FieldDef) (enc : List (String × JVal)) :
    (pick fields enc).map (·.1) = (fields.filter fun f => (lookupW f.name enc).isSome).map (·.name) := by
  induction fields with
  | nil => simp [pick]
  | cons f fs ih =>
    simp only [pick, List.filterMap_cons] at ih ⊢
    cases h : lookupW f.name enc <;> simp [h, ih]

/-- a slot that is set to something other than None -/
def slotSet (name : String) (slots : List (String × PyVal)) : Bool :=
  slots.any fun kx => kx.1 == name && !isNoneV kx.2

theorem lookupW_wireSlots_isSome (E : Ext) (env : Env) (fields : List FieldDef) (name : String)
    (hf : (fields.find? (·.name == name)).isSome) (slots : List (String × PyVal)) :
    (lookupW name (wireSlots E env fields slots)).isSome = slotSet name slots := by
  induction slots with
  | nil => simp [wireSlots, lookupW, slotSet]
  | cons kx rest ih =>
    obtain ⟨k, x⟩ := kx
    unfold slotSet at ih ⊢
    by_cases hk : k = name
    · subst hk
      obtain ⟨f, hf'⟩ := Option.isSome_iff_exists.mp hf
      cases x <;> simp [wireSlots, hf', lookupW, isNoneV, ih]
    · cases hfk : fields.find? (·.name == k) <;> cases x <;> simp [wireSlots, hfk, lookupW, isNoneV, ih, hk]

end StoneVerif.Rt
