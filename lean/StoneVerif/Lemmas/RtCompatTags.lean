import StoneVerif.Lemmas.RtCompatVal
import StoneVerif.Lemmas.RtWireMain
/-!
Helper lemmas for C07, part 5: what `unionSub` / `structSub` say about the tag tables and the enumerated-subtype tables of a
related pair of classes, in the form the decoder consults them (caller without permissions).
-/
namespace StoneVerif.Rt.Compat
open StoneVerif.Rt

/-! ### tags -/

theorem findTag_filter (p : TagDef → Bool) (tag : String) : ∀ (l : List TagDef), nodupS (l.map (·.name)) = true →
    findTag tag (l.filter p) = match findTag tag l with
      | some t => if p t then some t else none
      | none => none
  | [], _ => rfl
  | t :: l, hnd => by
    obtain ⟨ht, hl⟩ := nodupS_cons hnd
    have ih := findTag_filter p tag l hl
    by_cases hn : t.name = tag
    · subst hn
      have hnone : findTag t.name l = none := by
        cases hf : findTag t.name l with
        | none => rfl
        | some t' =>
          obtain ⟨hm, hn'⟩ := findTag_some_mem hf
          exact absurd (List.mem_map.mpr ⟨t', hm, hn'⟩) ht
      by_cases hp : p t = true
      · simp [List.filter, hp, findTag]
      · simp only [List.filter, hp, findTag, beq_self_eq_true, if_true]
        rw [ih, hnone]
        simp [hp]
    · have hne : (t.name == tag) = false := by simpa using hn
      by_cases hp : p t = true
      · simp only [List.filter, hp, findTag, hne]
        exact ih
      · simp only [List.filter, hp, findTag, hne]
        exact ih

def isPublicTag (t : TagDef) : Bool := t.omitted.isNone

theorem publicTag_eq {env : Env} {cls : String} {u : UnionDef} (hu : env.union? cls = some u) (tag : String) :
    publicTag? env cls tag = findTag tag ((UnionDef.allTags u).filter isPublicTag) := by
  simp only [publicTag?, hu, UnionDef.tagsSpec, UnionDef.allTags]
  congr 1
  apply List.filter_congr
  intro t _
  cases ho : t.omitted <;> simp [isPublicTag, ho]

theorem union_tags_nodup {env : Env} {u : UnionDef} (h : u.wf env = true) :
    nodupS ((UnionDef.allTags u).map (·.name)) = true := by
  simp only [UnionDef.wf, Bool.and_eq_true] at h
  exact h.1.1.1.2

theorem publicTag_all {env : Env} (hwf : envWF env = true) {cls : String} {u : UnionDef} (hu : env.union? cls = some u)
    (tag : String) :
    publicTag? env cls tag = match findTag tag (UnionDef.allTags u) with
      | some t => if isPublicTag t then some t else none
      | none => none := by
  rw [publicTag_eq hu, findTag_filter _ _ _ (union_tags_nodup (union_wf hwf hu))]

theorem unionSub_inv {ρ : Rho} {A B : Env} {a b : String} (h : unionSub ρ A B a b = true) {ua : UnionDef}
    (hu : A.union? a = some ua) :
    ∃ ub, B.union? b = some ub ∧ ua.catchAll = ub.catchAll ∧
      (∀ t ∈ UnionDef.allTags ua, ∃ t', findTag t.name (UnionDef.allTags ub) = some t' ∧ t.omitted = t'.omitted ∧
        (tySub ρ t.ty t'.ty = true ∨ (isVoidT t.ty = true ∧ ua.catchAll ≠ some t.name))) ∧
      (ua.catchAll.isSome = true ∨ ∀ t' ∈ UnionDef.allTags ub, (findTag t'.name (UnionDef.allTags ua)).isSome = true) := by
  unfold unionSub at h
  rw [hu] at h
  cases hb : B.union? b with
  | none => simp [hb] at h
  | some ub =>
    simp only [hb, Bool.and_eq_true, List.all_eq_true, Bool.or_eq_true, beq_iff_eq] at h
    refine ⟨ub, rfl, h.1.1, ?_, h.2⟩
    intro t ht
    have := h.1.2 t ht
    cases hf : findTag t.name (UnionDef.allTags ub) with
    | none => simp [hf] at this
    | some t' =>
      simp only [hf, Bool.and_eq_true, beq_iff_eq, Bool.or_eq_true, Bool.not_eq_true', beq_eq_false_iff_ne] at this
      exact ⟨t', rfl, this.1, this.2⟩

/-- the tag tables of a related pair of unions, as the decoder sees them -/
structure TagsRel (ρ : Rho) (A B : Env) (a b : String) : Prop where
  catchAll : catchAllOf A a = catchAllOf B b
  known : ∀ tag tdA, publicTag? A a tag = some tdA → ∃ tdB, publicTag? B b tag = some tdB ∧
    (tySub ρ tdA.ty tdB.ty = true ∨ (isVoidT tdA.ty = true ∧ catchAllOf A a ≠ some tag))
  fresh : ∀ tag tdB, publicTag? A a tag = none → publicTag? B b tag = some tdB → (catchAllOf A a).isSome = true

theorem tagsRel {ρ : Rho} {A B : Env} (cx : Ctx ρ A B) {a b : String} (hr : ρ.rel a b = true) {ua : UnionDef}
    (hu : A.union? a = some ua) : TagsRel ρ A B a b := by
  obtain ⟨ub, hub, hca, hknown, hfresh⟩ := unionSub_inv (compat_union cx.compat hr hu) hu
  have hcaA : catchAllOf A a = ua.catchAll := by simp [catchAllOf, hu]
  have hcaB : catchAllOf B b = ub.catchAll := by simp [catchAllOf, hub]
  refine ⟨by rw [hcaA, hcaB, hca], ?_, ?_⟩
  · intro tag tdA htA
    rw [publicTag_all cx.wfA hu] at htA
    cases hf : findTag tag (UnionDef.allTags ua) with
    | none => simp [hf] at htA
    | some t =>
      simp only [hf] at htA
      split at htA
      · rename_i hp
        cases htA
        obtain ⟨hm, hn⟩ := findTag_some_mem hf
        obtain ⟨t', ht', hom, hty⟩ := hknown tdA hm
        rw [hn] at ht'
        refine ⟨t', ?_, ?_⟩
        · rw [publicTag_all cx.wfB hub, ht']
          have : isPublicTag t' = true := by simpa [isPublicTag, ← hom] using hp
          simp [this]
        · rw [hcaA, ← hn]; exact hty
      · cases htA
  · intro tag tdB htA htB
    rw [hcaA]
    rcases hfresh with h | h
    · exact h
    · exfalso
      rw [publicTag_all cx.wfB hub] at htB
      cases hf : findTag tag (UnionDef.allTags ub) with
      | none => simp [hf] at htB
      | some t' =>
        simp only [hf] at htB
        split at htB
        · rename_i hp
          cases htB
          obtain ⟨hm, hn⟩ := findTag_some_mem hf
          have := h tdB hm
          rw [hn] at this
          obtain ⟨t, ht⟩ := Option.isSome_iff_exists.mp this
          obtain ⟨hmA, hnA⟩ := findTag_some_mem ht
          obtain ⟨t'', ht'', hom, _⟩ := hknown t hmA
          rw [hnA, hf] at ht''
          cases ht''
          rw [publicTag_all cx.wfA hu, ht] at htA
          have : isPublicTag t = true := by simpa [isPublicTag, hom] using hp
          simp [this] at htA
        · cases htB

/-- the decoder's three look-ups for a caller without permissions -/
theorem tag_lookup {env : Env} (hwf : envWF env = true) {cls : String} {u : UnionDef} (hu : env.union? cls = some u)
    (tag : String) :
    u.isTagPresent tag [] = (publicTag? env cls tag).isSome ∧
    u.valDataType tag [] = (publicTag? env cls tag).map (·.ty) := by
  have := tagmap_lookup hwf hu tag
  simp [UnionDef.isTagPresent, UnionDef.valDataType, this]

theorem findTag_append' (n : String) : ∀ (a b : List TagDef),
    findTag n (a ++ b) = match findTag n a with
      | some t => some t
      | none => findTag n b
  | [], b => rfl
  | t :: a, b => by
    simp only [List.cons_append, findTag]
    split
    · rfl
    · exact findTag_append' n a b

theorem ctorValidator_public {env : Env} (hwf : envWF env = true) {cls tag : String} {u : UnionDef} {td : TagDef}
    (hu : env.union? cls = some u) (htag : publicTag? env cls tag = some td) : u.ctorValidator tag = some td.ty := by
  have h1 := tagmap_lookup hwf hu tag
  rw [htag] at h1
  have h2 : findTag tag ((u.tagmapAttr none).getD []) = some td := by
    cases hm : u.tagmapAttr none with
    | none => simp [hm] at h1
    | some l => simpa [hm] using h1
  simp [UnionDef.ctorValidator, findTag_append', h2]

theorem catchAll_tag {env : Env} (hwf : envWF env = true) {cls ca : String} (h : catchAllOf env cls = some ca) :
    ∃ td, publicTag? env cls ca = some td ∧ ∃ fl, td.ty = .void fl ∧ fl.nullable = false := by
  unfold catchAllOf at h
  cases hu : env.union? cls with
  | none => simp [hu] at h
  | some u =>
    simp only [hu, Option.bind_some] at h
    have hw := union_wf hwf hu
    have hw' := hw
    simp only [UnionDef.wf, Bool.and_eq_true] at hw'
    have h5 := hw'.2
    simp only [h] at h5
    cases hf : findTag ca (u.levels.flatMap (·.tags)) with
    | none => simp [hf] at h5
    | some t =>
      simp only [hf, Bool.and_eq_true] at h5
      refine ⟨t, ?_, ?_⟩
      · rw [publicTag_all hwf hu]
        have : findTag ca (UnionDef.allTags u) = some t := hf
        simp [this, isPublicTag, h5.1]
      · obtain ⟨hm, _⟩ := findTag_some_mem hf
        have h3 := hw'.1.1.2
        simp only [List.all_eq_true, Bool.and_eq_true] at h3
        have hty := (h3 t hm).2
        cases hq : t.ty <;> simp [hq] at h5
        rename_i fl
        exact ⟨fl, rfl, by simpa [hq, tyWF] using hty⟩

/-! ### enumerated subtypes -/

/-- the subtype tables of a related pair of enumerated roots -/
structure SubsRel (ρ : Rho) (sa sb : StructDef) : Prop where
  catchAll : sa.catchAll = sb.catchAll
  known : ∀ e ∈ sa.subtypes.getD [], ∃ e', findSub e.1 (sb.subtypes.getD []) = some e' ∧ ρ.rel e.2.1 e'.2.1 = true ∧ e.2.2 = e'.2.2
  fresh : sa.catchAll = true ∨ ∀ e' ∈ sb.subtypes.getD [], (findSub e'.1 (sa.subtypes.getD [])).isSome = true

theorem subsRel {ρ : Rho} {A B : Env} {a b : String} (h : structSub ρ A B a b = true) {sa sb : StructDef}
    (hsa : A.struct? a = some sa) (hsb : B.struct? b = some sb) (hta : sa.subtypes.isSome = true) :
    sb.subtypes.isSome = true ∧ SubsRel ρ sa sb := by
  unfold structSub at h
  simp only [hsa, hsb, Bool.and_eq_true] at h
  have h3 := h.2
  cases hxa : sa.subtypes with
  | none => simp [hxa] at hta
  | some xa =>
    cases hxb : sb.subtypes with
    | none => simp [hxa, hxb] at h3
    | some xb =>
      simp only [hxa, hxb, Bool.and_eq_true, beq_iff_eq, List.all_eq_true, Bool.or_eq_true] at h3
      refine ⟨rfl, h3.1.1, ?_, ?_⟩
      · intro e he
        rw [hxa] at he
        rw [hxb]
        simp only [Option.getD_some] at he ⊢
        have := h3.1.2 e he
        cases hf : findSub e.1 xb with
        | none => simp [hf] at this
        | some e' =>
          simp only [hf, Bool.and_eq_true, beq_iff_eq] at this
          exact ⟨e', rfl, this.1, this.2⟩
      · rw [hxa, hxb]
        simp only [Option.getD_some]
        rcases h3.2 with h | h
        · exact .inl h
        · exact .inr h

end StoneVerif.Rt.Compat
