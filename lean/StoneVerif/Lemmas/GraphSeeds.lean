import StoneVerif.Lemmas.GraphDfs
/-! The starting points of the walk (`route_data_types`) characterised at specification level. -/
namespace StoneVerif.Graph

/-- doc references of a node id -/
def docsOf (g : Graph) (r : Id) : List DocRef :=
  match g.node? r with
  | some n => n.docRefs
  | none => []

/-- what `parse_data_types_from_doc_ref` returns for a doc whose references denote `specDocs`: the
data types, and the io types of the routes -/
def docStart (g : Graph) (ns : String) (refs : List DocRef) : List Id :=
  (specDocs g ns refs).1 ++ (specDocs g ns refs).2.flatMap (ioOf g)

def nsStart (g : Graph) (ns : String) : List Id :=
  match g.ns? ns with
  | some n => docStart g ns n.docRefs
  | none => []

theorem parseDocTypes_spec {g : Graph} {ctx ns : String} {refs : List DocRef} {l : List Id}
    (hp : parseDocs g ctx refs = .ok (specDocs g ns refs)) (h : parseDocTypes g ctx refs = .ok l) :
    ∀ b, b ∈ l ↔ b ∈ docStart g ns refs := by
  simp only [parseDocTypes, hp] at h
  split at h
  · simp at h
  · rename_i io hio
    have : (specDocs g ns refs).1 ++ io = l := by simpa using h
    subst this
    intro b
    simp only [docStart, List.mem_append, List.mem_flatMap, (routesIo_ok hio).2 b]

/-- two lists of the same length, related element by element -/
inductive Zip2 {α β : Type} (R : α → β → Prop) : List α → List β → Prop where
  | nil : Zip2 R [] []
  | cons {a b as bs} : R a b → Zip2 R as bs → Zip2 R (a :: as) (b :: bs)

theorem parseReprs_ok {reprs : List String} {cr : List (String × Nat)} (h : parseReprs reprs = .ok cr) :
    Zip2 (fun r c => parseRouteRepr r = .ok c) reprs cr := by
  induction reprs generalizing cr with
  | nil =>
    simp only [parseReprs] at h
    cases h; exact .nil
  | cons r rs ih =>
    simp only [parseReprs] at h
    split at h
    · rename_i a b ha hb
      cases h
      exact .cons ha (ih hb)
    · simp at h
    · simp at h

theorem listed_iff {g : Graph} {ns : String} {p : Node → Bool} {id : Id} :
    g.listed ns p id = true ↔ ∃ nd, g.node? id = some nd ∧ p nd = true ∧ nd.ns = ns := by
  simp only [Graph.listed]
  split <;> simp_all

theorem refsOk_routes {g : Graph} (hwf : g.refsOk = true) {ns : String} {n : Namespace} (hn : g.ns? ns = some n)
    {r : Id} (hr : r ∈ n.routes) : ∃ nd, g.node? r = some nd ∧ nd.isRoute = true ∧ nd.ns = ns := by
  simp only [Graph.refsOk, Bool.and_eq_true, List.all_eq_true] at hwf
  have := (hwf.2 n (ns?_name hn).1).1.1 r hr
  rw [(ns?_name hn).2] at this
  exact listed_iff.1 this

theorem idOk_route {g : Graph} (hwf : g.refsOk = true) {r : Id} {nd : Node} (hnd : g.node? r = some nd)
    (hk : nd.isRoute = true) : r = routeId nd.ns nd.name nd.version := by
  have h := (refsOk_node hwf hnd).1
  have hk' : nd.kind = Kind.route := by simpa [Node.isRoute] using hk
  simp only [Node.idOk, hk', beq_self_eq_true, ↓reduceIte, beq_iff_eq] at h
  rw [← (node?_mem hnd).2, h]

/-- a listed route is found under its name and version -/
theorem routeByName_listed {g : Graph} (hwf : g.refsOk = true) {r : Id} {nd : Node} (hnd : g.node? r = some nd)
    (hk : nd.isRoute = true) : g.routeByName nd.ns nd.name nd.version = some r := by
  have hid := idOk_route hwf hnd hk
  simp only [Graph.routeByName, ← hid, hnd, hk, beq_self_eq_true, Bool.and_self, ↓reduceIte]
  simp [(node?_mem hnd).2]

/-- the canonical form of one whitelist entry -/
def CanonOf (g : Graph) (ns : String) (reprs : List String) (cr : List (String × Nat)) : Prop :=
  if reprs == ["*"] then
    ∃ n, g.ns? ns = some n ∧ cr = n.routes.filterMap fun r => (g.node? r).map fun nd => (nd.name, nd.version)
  else parseReprs reprs = .ok cr

theorem canon_ids {g : Graph} (hwf : g.refsOk = true) {ns : String} {reprs : List String}
    {cr : List (String × Nat)} {ids : List Id} (hc : CanonOf g ns reprs cr)
    (hl : Zip2 (fun c r => g.routeByName ns c.1 c.2 = some r) cr ids) :
    ids = wlRouteIds g ns reprs := by
  simp only [CanonOf] at hc
  simp only [wlRouteIds]
  split at hc
  · rename_i hstar
    simp only [hstar, ↓reduceIte]
    obtain ⟨n, hn, hcr⟩ := hc
    simp only [hn]
    subst hcr
    have key : ∀ (rs : List Id), (∀ r ∈ rs, r ∈ n.routes) → ∀ ids,
        Zip2 (fun c r => g.routeByName ns c.1 c.2 = some r)
          (rs.filterMap fun r => (g.node? r).map fun nd => (nd.name, nd.version)) ids → ids = rs := by
      intro rs
      induction rs with
      | nil => intro _ ids h; cases h; rfl
      | cons r rs ih =>
        intro hsub ids h
        obtain ⟨nd, hnd, hk, hns⟩ := refsOk_routes hwf hn (hsub r (List.mem_cons_self ..))
        simp only [List.filterMap_cons, hnd, Option.map_some] at h
        cases h with
        | cons h1 h2 =>
          rename_i r' ids'
          have := routeByName_listed hwf hnd hk
          rw [hns] at this
          simp only at h1
          rw [this] at h1
          have hr : r = r' := by simpa using h1
          subst hr
          rw [ih (fun x hx => hsub x (List.mem_cons_of_mem _ hx)) ids' h2]
    exact key n.routes (fun _ h => h) ids hl
  · rename_i hstar
    simp only [hstar, Bool.false_eq_true, ↓reduceIte]
    have hp := parseReprs_ok hc
    clear hc hstar
    induction hp generalizing ids with
    | nil => cases hl; simp
    | cons h1 _ ih =>
      cases hl with
      | cons h3 h4 =>
        simp only [List.flatMap_cons, h1, h3, Option.toList_some, List.singleton_append]
        rw [ih h4]

theorem routeSeeds_spec {g : Graph} (hda : docsAgree g = true) {ns : String} {cr : List (String × Nat)}
    {ts ids : List Id} (h : routeSeeds g ns cr = .ok (ts, ids)) :
    Zip2 (fun c r => g.routeByName ns c.1 c.2 = some r) cr ids ∧
    ∀ b, b ∈ ts ↔ ∃ r ∈ ids, b ∈ ioOf g r ∨ b ∈ docStart g ns (docsOf g r) := by
  induction cr generalizing ts ids with
  | nil =>
    simp only [routeSeeds] at h
    cases h
    exact ⟨.nil, by simp⟩
  | cons c cr ih =>
    obtain ⟨name, v⟩ := c
    simp only [routeSeeds] at h
    split at h
    · simp at h
    · rename_i rt hrt
      split at h
      · rename_i io nd hio hnd
        obtain ⟨nd', hnd', _, hns, _⟩ := routeByName_some hrt
        have hnn : nd' = nd := by rw [hnd] at hnd'; exact (Option.some.inj hnd').symm
        subst hnn
        split at h
        · simp at h
        · rename_i dts hdts
          split at h
          · simp at h
          · rename_i ts' ids' hrest
            simp only [Except.ok.injEq, Prod.mk.injEq] at h
            obtain ⟨h1, h2⟩ := h
            subst h1 h2
            obtain ⟨ih1, ih2⟩ := ih hrest
            refine ⟨.cons hrt ih1, ?_⟩
            intro b
            have hdoc := docsAgree_node hda hnd
            rw [hns] at hdoc
            have hd := parseDocTypes_spec hdoc hdts b
            have hio' := (routeIo_ok hio).2
            simp only [List.mem_append, hd, ih2 b, List.mem_cons, hio']
            constructor
            · rintro ((h | h) | ⟨r, hr, h⟩)
              · exact ⟨rt, Or.inl rfl, Or.inl h⟩
              · exact ⟨rt, Or.inl rfl, Or.inr (by simpa [docsOf, hnd] using h)⟩
              · exact ⟨r, Or.inr hr, h⟩
            · rintro ⟨r, rfl | hr, h⟩
              · rcases h with h | h
                · exact Or.inl (Or.inl h)
                · exact Or.inl (Or.inr (by simpa [docsOf, hnd] using h))
              · exact Or.inr ⟨r, hr, h⟩
      · simp at h
      · simp at h

/-- "Parse the route whitelist and populate any starting data types", at specification level -/
theorem routeWhitelistSeeds_spec {g : Graph} (hwf : g.refsOk = true) (hda : docsAgree g = true)
    {l : List (String × List String)} {c : List (String × List (String × Nat))} {rts ids : List Id}
    (h1 : canonicalRoutes g l = .ok c) (h2 : routeWhitelistSeeds g c = .ok (rts, ids)) :
    ids = l.flatMap (fun p => wlRouteIds g p.1 p.2) ∧ (∀ p ∈ l, ∃ n, g.ns? p.1 = some n) ∧
    ∀ b, b ∈ rts ↔ ∃ p ∈ l, b ∈ nsStart g p.1 ∨
      ∃ r ∈ wlRouteIds g p.1 p.2, b ∈ ioOf g r ∨ b ∈ docStart g p.1 (docsOf g r) := by
  induction l generalizing c rts ids with
  | nil =>
    simp only [canonicalRoutes] at h1
    cases h1
    simp only [routeWhitelistSeeds] at h2
    cases h2
    simp
  | cons p l ih =>
    obtain ⟨ns, reprs⟩ := p
    simp only [canonicalRoutes] at h1
    split at h1
    · rename_i a c' ha hc'
      cases h1
      have hcanon : CanonOf g ns reprs a := by
        by_cases hstar : (reprs == ["*"]) = true
        · simp only [CanonOf, hstar, ↓reduceIte]
          simp only [hstar, ↓reduceIte] at ha
          split at ha
          · simp at ha
          · rename_i n hn
            exact ⟨n, hn, by simpa using ha.symm⟩
        · simp only [CanonOf, hstar, Bool.false_eq_true, ↓reduceIte]
          simpa only [hstar, Bool.false_eq_true, ↓reduceIte] using ha
      simp only [routeWhitelistSeeds] at h2
      split at h2
      · simp at h2
      · rename_i n hn
        split at h2
        · simp at h2
        · rename_i nsDoc hnsDoc
          split at h2
          · simp at h2
          · split at h2
            · simp at h2
            · rename_i ts ids0 hrs
              split at h2
              · simp at h2
              · rename_i ts' ids' hrest
                simp only [Except.ok.injEq, Prod.mk.injEq] at h2
                obtain ⟨e1, e2⟩ := h2
                subst e1 e2
                obtain ⟨i1, i2, i3⟩ := ih hc' hrest
                obtain ⟨r1, r2⟩ := routeSeeds_spec hda hrs
                have hids := canon_ids hwf hcanon r1
                refine ⟨by simp [List.flatMap_cons, hids, i1], ?_, ?_⟩
                · intro p hp
                  rcases List.mem_cons.1 hp with rfl | hp
                  · exact ⟨n, hn⟩
                  · exact i2 p hp
                · intro b
                  have hd := parseDocTypes_spec (docsAgree_ns hda hn) hnsDoc b
                  simp only [List.mem_append, hd, r2 b, i3 b, List.mem_cons, hids]
                  constructor
                  · rintro ((h | h) | ⟨p, hp, h⟩)
                    · exact ⟨(ns, reprs), Or.inl rfl, Or.inl (by simpa [nsStart, hn] using h)⟩
                    · exact ⟨(ns, reprs), Or.inl rfl, Or.inr h⟩
                    · exact ⟨p, Or.inr hp, h⟩
                  · rintro ⟨p, rfl | hp, h⟩
                    · rcases h with h | h
                      · exact Or.inl (Or.inl (by simpa [nsStart, hn] using h))
                      · exact Or.inl (Or.inr h)
                    · exact Or.inr ⟨p, hp, h⟩
    · simp at h1
    · simp at h1

theorem typeSeeds_spec {g : Graph} {ns : String} {names : List String} {ids : List Id}
    (h : typeSeeds g ns names = .ok ids) : ids = names.flatMap (fun t => (g.typeByName ns t).toList) := by
  induction names generalizing ids with
  | nil =>
    simp only [typeSeeds] at h
    cases h; simp
  | cons t rest ih =>
    simp only [typeSeeds] at h
    split at h
    · simp at h
    · rename_i id hid
      split at h
      · simp at h
      · rename_i ids' hrest
        cases h
        simp [List.flatMap_cons, hid, ih hrest]

/-- "Parse the datatype whitelist and populate any starting data types", at specification level -/
theorem datatypeWhitelistSeeds_spec {g : Graph} (hda : docsAgree g = true) {l : List (String × List String)}
    {dts : List Id} (h : datatypeWhitelistSeeds g l = .ok dts) :
    (∀ p ∈ l, ∃ n, g.ns? p.1 = some n) ∧
    ∀ b, b ∈ dts ↔ ∃ p ∈ l, b ∈ nsStart g p.1 ∨ b ∈ p.2.flatMap (fun t => (g.typeByName p.1 t).toList) := by
  induction l generalizing dts with
  | nil =>
    simp only [datatypeWhitelistSeeds] at h
    cases h; simp
  | cons p l ih =>
    obtain ⟨ns, names⟩ := p
    simp only [datatypeWhitelistSeeds] at h
    split at h
    · simp at h
    · rename_i n hn
      split at h
      · simp at h
      · rename_i nsDoc hnsDoc
        split at h
        · rename_i a b' ha hb
          cases h
          obtain ⟨i1, i2⟩ := ih hb
          have ht := typeSeeds_spec ha
          refine ⟨?_, ?_⟩
          · intro p hp
            rcases List.mem_cons.1 hp with rfl | hp
            · exact ⟨n, hn⟩
            · exact i1 p hp
          · intro b
            have hd := parseDocTypes_spec (docsAgree_ns hda hn) hnsDoc b
            simp only [List.mem_append, hd, i2 b, List.mem_cons, ht]
            constructor
            · rintro ((h | h) | ⟨p, hp, h⟩)
              · exact ⟨(ns, names), Or.inl rfl, Or.inl (by simpa [nsStart, hn] using h)⟩
              · exact ⟨(ns, names), Or.inl rfl, Or.inr h⟩
              · exact ⟨p, Or.inr hp, h⟩
            · rintro ⟨p, rfl | hp, h⟩
              · rcases h with h | h
                · exact Or.inl (Or.inl (by simpa [nsStart, hn] using h))
                · exact Or.inl (Or.inr h)
              · exact Or.inr ⟨p, hp, h⟩
        · simp at h
        · simp at h

end StoneVerif.Graph
