import StoneVerif.Lemmas.GraphDfs
/-! The starting points of the walk (`route_data_types`) characterised at specification level. -/
namespace StoneVerif.Graph

/-- doc references of a node id -/
def docsOf (g : Graph) (r : Id) : List DocRef :=
  match g.node? r with
  | some n => n.docRefs
  | none => []

/-- what a doc read while the starting points are collected contributes, when its references denote
`specDocs`: the data types and the routes it refers to -/
def docStart (g : Graph) (ns : String) (refs : List DocRef) : List Id :=
  (specDocs g ns refs).1 ++ (specDocs g ns refs).2

theorem mem_docStart {g : Graph} {ns : String} {refs : List DocRef} {b : Id} :
    b ∈ docStart g ns refs ↔ b ∈ docTargets g ns refs := by
  simp only [docStart, List.mem_append]
  constructor
  · rintro (h | h)
    · exact (mem_specDocs_types.1 h).1
    · exact (mem_specDocs_routes.1 h).1
  · exact mem_docTargets_split

def nsStart (g : Graph) (ns : String) : List Id :=
  match g.ns? ns with
  | some n => docStart g ns n.docRefs
  | none => []

/-- every starting point a `Seeds` record holds -/
def Seeds.all (s : Seeds) : List Id := s.types ++ s.docRoutes

theorem mem_all_append {a b : Seeds} {x : Id} : x ∈ (a.append b).all ↔ x ∈ a.all ∨ x ∈ b.all := by
  simp only [Seeds.all, Seeds.append, List.mem_append]
  constructor
  · rintro ((h | h) | (h | h))
    · exact Or.inl (Or.inl h)
    · exact Or.inr (Or.inl h)
    · exact Or.inl (Or.inr h)
    · exact Or.inr (Or.inr h)
  · rintro ((h | h) | (h | h))
    · exact Or.inl (Or.inl h)
    · exact Or.inr (Or.inl h)
    · exact Or.inl (Or.inr h)
    · exact Or.inr (Or.inr h)

theorem docSeeds_spec {g : Graph} {ctx ns : String} {refs : List DocRef} {s : Seeds}
    (hp : parseDocs g ctx refs = .ok (specDocs g ns refs)) (h : docSeeds g ctx refs = .ok s) :
    s.ids = [] ∧ ∀ b, b ∈ s.all ↔ b ∈ docStart g ns refs := by
  simp only [docSeeds, hp, Except.ok.injEq] at h
  subst h
  exact ⟨rfl, fun b => by simp [Seeds.all, docStart]⟩

/-- two lists of the same length, related element by element -/
inductive Zip2 {α β : Type} (R : α → β → Prop) : List α → List β → Prop where
  | nil : Zip2 R [] []
  | cons {a b as bs} : R a b → Zip2 R as bs → Zip2 R (a :: as) (b :: bs)

theorem parseReprs_ok {reprs : List String} {cr : List (String × Nat)} (h : parseReprs reprs = .ok cr) :
    Zip2 (fun r c => parseRouteRepr r = .ok c) reprs cr := by
  induction reprs generalizing cr with
  | nil =>
    simp only [parseReprs] at h
    cases h; exact .nil
  | cons r rs ih =>
    simp only [parseReprs] at h
    split at h
    · rename_i a b ha hb
      cases h
      exact .cons ha (ih hb)
    · simp at h
    · simp at h

theorem listed_iff {g : Graph} {ns : String} {p : Node → Bool} {id : Id} :
    g.listed ns p id = true ↔ ∃ nd, g.node? id = some nd ∧ p nd = true ∧ nd.ns = ns := by
  simp only [Graph.listed]
  split <;> simp_all

theorem refsOk_routes {g : Graph} (hwf : g.refsOk = true) {ns : String} {n : Namespace} (hn : g.ns? ns = some n)
    {r : Id} (hr : r ∈ n.routes) : ∃ nd, g.node? r = some nd ∧ nd.isRoute = true ∧ nd.ns = ns := by
  simp only [Graph.refsOk, Bool.and_eq_true, List.all_eq_true] at hwf
  have := (hwf.2 n (ns?_name hn).1).1.1 r hr
  rw [(ns?_name hn).2] at this
  exact listed_iff.1 this

theorem idOk_route {g : Graph} (hwf : g.refsOk = true) {r : Id} {nd : Node} (hnd : g.node? r = some nd)
    (hk : nd.isRoute = true) : r = routeId nd.ns nd.name nd.version := by
  have h := (refsOk_node hwf hnd).1
  have hk' : nd.kind = Kind.route := by simpa [Node.isRoute] using hk
  simp only [Node.idOk, hk', beq_self_eq_true, ↓reduceIte, beq_iff_eq] at h
  rw [← (node?_mem hnd).2, h]

/-- a listed route is found under its name and version -/
theorem routeByName_listed {g : Graph} (hwf : g.refsOk = true) {r : Id} {nd : Node} (hnd : g.node? r = some nd)
    (hk : nd.isRoute = true) : g.routeByName nd.ns nd.name nd.version = some r := by
  have hid := idOk_route hwf hnd hk
  simp only [Graph.routeByName, ← hid, hnd, hk, beq_self_eq_true, Bool.and_self, ↓reduceIte]
  simp [(node?_mem hnd).2]

/-- the canonical form of one whitelist entry -/
def CanonOf (g : Graph) (ns : String) (reprs : List String) (cr : List (String × Nat)) : Prop :=
  if reprs == ["*"] then
    ∃ n, g.ns? ns = some n ∧ cr = n.routes.filterMap fun r => (g.node? r).map fun nd => (nd.name, nd.version)
  else parseReprs reprs = .ok cr

theorem canon_ids {g : Graph} (hwf : g.refsOk = true) {ns : String} {reprs : List String}
    {cr : List (String × Nat)} {ids : List Id} (hc : CanonOf g ns reprs cr)
    (hl : Zip2 (fun c r => g.routeByName ns c.1 c.2 = some r) cr ids) :
    ids = wlRouteIds g ns reprs := by
  simp only [CanonOf] at hc
  simp only [wlRouteIds]
  split at hc
  · rename_i hstar
    simp only [hstar, ↓reduceIte]
    obtain ⟨n, hn, hcr⟩ := hc
    simp only [hn]
    subst hcr
    have key : ∀ (rs : List Id), (∀ r ∈ rs, r ∈ n.routes) → ∀ ids,
        Zip2 (fun c r => g.routeByName ns c.1 c.2 = some r)
          (rs.filterMap fun r => (g.node? r).map fun nd => (nd.name, nd.version)) ids → ids = rs := by
      intro rs
      induction rs with
      | nil => intro _ ids h; cases h; rfl
      | cons r rs ih =>
        intro hsub ids h
        obtain ⟨nd, hnd, hk, hns⟩ := refsOk_routes hwf hn (hsub r (List.mem_cons_self ..))
        simp only [List.filterMap_cons, hnd, Option.map_some] at h
        cases h with
        | cons h1 h2 =>
          rename_i r' ids'
          have := routeByName_listed hwf hnd hk
          rw [hns] at this
          simp only at h1
          rw [this] at h1
          have hr : r = r' := by simpa using h1
          subst hr
          rw [ih (fun x hx => hsub x (List.mem_cons_of_mem _ hx)) ids' h2]
    exact key n.routes (fun _ h => h) ids hl
  · rename_i hstar
    simp only [hstar, Bool.false_eq_true, ↓reduceIte]
    have hp := parseReprs_ok hc
    clear hc hstar
    induction hp generalizing ids with
    | nil => cases hl; simp
    | cons h1 _ ih =>
      cases hl with
      | cons h3 h4 =>
        simp only [List.flatMap_cons, h1, h3, Option.toList_some, List.singleton_append]
        rw [ih h4]

theorem routeSeeds_spec {g : Graph} (hda : docsAgree g = true) {ns : String} {cr : List (String × Nat)}
    {s : Seeds} (h : routeSeeds g ns cr = .ok s) :
    Zip2 (fun c r => g.routeByName ns c.1 c.2 = some r) cr s.ids ∧
    ∀ b, b ∈ s.all ↔ ∃ r ∈ s.ids, b ∈ ioOf g r ∨ b ∈ docStart g ns (docsOf g r) := by
  induction cr generalizing s with
  | nil =>
    simp only [routeSeeds] at h
    cases h
    exact ⟨.nil, by simp [Seeds.all]⟩
  | cons c cr ih =>
    obtain ⟨name, v⟩ := c
    simp only [routeSeeds] at h
    split at h
    · simp at h
    · rename_i rt hrt
      split at h
      · rename_i io nd hio hnd
        obtain ⟨nd', hnd', _, hns, _⟩ := routeByName_some hrt
        have hnn : nd' = nd := by rw [hnd] at hnd'; exact (Option.some.inj hnd').symm
        subst hnn
        split at h
        · simp at h
        · rename_i ds hds
          split at h
          · simp at h
          · rename_i more hrest
            simp only [Except.ok.injEq] at h
            subst h
            obtain ⟨ih1, ih2⟩ := ih hrest
            have hdoc := docsAgree_node hda hnd
            rw [hns] at hdoc
            obtain ⟨hd0, hd⟩ := docSeeds_spec hdoc hds
            have hids : (({ types := io, ids := [rt] } : Seeds).append (ds.append more)).ids = rt :: more.ids := by
              simp [Seeds.append, hd0]
            refine ⟨by rw [hids]; exact Zip2.cons hrt ih1, ?_⟩
            intro b
            have hio' := (routeIo_ok hio).2
            rw [hids]
            simp only [mem_all_append, hd b, ih2 b, List.mem_cons]
            have hfirst : b ∈ ({ types := io, ids := [rt] } : Seeds).all ↔ b ∈ ioOf g rt := by
              simp [Seeds.all, hio']
            rw [hfirst]
            constructor
            · rintro (h | h | ⟨r, hr, h⟩)
              · exact ⟨rt, Or.inl rfl, Or.inl h⟩
              · exact ⟨rt, Or.inl rfl, Or.inr (by simpa [docsOf, hnd] using h)⟩
              · exact ⟨r, Or.inr hr, h⟩
            · rintro ⟨r, rfl | hr, h⟩
              · rcases h with h | h
                · exact Or.inl h
                · exact Or.inr (Or.inl (by simpa [docsOf, hnd] using h))
              · exact Or.inr (Or.inr ⟨r, hr, h⟩)
      · simp at h
      · simp at h

/-- "Parse the route whitelist and populate any starting data types", at specification level -/
theorem routeWhitelistSeeds_spec {g : Graph} (hwf : g.refsOk = true) (hda : docsAgree g = true)
    {l : List (String × List String)} {c : List (String × List (String × Nat))} {s : Seeds}
    (h1 : canonicalRoutes g l = .ok c) (h2 : routeWhitelistSeeds g c = .ok s) :
    s.ids = l.flatMap (fun p => wlRouteIds g p.1 p.2) ∧ (∀ p ∈ l, ∃ n, g.ns? p.1 = some n) ∧
    ∀ b, b ∈ s.all ↔ ∃ p ∈ l, b ∈ nsStart g p.1 ∨
      ∃ r ∈ wlRouteIds g p.1 p.2, b ∈ ioOf g r ∨ b ∈ docStart g p.1 (docsOf g r) := by
  induction l generalizing c s with
  | nil =>
    simp only [canonicalRoutes] at h1
    cases h1
    simp only [routeWhitelistSeeds] at h2
    cases h2
    simp [Seeds.all]
  | cons p l ih =>
    obtain ⟨ns, reprs⟩ := p
    simp only [canonicalRoutes] at h1
    split at h1
    · rename_i a c' ha hc'
      cases h1
      have hcanon : CanonOf g ns reprs a := by
        by_cases hstar : (reprs == ["*"]) = true
        · simp only [CanonOf, hstar, ↓reduceIte]
          simp only [hstar, ↓reduceIte] at ha
          split at ha
          · simp at ha
          · rename_i n hn
            exact ⟨n, hn, by simpa using ha.symm⟩
        · simp only [CanonOf, hstar, Bool.false_eq_true, ↓reduceIte]
          simpa only [hstar, Bool.false_eq_true, ↓reduceIte] using ha
      simp only [routeWhitelistSeeds] at h2
      split at h2
      · simp at h2
      · rename_i n hn
        split at h2
        · simp at h2
        · rename_i nsDoc hnsDoc
          split at h2
          · simp at h2
          · split at h2
            · simp at h2
            · rename_i here hrs
              split at h2
              · simp at h2
              · rename_i more hrest
                simp only [Except.ok.injEq] at h2
                subst h2
                obtain ⟨i1, i2, i3⟩ := ih hc' hrest
                obtain ⟨r1, r2⟩ := routeSeeds_spec hda hrs
                obtain ⟨hd0, hd⟩ := docSeeds_spec (docsAgree_ns hda hn) hnsDoc
                have hids := canon_ids hwf hcanon r1
                refine ⟨by simp [Seeds.append, hd0, List.flatMap_cons, hids, i1], ?_, ?_⟩
                · intro p hp
                  rcases List.mem_cons.1 hp with rfl | hp
                  · exact ⟨n, hn⟩
                  · exact i2 p hp
                · intro b
                  simp only [mem_all_append, hd b, r2 b, i3 b, List.mem_cons, hids]
                  constructor
                  · rintro (h | h | ⟨p, hp, h⟩)
                    · exact ⟨(ns, reprs), Or.inl rfl, Or.inl (by simpa [nsStart, hn] using h)⟩
                    · exact ⟨(ns, reprs), Or.inl rfl, Or.inr h⟩
                    · exact ⟨p, Or.inr hp, h⟩
                  · rintro ⟨p, rfl | hp, h⟩
                    · rcases h with h | h
                      · exact Or.inl (by simpa [nsStart, hn] using h)
                      · exact Or.inr (Or.inl h)
                    · exact Or.inr (Or.inr ⟨p, hp, h⟩)
    · simp at h1
    · simp at h1

theorem typeSeeds_spec {g : Graph} {ns : String} {names : List String} {ids : List Id}
    (h : typeSeeds g ns names = .ok ids) : ids = names.flatMap (fun t => (g.typeByName ns t).toList) := by
  induction names generalizing ids with
  | nil =>
    simp only [typeSeeds] at h
    cases h; simp
  | cons t rest ih =>
    simp only [typeSeeds] at h
    split at h
    · simp at h
    · rename_i id hid
      split at h
      · simp at h
      · rename_i ids' hrest
        cases h
        simp [List.flatMap_cons, hid, ih hrest]

/-- "Parse the datatype whitelist and populate any starting data types", at specification level -/
theorem datatypeWhitelistSeeds_spec {g : Graph} (hda : docsAgree g = true) {l : List (String × List String)}
    {s : Seeds} (h : datatypeWhitelistSeeds g l = .ok s) :
    (∀ p ∈ l, ∃ n, g.ns? p.1 = some n) ∧
    ∀ b, b ∈ s.all ↔ ∃ p ∈ l, b ∈ nsStart g p.1 ∨ b ∈ p.2.flatMap (fun t => (g.typeByName p.1 t).toList) := by
  induction l generalizing s with
  | nil =>
    simp only [datatypeWhitelistSeeds] at h
    cases h; simp [Seeds.all]
  | cons p l ih =>
    obtain ⟨ns, names⟩ := p
    simp only [datatypeWhitelistSeeds] at h
    split at h
    · simp at h
    · rename_i n hn
      split at h
      · simp at h
      · rename_i nsDoc hnsDoc
        split at h
        · rename_i a more ha hb
          cases h
          obtain ⟨i1, i2⟩ := ih hb
          have ht := typeSeeds_spec ha
          obtain ⟨_, hd⟩ := docSeeds_spec (docsAgree_ns hda hn) hnsDoc
          refine ⟨?_, ?_⟩
          · intro p hp
            rcases List.mem_cons.1 hp with rfl | hp
            · exact ⟨n, hn⟩
            · exact i1 p hp
          · intro b
            subst ht
            have hmid : ∀ (l : List Id), b ∈ ({ types := l } : Seeds).all ↔ b ∈ l := by intro l; simp [Seeds.all]
            simp only [mem_all_append, hd b, i2 b, List.mem_cons, hmid]
            constructor
            · rintro (h | h | ⟨p, hp, h⟩)
              · exact ⟨(ns, names), Or.inl rfl, Or.inl (by simpa [nsStart, hn] using h)⟩
              · exact ⟨(ns, names), Or.inl rfl, Or.inr h⟩
              · exact ⟨p, Or.inr hp, h⟩
            · rintro ⟨p, rfl | hp, h⟩
              · rcases h with h | h
                · exact Or.inl (by simpa [nsStart, hn] using h)
                · exact Or.inr (Or.inl h)
              · exact Or.inr (Or.inr ⟨p, hp, h⟩)
        · simp at h
        · simp at h

end StoneVerif.Graph
