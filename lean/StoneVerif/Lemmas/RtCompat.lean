import StoneVerif.Model.Rt.Compat
/-!
Helper lemmas for C07, part 1: the table loop of `decode_struct_fields` (`finishFields`) as a function of the table —
`runFields`: one independent step per field (`fieldStep`), results collected in table order.
-/
namespace StoneVerif.Rt.Compat
open StoneVerif.Rt

/-! ### slots -/

theorem setSlot_fresh (n : String) (x : PyVal) : ∀ (slots : List (String × PyVal)),
    lookupSlot n slots = none → setSlot n x slots = slots ++ [(n, x)]
  | [], _ => rfl
  | (k, w) :: rest, h => by
    simp only [lookupSlot] at h
    split at h
    · cases h
    · rename_i hk
      simp only [setSlot, hk, List.cons_append]
      rw [setSlot_fresh n x rest h]
      rfl

theorem delSlot_fresh (n : String) : ∀ (slots : List (String × PyVal)),
    lookupSlot n slots = none → delSlot n slots = slots
  | [], _ => rfl
  | (k, w) :: rest, h => by
    simp only [lookupSlot] at h
    split at h
    · cases h
    · rename_i hk
      simp only [delSlot, hk]
      rw [delSlot_fresh n rest h]
      rfl

theorem lookupSlot_append (n : String) : ∀ (a b : List (String × PyVal)),
    lookupSlot n (a ++ b) = match lookupSlot n a with
      | some x => some x
      | none => lookupSlot n b
  | [], b => rfl
  | (k, w) :: rest, b => by
    simp only [List.cons_append, lookupSlot]
    split
    · rfl
    · exact lookupSlot_append n rest b

/-! ### `Attribute.__set__` and one iteration of the loop, unfolded (self-contained copies of two C06 helper lemmas) -/

theorem R_bind_pure' {α β : Type} (a : R α) (g : α → β) : (a >>= fun x => pure (g x)) = a.map g := by
  cases a <;> rfl

theorem attrSet_eq (E : Ext) (env : Env) (f : FieldDef) (slots : List (String × PyVal)) (x : PyVal) :
    attrSet E env f slots x =
      if f.attrNullable && isNoneV x then .ok (delSlot f.name slots)
      else if f.attrUserDefined then (validateTypeOnly env f.ty x).map fun _ => setSlot f.name x slots
      else (validate E env f.ty x).map fun x' => setSlot f.name x' slots := by
  cases x <;> simp only [attrSet, isNoneV, R_bind_pure'] <;> rfl

theorem finishFields_cons (E : Ext) (env : Env) (f : FieldDef) (rest : List FieldDef)
    (children : List (String × R PyVal)) (slots : List (String × PyVal)) :
    finishFields E env (f :: rest) children slots =
      match childLookup f.name children with
      | some (.error e) => .error e
      | some (.ok v) => match attrSet E env f slots v with
        | .error e => .error e
        | .ok slots' => finishFields E env rest children slots'
      | none =>
        if hasDefault env f.ty then match attrSet E env f slots (getDefault f.ty) with
          | .error e => .error e
          | .ok slots' => finishFields E env rest children slots'
        else finishFields E env rest children slots := by
  cases hr : childLookup f.name children with
  | none =>
    simp only [finishFields, hr]
    split
    · simp only [bind, Except.bind]; cases attrSet E env f slots (getDefault f.ty) <;> rfl
    · rfl
  | some r =>
    cases r with
    | error e => simp only [finishFields, hr]; rfl
    | ok v =>
      simp only [finishFields, hr, bind, Except.bind]
      cases attrSet E env f slots v <;> rfl

/-! ### one step of the table loop -/

/-- what `Attribute.__set__` stores (`none`: the attribute ends up unset) -/
def storeVal (E : Ext) (env : Env) (f : FieldDef) (x : PyVal) : R (Option PyVal) :=
  if f.attrNullable && isNoneV x then .ok none
  else if f.attrUserDefined then (validateTypeOnly env f.ty x).map fun _ => some x
  else (validate E env f.ty x).map some

/-- one iteration of `decode_struct_fields` for field `f` -/
def fieldStep (E : Ext) (env : Env) (children : List (String × R PyVal)) (f : FieldDef) : R (Option PyVal) :=
  match childLookup f.name children with
  | some (.error e) => .error e
  | some (.ok v) => storeVal E env f v
  | none => if hasDefault env f.ty then storeVal E env f (getDefault f.ty) else .ok none

def addSlot (name : String) (o : Option PyVal) (tl : List (String × PyVal)) : List (String × PyVal) :=
  match o with
  | some y => (name, y) :: tl
  | none => tl

/-- the whole loop, field by field -/
def runFields (E : Ext) (env : Env) (children : List (String × R PyVal)) : List FieldDef → R (List (String × PyVal))
  | [] => .ok []
  | f :: rest =>
    match fieldStep E env children f with
    | .error e => .error e
    | .ok o => match runFields E env children rest with
      | .error e => .error e
      | .ok tl => .ok (addSlot f.name o tl)

theorem attrSet_storeVal (E : Ext) (env : Env) (f : FieldDef) (slots : List (String × PyVal)) (x : PyVal)
    (hfresh : lookupSlot f.name slots = none) :
    attrSet E env f slots x = match storeVal E env f x with
      | .error e => .error e
      | .ok o => .ok (slots ++ addSlot f.name o []) := by
  rw [attrSet_eq]
  unfold storeVal
  split
  · simp [addSlot, delSlot_fresh _ _ hfresh]
  · split
    · cases validateTypeOnly env f.ty x with
      | error e => rfl
      | ok u => simp [Except.map, addSlot, setSlot_fresh _ _ _ hfresh]
    · cases validate E env f.ty x with
      | error e => rfl
      | ok u => simp [Except.map, addSlot, setSlot_fresh _ _ _ hfresh]

theorem lookupSlot_addSlot_ne (n k : String) (o : Option PyVal) (h : (k == n) = false) :
    lookupSlot n (addSlot k o []) = none := by
  cases o <;> simp [addSlot, lookupSlot, h]

theorem finishFields_run (E : Ext) (env : Env) (children : List (String × R PyVal)) :
    ∀ (fields : List FieldDef) (slots : List (String × PyVal)),
    nodupS (fields.map (·.name)) = true → (∀ f ∈ fields, lookupSlot f.name slots = none) →
    finishFields E env fields children slots =
      match runFields E env children fields with
      | .error e => .error e
      | .ok tl => .ok (slots ++ tl)
  | [], slots, _, _ => by simp [finishFields, runFields]
  | f :: rest, slots, hnd, hfresh => by
    simp only [List.map, nodupS, Bool.and_eq_true, Bool.not_eq_true', List.contains_eq_mem,
      decide_eq_false_iff_not, List.mem_map, not_exists, not_and] at hnd
    obtain ⟨hf, hnd'⟩ := hnd
    have hfr := hfresh f List.mem_cons_self
    have hrest : ∀ (o : Option PyVal), ∀ g ∈ rest, lookupSlot g.name (slots ++ addSlot f.name o []) = none := by
      intro o g hg
      rw [lookupSlot_append, hfresh g (List.mem_cons_of_mem _ hg)]
      apply lookupSlot_addSlot_ne
      simpa using fun h => hf g hg h.symm
    rw [finishFields_cons]
    simp only [runFields, fieldStep]
    cases hc : childLookup f.name children with
    | none =>
      simp only []
      split
      · rw [attrSet_storeVal E env f slots _ hfr]
        cases hs : storeVal E env f (getDefault f.ty) with
        | error e => rfl
        | ok o =>
          simp only []
          rw [finishFields_run E env children rest _ hnd' (hrest o)]
          cases runFields E env children rest with
          | error e => rfl
          | ok tl => cases o <;> simp [addSlot]
      · have := finishFields_run E env children rest slots hnd' (fun g hg => hfresh g (List.mem_cons_of_mem _ hg))
        rw [this]
        cases runFields E env children rest with
        | error e => rfl
        | ok tl => simp [addSlot]
    | some r =>
      cases r with
      | error e => rfl
      | ok v =>
        simp only []
        rw [attrSet_storeVal E env f slots _ hfr]
        cases hs : storeVal E env f v with
        | error e => rfl
        | ok o =>
          simp only []
          rw [finishFields_run E env children rest _ hnd' (hrest o)]
          cases runFields E env children rest with
          | error e => rfl
          | ok tl => cases o <;> simp [addSlot]

/-! ### the result of the loop, by lookup -/

theorem nodupS_cons {x : String} {xs : List String} (h : nodupS (x :: xs) = true) : x ∉ xs ∧ nodupS xs = true := by
  simpa [nodupS] using h

theorem runFields_keys (E : Ext) (env : Env) (children : List (String × R PyVal)) (n : String) :
    ∀ (fields : List FieldDef) (slots : List (String × PyVal)), runFields E env children fields = .ok slots →
    n ∉ fields.map (·.name) → lookupSlot n slots = none
  | [], slots, h, _ => by simp [runFields] at h; subst h; rfl
  | f :: rest, slots, h, hn => by
    simp only [runFields] at h
    split at h
    · cases h
    · rename_i o ho
      split at h
      · cases h
      · rename_i tl htl
        cases h
        simp only [List.map, List.mem_cons, not_or] at hn
        have ih := runFields_keys E env children n rest tl htl hn.2
        have hne : (f.name == n) = false := by simpa using fun h => hn.1 h.symm
        cases o <;> simp [addSlot, lookupSlot, hne, ih]

theorem runFields_steps (E : Ext) (env : Env) (children : List (String × R PyVal)) :
    ∀ (fields : List FieldDef) (slots : List (String × PyVal)), runFields E env children fields = .ok slots →
    nodupS (fields.map (·.name)) = true →
    ∀ f ∈ fields, fieldStep E env children f = .ok (lookupSlot f.name slots)
  | [], _, _, _, f, hf => by cases hf
  | f0 :: rest, slots, h, hnd, f, hf => by
    obtain ⟨hf0, hnd'⟩ := nodupS_cons hnd
    simp only [runFields] at h
    split at h
    · cases h
    · rename_i o ho
      split at h
      · cases h
      · rename_i tl htl
        cases h
        rcases List.mem_cons.mp hf with rfl | hf'
        · rw [ho]
          cases o with
          | some y => simp [addSlot, lookupSlot]
          | none => simp [addSlot, runFields_keys E env children f.name rest tl htl hf0]
        · have ih := runFields_steps E env children rest tl htl hnd' f hf'
          rw [ih]
          have hne : (f0.name == f.name) = false := by
            simpa using fun h => hf0 (List.mem_map.mpr ⟨f, hf', h.symm⟩)
          cases o <;> simp [addSlot, lookupSlot, hne]

theorem runFields_of_steps (E : Ext) (env : Env) (children : List (String × R PyVal)) (o : FieldDef → Option PyVal) :
    ∀ (fields : List FieldDef), (∀ f ∈ fields, fieldStep E env children f = .ok (o f)) →
    runFields E env children fields = .ok (fields.filterMap fun f => (o f).map fun y => (f.name, y))
  | [], _ => rfl
  | f :: rest, h => by
    simp only [runFields, h f List.mem_cons_self,
      runFields_of_steps E env children o rest (fun g hg => h g (List.mem_cons_of_mem _ hg))]
    cases ho : o f <;> simp [addSlot, List.filterMap_cons, ho]

/-! ### `viewSlots`, `orderSlots` by lookup -/

theorem find_name_of_mem : ∀ {fields : List FieldDef}, nodupS (fields.map (·.name)) = true → ∀ {f : FieldDef}, f ∈ fields →
    fields.find? (·.name == f.name) = some f
  | [], _, _, hf => by cases hf
  | g :: rest, hnd, f, hf => by
    obtain ⟨hg, hnd'⟩ := nodupS_cons hnd
    rcases List.mem_cons.mp hf with rfl | hf'
    · simp
    · have hne : (g.name == f.name) = false := by
        simpa using fun h => hg (List.mem_map.mpr ⟨f, hf', h.symm⟩)
      simp only [List.find?, hne]
      exact find_name_of_mem hnd' hf'

theorem find_name_some {fields : List FieldDef} {k : String} {f : FieldDef}
    (h : fields.find? (·.name == k) = some f) : f ∈ fields ∧ f.name = k := by
  have := List.find?_some h
  exact ⟨List.mem_of_find?_eq_some h, by simpa using this⟩

theorem find_name_none {fields : List FieldDef} {k : String}
    (h : fields.find? (·.name == k) = none) : k ∉ fields.map (·.name) := by
  intro hk
  obtain ⟨f, hf, rfl⟩ := List.mem_map.mp hk
  have := List.find?_eq_none.mp h f hf
  simp at this

theorem lookupSlot_viewSlots (ρ : Rho) (A : Env) (fields : List FieldDef) (k : String) :
    ∀ (slots : List (String × PyVal)), lookupSlot k (viewSlots ρ A fields slots) =
      match fields.find? (·.name == k) with
      | some f => (lookupSlot k slots).map (view ρ A f.ty)
      | none => none
  | [] => by simp only [viewSlots, lookupSlot]; split <;> rfl
  | (k', x) :: rest => by
    have ih := lookupSlot_viewSlots ρ A fields k rest
    by_cases hk : k' = k
    · subst hk
      simp only [viewSlots]
      split
      · rename_i f hf
        simp [lookupSlot, hf]
      · rename_i hf
        rw [ih]
        simp [hf]
    · have hne : (k' == k) = false := by simpa using hk
      simp only [viewSlots]
      split
      · simp only [lookupSlot, hne]
        exact ih
      · simp only [lookupSlot, hne]
        exact ih

theorem lookupSlot_orderSlots (slots : List (String × PyVal)) (k : String) :
    ∀ (fields : List FieldDef), nodupS (fields.map (·.name)) = true →
    lookupSlot k (orderSlots fields slots) = if k ∈ fields.map (·.name) then lookupSlot k slots else none
  | [], _ => by simp [orderSlots, lookupSlot]
  | f :: rest, hnd => by
    obtain ⟨hf, hnd'⟩ := nodupS_cons hnd
    have ih := lookupSlot_orderSlots slots k rest hnd'
    simp only [orderSlots] at ih ⊢
    by_cases hk : f.name = k
    · subst hk
      simp only [List.filterMap_cons]
      cases hl : lookupSlot f.name slots with
      | none => simp [ih, hf, hl]
      | some y => simp [lookupSlot]
    · have hne : (f.name == k) = false := by simpa using hk
      simp only [List.filterMap_cons]
      cases hl : lookupSlot f.name slots with
      | none => simp [ih, hk, Ne.symm hk]
      | some y => simp [lookupSlot, hne, ih, hk, Ne.symm hk]

/-! ### `tySub`: shape facts -/

theorem tySub_nullable {ρ : Rho} {tA tB : PTy} (h : tySub ρ tA tB = true) : tA.flags.nullable = tB.flags.nullable := by
  cases tA <;> cases tB <;> simp_all [tySub, PTy.flags]

theorem tySub_withFlags {ρ : Rho} {tA tB : PTy} (h : tySub ρ tA tB = true) :
    tySub ρ (tA.withFlags {}) (tB.withFlags {}) = true := by
  cases tA <;> cases tB <;> simp_all [tySub, PTy.withFlags]

theorem tySub_isPrim {ρ : Rho} {tA tB : PTy} (h : tySub ρ tA tB = true) : isPrimTy tA = isPrimTy tB := by
  cases tA <;> cases tB <;> simp_all [tySub, isPrimTy]

theorem tySub_isVoid {ρ : Rho} {tA tB : PTy} (h : tySub ρ tA tB = true) : isVoidT tA = isVoidT tB := by
  cases tA <;> cases tB <;> simp_all [tySub, isVoidT]

/-- the validators of primitive types do not look at the environment, and `tySub` types have equal parameters -/
theorem validate_prim_sub (E : Ext) (A B : Env) {ρ : Rho} {tA tB : PTy} (h : tySub ρ tA tB = true)
    (hp : isPrimTy tB = true) (x : PyVal) : validate E A tA x = validate E B tB x := by
  cases tB <;> simp only [isPrimTy, Bool.false_eq_true] at hp <;> cases tA <;> simp only [tySub, Bool.false_eq_true] at h <;>
    (simp only [Bool.and_eq_true, beq_iff_eq] at h; unfold validate; simp only [PTy.flags]; simp [h])

/-- at a primitive type the A-view of any value is the value itself -/
theorem view_prim (ρ : Rho) (A : Env) {t : PTy} (hp : isPrimTy t = true) (x : PyVal) : view ρ A t x = x := by
  cases t <;> simp only [isPrimTy, Bool.false_eq_true] at hp <;> cases x <;> (unfold view; rfl)

theorem isNoneV_view (ρ : Rho) (A : Env) (t : PTy) (x : PyVal) : isNoneV (view ρ A t x) = isNoneV x := by
  cases x <;> unfold view <;> try rfl
  all_goals (cases t <;> try rfl)
  all_goals (simp only []; repeat' split) <;> rfl

end StoneVerif.Rt.Compat
