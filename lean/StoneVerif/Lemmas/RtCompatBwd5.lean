import StoneVerif.Lemmas.RtCompatBwd4
/-!
Helper lemmas for C07, part 14 (backward direction): unions, and the induction over the document.
-/
namespace StoneVerif.Rt.Compat
open StoneVerif.Rt

/-! ### encoder-form documents at a union -/

theorem tightDoc_union_str (A : Env) (fl : Flags) (c tag : String) :
    tightDoc A (.union fl c) (.str tag) = (publicTag? A c tag).isSome := by
  unfold tightDoc; rfl

theorem tightDoc_union_unknown (A : Env) (fl : Flags) (c : String) {kvs : List (String × JVal)} {tag : String}
    (hk : jsonLookup ".tag" kvs = some (.str tag)) (ht : publicTag? A c tag = none) :
    tightDoc A (.union fl c) (.obj kvs) = false := by
  unfold tightDoc
  simp only [isVoidT_union, Bool.false_eq_true, if_false, hk, ht]

theorem tightDoc_union_void (A : Env) (fl : Flags) (c : String) {kvs : List (String × JVal)} {tag : String} {td : TagDef}
    (hk : jsonLookup ".tag" kvs = some (.str tag)) (ht : publicTag? A c tag = some td) (hv : isVoidT td.ty = true) :
    tightDoc A (.union fl c) (.obj kvs) = (kvs.length == 1) := by
  unfold tightDoc
  simp only [isVoidT_union, Bool.false_eq_true, if_false, hk, ht, hv, if_true]

theorem tightDoc_union_struct (A : Env) (fl : Flags) (c : String) {kvs : List (String × JVal)} {tag : String} {td : TagDef}
    (hk : jsonLookup ".tag" kvs = some (.str tag)) (ht : publicTag? A c tag = some td) {sfl : Flags} {sc : String}
    (hq : td.ty = .struct sfl sc) :
    tightDoc A (.union fl c) (.obj kvs) = tightMembers A (structTable A sc) kvs := by
  have hv : isVoidT td.ty = false := by rw [hq]; rfl
  unfold tightDoc
  simp only [isVoidT_union, Bool.false_eq_true, if_false, hk, ht, hv]
  rw [hq]

theorem tightDoc_union_nested (A : Env) (fl : Flags) (c : String) {kvs : List (String × JVal)} {tag : String} {td : TagDef}
    (hk : jsonLookup ".tag" kvs = some (.str tag)) (ht : publicTag? A c tag = some td)
    (hv : isVoidT td.ty = false) (hp : isPlainStruct td.ty = false) :
    tightDoc A (.union fl c) (.obj kvs) = tightMembers A [(tag, td.ty.withFlags {})] kvs := by
  unfold tightDoc
  simp only [isVoidT_union, Bool.false_eq_true, if_false, hk, ht, hv]
  cases hq : td.ty <;> simp_all [isPlainStruct]

theorem nvrDoc_union_str (ρ : Rho) (A B : Env) (fl : Flags) (c tag : String) :
    nvrDoc ρ A B (.union fl c) (.str tag) = !voidToRequired ρ A B c tag := by
  unfold nvrDoc; rfl

theorem nvrDoc_union_void (ρ : Rho) (A B : Env) (fl : Flags) (c : String) {kvs : List (String × JVal)} {tag : String} {td : TagDef}
    (hk : jsonLookup ".tag" kvs = some (.str tag)) (ht : publicTag? A c tag = some td) (hv : isVoidT td.ty = true) :
    nvrDoc ρ A B (.union fl c) (.obj kvs) = !voidToRequired ρ A B c tag := by
  unfold nvrDoc
  simp only [hk, ht, hv, if_true, Bool.and_true]

theorem nvrDoc_union_struct (ρ : Rho) (A B : Env) (fl : Flags) (c : String) {kvs : List (String × JVal)} {tag : String}
    {td : TagDef} (hk : jsonLookup ".tag" kvs = some (.str tag)) (ht : publicTag? A c tag = some td) {sfl : Flags} {sc : String}
    (hq : td.ty = .struct sfl sc) :
    nvrDoc ρ A B (.union fl c) (.obj kvs) = (!voidToRequired ρ A B c tag && nvrMembers ρ A B (structTable A sc) kvs) := by
  have hv : isVoidT td.ty = false := by rw [hq]; rfl
  unfold nvrDoc
  simp only [hk, ht, hv, Bool.false_eq_true, if_false]
  rw [hq]

theorem nvrDoc_union_nested (ρ : Rho) (A B : Env) (fl : Flags) (c : String) {kvs : List (String × JVal)} {tag : String}
    {td : TagDef} (hk : jsonLookup ".tag" kvs = some (.str tag)) (ht : publicTag? A c tag = some td)
    (hv : isVoidT td.ty = false) (hp : isPlainStruct td.ty = false) :
    nvrDoc ρ A B (.union fl c) (.obj kvs) =
      (!voidToRequired ρ A B c tag && nvrMembers ρ A B [(tag, td.ty.withFlags {})] kvs) := by
  unfold nvrDoc
  simp only [hk, ht, hv, Bool.false_eq_true, if_false]
  cases hq : td.ty <;> simp_all [isPlainStruct]

/-- a tag that is Void in A and not "Void to required": in B it is Void or nullable -/
theorem not_voidToRequired {ρ : Rho} {A B : Env} (hρ : ρ.wf = true) {c c' tag : String} (hr : ρ.rel c c' = true)
    {tdA tdB : TagDef} (htA : publicTag? A c tag = some tdA) (htB : publicTag? B c' tag = some tdB)
    (hv : isVoidT tdA.ty = true) (h : (!voidToRequired ρ A B c tag) = true) :
    (isVoidT tdB.ty || tdB.ty.flags.nullable) = true := by
  simp only [voidToRequired, htA, hv, Rho.toB_of_rel hρ hr, Option.bind_some, htB, Bool.true_and, Bool.not_not] at h
  exact h

/-- an object holding only the discriminator -/
theorem only_tag {kvs : List (String × JVal)} {tag : String} (hk : jsonLookup ".tag" kvs = some (.str tag))
    (hl : (kvs.length == 1) = true) : kvs = [(".tag", .str tag)] := by
  cases kvs with
  | nil => simp at hl
  | cons kv rest =>
    cases rest with
    | nil =>
      obtain ⟨k, x⟩ := kv
      simp only [jsonLookup] at hk
      split at hk
      · rename_i hkk
        have : k = ".tag" := by simpa using hkk
        cases hk
        rw [this]
      · cases hk
    | cons _ _ => simp at hl

theorem decode_union_bwd (E : Ext) {ρ : Rho} {A B : Env} (cx : Ctx ρ A B) {f g : Flags} {c c' : String}
    (hr : ρ.rel c c' = true) {ua : UnionDef} (hua : A.union? c = some ua) (j : JVal) (sA sB : Bool) (w : PyVal)
    (hnn : (f.nullable && isNullJ j) = false)
    (hIH : ∀ kvs, j = .obj kvs → MembersIHB E ρ A B sA sB kvs)
    (hk : tightDoc A (.union f c) j = true) (hn : nvrDoc ρ A B (.union f c) j = true)
    (h : decode E A [] sA (.union f c) j = .ok w) :
    decode E B [] sB (.union g c') j = .ok (lift ρ B (.union g c') w) := by
  obtain ⟨ub, hub, hcaEq, _, _⟩ := unionSub_inv (compat_union cx.compat hr hua) hua
  have hT := tagsRel cx hr hua
  have hρ := compatEnv_wf cx.compat
  cases j with
  | str tag =>
    rw [tightDoc_union_str] at hk
    rw [nvrDoc_union_str] at hn
    obtain ⟨tdA, htA⟩ := Option.isSome_iff_exists.mp hk
    obtain ⟨tdB, htB, hty⟩ := hT.known tag tdA htA
    rw [decode_union_str_known E cx.wfA sA f hua htA] at h
    rw [decode_union_str_known E cx.wfB sB g hub htB, ← hcaEq]
    by_cases hvn : (!(isVoidT tdA.ty || tdA.ty.flags.nullable)) = true
    · simp [hvn, verr] at h
    · by_cases hnc : (some tag == ua.catchAll) = true
      · simp [hvn, hnc, verr] at h
      · simp only [hvn, hnc, Bool.false_eq_true, if_false] at h
        simp only [Bool.not_eq_true, Bool.not_eq_false', Bool.or_eq_true] at hvn
        simp only [Bool.not_eq_true] at hnc
        have hwv : w = .union c tag .none := by
          rcases hvn with hv | hv
          · rw [mkUnion_void E cx.wfA hua htA hv] at h; cases h; rfl
          · rw [mkUnion_none_nullable E cx.wfA hua htA hv] at h; cases h; rfl
        subst hwv
        have hBok : (isVoidT tdB.ty || tdB.ty.flags.nullable) = true := by
          rcases hty with hty | ⟨hvoid, _⟩
          · rw [← tySub_isVoid hty, ← tySub_nullable hty]
            simpa using hvn
          · exact not_voidToRequired hρ hr htA htB hvoid hn
        simp only [hBok, Bool.not_true, Bool.false_eq_true, if_false, hnc]
        rw [lift_union_known ρ B g _ _ htB, lift_none]
        simp only [Bool.or_eq_true] at hBok
        rcases hBok with hv | hv
        · rw [mkUnion_void E cx.wfB hub htB hv]; simp [hv]
        · rw [mkUnion_none_nullable E cx.wfB hub htB hv]; split <;> rfl
  | obj kvs =>
    have hIH' := hIH kvs rfl
    cases ht : jsonLookup ".tag" kvs with
    | none => unfold decode at h; simp [ht, hua, PTy.flags, verr] at h
    | some tv =>
      cases tv with
      | str tag =>
        cases htA : publicTag? A c tag with
        | none => simp [tightDoc_union_unknown A f c ht htA] at hk
        | some tdA =>
          obtain ⟨tdB, htB, hty⟩ := hT.known tag tdA htA
          by_cases hnc : (some tag == ua.catchAll) = true
          · rw [decode_union_obj_catchAll E cx.wfA sA f hua ht htA hnc] at h
            simp [verr] at h
          · simp only [Bool.not_eq_true] at hnc
            have hncB : (some tag == ub.catchAll) = false := by rw [← hcaEq]; exact hnc
            by_cases hvA : isVoidT tdA.ty = true
            · -- Void in A: the bare tag object
              rw [tightDoc_union_void A f c ht htA hvA] at hk
              rw [nvrDoc_union_void ρ A B f c ht htA hvA] at hn
              have hkvs := only_tag ht hk
              rw [decode_union_obj_void E cx.wfA sA f hua ht htA hnc hvA] at h
              have h := (of_ite_verr h).2
              rw [mkUnion_void E cx.wfA hua htA hvA] at h
              cases h
              have hBok : (isVoidT tdB.ty || tdB.ty.flags.nullable) = true := by
                rcases hty with hty | ⟨hvoid, _⟩
                · rw [← tySub_isVoid hty, hvA]; rfl
                · exact not_voidToRequired hρ hr htA htB hvoid hn
              have hne := publicTag_ne_dotTag cx.wfB htB
              have hne' : (".tag" == tag) = false := by simpa using fun h => hne h.symm
              rw [lift_union_known ρ B g _ _ htB, lift_none]
              by_cases hvB : isVoidT tdB.ty = true
              · rw [decode_union_obj_void E cx.wfB sB g hub ht htB hncB hvB, mkUnion_void E cx.wfB hub htB hvB]
                subst hkvs
                simp [jsonLookup, hne', hvB]
              · simp only [Bool.not_eq_true] at hvB
                have hnl : tdB.ty.flags.nullable = true := by simpa [hvB] using hBok
                rw [if_neg (by simp [hvB])]
                by_cases hp : isPlainStruct tdB.ty = true
                · cases hqB : tdB.ty <;> simp [hqB, isPlainStruct] at hp
                  rename_i gB scB
                  rw [decode_union_obj_struct E cx.wfB sB g hub ht htB hncB hqB]
                  have : gB.nullable = true := by simpa [hqB, PTy.flags] using hnl
                  simp [this, hk, mkUnion_none_nullable E cx.wfB hub htB hnl]
                · simp only [Bool.not_eq_true] at hp
                  rw [decode_union_obj_nested E cx.wfB sB g hub ht htB hncB hvB hp]
                  subst hkvs
                  simp [decodeMembers, childLookup, payloadOf, jsonLookup, hne', hnl,
                    mkUnion_none_nullable E cx.wfB hub htB hnl, hne]
            · -- not Void in A: the same kind of member on both sides
              simp only [Bool.not_eq_true] at hvA
              have hty : tySub ρ tdA.ty tdB.ty = true := by
                rcases hty with hty | ⟨hvoid, _⟩
                · exact hty
                · rw [hvA] at hvoid; cases hvoid
              have hnl := tySub_nullable hty
              have hvB : isVoidT tdB.ty = false := by rw [← tySub_isVoid hty]; exact hvA
              have hwA := (publicTag_tyWF cx.wfA htA).1
              by_cases hp : isPlainStruct tdA.ty = true
              · cases hqA : tdA.ty <;> simp [hqA, isPlainStruct] at hp
                rename_i fA scA
                cases hqB : tdB.ty <;> simp [hqA, hqB, tySub] at hty
                rename_i gB scB
                rw [tightDoc_union_struct A f c ht htA hqA] at hk
                rw [nvrDoc_union_struct ρ A B f c ht htA hqA] at hn
                simp only [Bool.and_eq_true] at hn
                rw [decode_union_obj_struct E cx.wfA sA f hua ht htA hnc hqA] at h
                rw [decode_union_obj_struct E cx.wfB sB g hub ht htB hncB hqB, ← hty.1]
                have htySub : tySub ρ tdA.ty tdB.ty = true := by rw [hqA, hqB]; simp [tySub, hty]
                by_cases hlen : (fA.nullable && kvs.length == 1) = true
                · simp only [hlen, if_true] at h ⊢
                  have hnA : tdA.ty.flags.nullable = true := by
                    simp only [Bool.and_eq_true] at hlen; simp [hqA, PTy.flags, hlen.1]
                  rw [mkUnion_none_nullable E cx.wfA hua htA hnA] at h
                  cases h
                  rw [mkUnion_none_nullable E cx.wfB hub htB (hnl ▸ hnA), lift_union_known ρ B g _ _ htB]
                  simp [hvB, lift_none]
                · simp only [hlen, Bool.false_eq_true, if_false] at h ⊢
                  obtain ⟨sa', hsa'⟩ : ∃ sa', A.struct? scA = some sa' := tyWF_struct (hqA ▸ hwA)
                  obtain ⟨sb', hsb'⟩ := struct_related cx hty.2 hsa'
                  have hrel := fieldsRel_public cx.compat cx.wfA cx.wfB hty.2 hsa'
                  cases hfin : finishStruct E A [] sA scA kvs (decodeMembers E A [] sA (structTable A scA) kvs) with
                  | error e => simp [hfin] at h
                  | ok v =>
                    simp only [hfin] at h
                    obtain ⟨hc1, hc2⟩ := children_struct_bwd (b := scB) (sA := sA) (sB := sB) cx hIH' hk hn.2
                    obtain ⟨slotsA, hvw, hB⟩ := finishStruct_bwd E cx hsa' hsb' hrel kvs hc1 hc2 sA sB v hk hfin
                    obtain ⟨hw, hmk⟩ := mkUnion_lift E cx hua hub htA htB htySub v w h
                    rw [hB]
                    simp only []
                    rw [hqB, hvw, lift_struct_struct] at hmk
                    rw [hmk, hw, lift_union_known ρ B g _ _ htB, hqB, hvw, lift_struct_struct]
                    simp [isVoidT]
              · simp only [Bool.not_eq_true] at hp
                have hpB : isPlainStruct tdB.ty = false := by
                  cases hqA : tdA.ty <;> cases hqB : tdB.ty <;> simp_all [tySub, isPlainStruct]
                rw [tightDoc_union_nested A f c ht htA hvA hp] at hk
                rw [nvrDoc_union_nested ρ A B f c ht htA hvA hp] at hn
                simp only [Bool.and_eq_true] at hn
                rw [decode_union_obj_nested E cx.wfA sA f hua ht htA hnc hvA hp] at h
                rw [decode_union_obj_nested E cx.wfB sB g hub ht htB hncB hvB hpB]
                have hcr := hIH' [(tag, tdA.ty.withFlags {})] [(tag, tdB.ty.withFlags {})] tag
                  (tdA.ty.withFlags {}) (tdB.ty.withFlags {}) hk hn.2 (by simp) (by simp) (tySub_withFlags hty)
                  (tyWF_withFlags hwA hvA)
                unfold ChildRelB at hcr
                cases hpl : payloadOf (childLookup tag (decodeMembers E A [] sA [(tag, tdA.ty.withFlags {})] kvs))
                    (jsonLookup tag kvs).isSome tdA.ty.flags.nullable with
                | error e => simp [hpl] at h
                | ok v =>
                  simp only [hpl] at h
                  have hplB : payloadOf (childLookup tag (decodeMembers E B [] sB [(tag, tdB.ty.withFlags {})] kvs))
                      (jsonLookup tag kvs).isSome tdB.ty.flags.nullable = .ok (lift ρ B tdB.ty v) := by
                    unfold payloadOf at hpl ⊢
                    cases hcl : childLookup tag (decodeMembers E A [] sA [(tag, tdA.ty.withFlags {})] kvs) with
                    | some r =>
                      simp only [hcl] at hpl hcr
                      subst hpl
                      simp only [] at hcr
                      rw [hcr, lift_withFlags]
                    | none =>
                      simp only [hcl] at hpl hcr
                      rw [hcr, ← hnl]
                      simp only []
                      split at hpl
                      · cases hpl
                      · rename_i hk'
                        simp only [hk', Bool.false_eq_true, if_false]
                        split at hpl
                        · rename_i hnl'
                          cases hpl
                          simp [hnl', lift_none]
                        · cases hpl
                  rw [hplB]
                  simp only []
                  split at h
                  · cases h
                  · rename_i hany
                    obtain ⟨hw, hmk⟩ := mkUnion_lift E cx hua hub htA htB hty v w h
                    simp only [hany, Bool.false_eq_true, if_false]
                    rw [hmk, hw, lift_union_known ρ B g _ _ htB]
                    simp [hvB]
      | _ => unfold decode at h; simp [ht, hua, PTy.flags, verr] at h
  | null => unfold decode at h; simp [hua, PTy.flags, verr, isNullJ] at h hnn; simp [hnn] at h
  | _ => unfold decode at h; simp [hua, PTy.flags, verr] at h

end StoneVerif.Rt.Compat
