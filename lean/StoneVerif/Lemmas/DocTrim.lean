import StoneVerif.Model.DocTrim
/-! Lemmas about `Model/DocTrim.lean` (split / join / rstrip) used by the C11 theorems on documentation strings. -/
namespace StoneVerif.DocTrim

theorem splitNL_ne_nil (s : List Char) : splitNL s ≠ [] := by
  induction s with
  | nil => simp [splitNL]
  | cons c cs ih =>
    unfold splitNL
    split
    · simp
    · split <;> simp

theorem joinNL_cons (l : List Char) (ls : List (List Char)) (h : ls ≠ []) :
    joinNL (l :: ls) = l ++ '\n' :: joinNL ls := by
  cases ls with
  | nil => exact absurd rfl h
  | cons l2 ls => rfl

/-- a piece without newline in front of a newline is the first piece -/
theorem splitNL_append_nl (l rest : List Char) (h : '\n' ∉ l) :
    splitNL (l ++ '\n' :: rest) = l :: splitNL rest := by
  induction l with
  | nil => simp [splitNL]
  | cons c cs ih =>
    have hc : c ≠ '\n' := fun e => h (by simp [e])
    have hcs : '\n' ∉ cs := fun e => h (by simp [e])
    simp only [List.cons_append, splitNL, beq_iff_eq, hc, if_false, ih hcs]

theorem splitNL_single (l : List Char) (h : '\n' ∉ l) : splitNL l = [l] := by
  induction l with
  | nil => simp [splitNL]
  | cons c cs ih =>
    have hc : c ≠ '\n' := fun e => h (by simp [e])
    have hcs : '\n' ∉ cs := fun e => h (by simp [e])
    simp only [splitNL, beq_iff_eq, hc, if_false, ih hcs]

/-- `'\n'.join(ls).split('\n') == ls` for a non-empty list of pieces without newline -/
theorem split_join (ls : List (List Char)) (hne : ls ≠ []) (h : ∀ l ∈ ls, '\n' ∉ l) :
    splitNL (joinNL ls) = ls := by
  induction ls with
  | nil => exact absurd rfl hne
  | cons l ls ih =>
    cases ls with
    | nil => simpa [joinNL] using splitNL_single l (h l (by simp))
    | cons l2 ls =>
      rw [joinNL_cons l (l2 :: ls) (by simp), splitNL_append_nl l _ (h l (by simp)),
        ih (by simp) (fun x hx => h x (by simp [hx]))]

/-- `'\n'.join(s.split('\n')) == s` -/
theorem join_split (s : List Char) : joinNL (splitNL s) = s := by
  induction s with
  | nil => simp [splitNL, joinNL]
  | cons c cs ih =>
    unfold splitNL
    split
    · rename_i hc
      have : c = '\n' := by simpa using hc
      rw [joinNL_cons [] _ (splitNL_ne_nil cs), ih, this]; rfl
    · split
      · rename_i e; exact absurd e (splitNL_ne_nil cs)
      · rename_i l ls e
        rw [e] at ih
        cases ls with
        | nil => simp [joinNL] at ih ⊢; exact ih
        | cons l2 ls =>
          rw [joinNL_cons l _ (by simp)] at ih
          rw [joinNL_cons (c :: l) _ (by simp), ← ih]; rfl

theorem splitNL_no_nl (s : List Char) : ∀ l ∈ splitNL s, '\n' ∉ l := by
  induction s with
  | nil => simp [splitNL]
  | cons c cs ih =>
    unfold splitNL
    split
    · intro l hl
      rcases List.mem_cons.mp hl with e | hl
      · simp [e]
      · exact ih l hl
    · rename_i hc
      have hc' : c ≠ '\n' := by simpa using hc
      split
      · intro l hl
        have : l = [c] := by simpa using hl
        simp [this, Ne.symm hc']
      · rename_i l0 ls e
        rw [e] at ih
        intro l hl
        rcases List.mem_cons.mp hl with e2 | hl
        · have := ih l0 (by simp)
          simp [e2, Ne.symm hc', this]
        · exact ih l (by simp [hl])

theorem rstrip_blank (w : List Char) (h : ∀ c ∈ w, isSpace c = true) : rstrip w = [] := by
  induction w with
  | nil => rfl
  | cons c cs ih =>
    simp [rstrip, ih (fun x hx => h x (by simp [hx])), h c (by simp)]

/-- `(l + w).rstrip() == l.rstrip()` when `w` is white space -/
theorem rstrip_append_blank (l w : List Char) (h : ∀ c ∈ w, isSpace c = true) :
    rstrip (l ++ w) = rstrip l := by
  induction l with
  | nil => simpa [rstrip] using rstrip_blank w h
  | cons c cs ih => simp only [List.cons_append, rstrip, ih]

theorem rstrip_sub (l : List Char) : ∀ c ∈ rstrip l, c ∈ l := by
  induction l with
  | nil => simp [rstrip]
  | cons c cs ih =>
    intro x hx
    unfold rstrip at hx
    split at hx
    · split at hx
      · simp at hx
      · have : x = c := by simpa using hx
        simp [this]
    · rename_i r rs e
      rw [e] at ih
      rcases List.mem_cons.mp hx with e2 | hx
      · simp [e2]
      · exact List.mem_cons_of_mem _ (ih x hx)

/-- the last character of a stripped line is not white space -/
theorem rstrip_getLast (l : List Char) (c : Char) (h : (rstrip l).getLast? = some c) : isSpace c = false := by
  induction l with
  | nil => simp [rstrip] at h
  | cons a as ih =>
    unfold rstrip at h
    split at h
    · split at h
      · simp at h
      · rename_i hs
        have : a = c := by simpa using h
        rw [← this]; simpa using hs
    · rename_i r rs e
      rw [e] at ih
      apply ih
      rw [List.getLast?_cons_cons] at h
      exact h

theorem rstrip_cons_of_cons (c : Char) (cs : List Char) (r : Char) (rs : List Char) (h : rstrip cs = r :: rs) :
    rstrip (c :: cs) = c :: r :: rs := by
  simp [rstrip, h]

theorem rstrip_idem (l : List Char) : rstrip (rstrip l) = rstrip l := by
  induction l with
  | nil => rfl
  | cons a as ih =>
    cases e : rstrip as with
    | nil =>
      by_cases hs : isSpace a = true
      · simp [rstrip, e, hs]
      · simp [rstrip, e, hs]
    | cons r rs =>
      rw [e] at ih
      rw [rstrip_cons_of_cons a as r rs e]
      exact rstrip_cons_of_cons a (r :: rs) r rs ih

theorem addTrail_ne_nil (ls ws : List (List Char)) (h : ls ≠ []) : addTrail ls ws ≠ [] := by
  cases ls with
  | nil => exact absurd rfl h
  | cons l ls => cases ws <;> simp [addTrail]

theorem addTrail_length (ls ws : List (List Char)) : (addTrail ls ws).length = ls.length := by
  induction ls generalizing ws with
  | nil => simp [addTrail]
  | cons l ls ih => cases ws <;> simp [addTrail, ih]

theorem addTrail_no_nl (ls ws : List (List Char)) (hl : ∀ l ∈ ls, '\n' ∉ l)
    (hw : ∀ w ∈ ws, blankTail w = true) : ∀ l ∈ addTrail ls ws, '\n' ∉ l := by
  induction ls generalizing ws with
  | nil => simp [addTrail]
  | cons l ls ih =>
    cases ws with
    | nil => simpa [addTrail] using hl
    | cons w ws =>
      intro x hx
      simp only [addTrail, List.mem_cons] at hx
      rcases hx with e | hx
      · have h1 := hl l (by simp)
        have h2 : '\n' ∉ w := by
          intro hm
          have := hw w (by simp)
          simp only [blankTail, List.all_eq_true] at this
          have := this _ hm
          simp at this
        simp [e, h1, h2]
      · exact ih ws (fun y hy => hl y (by simp [hy])) (fun y hy => hw y (by simp [hy])) x hx

theorem map_rstrip_addTrail (ls ws : List (List Char)) (hw : ∀ w ∈ ws, blankTail w = true) :
    (addTrail ls ws).map rstrip = ls.map rstrip := by
  induction ls generalizing ws with
  | nil => simp [addTrail]
  | cons l ls ih =>
    cases ws with
    | nil => simp [addTrail]
    | cons w ws =>
      have hsp : ∀ c ∈ w, isSpace c = true := by
        intro c hc
        have := hw w (by simp)
        simp only [blankTail, List.all_eq_true] at this
        have := this c hc
        simp at this
        exact this.1
      simp only [addTrail, List.map_cons, rstrip_append_blank l w hsp,
        ih ws (fun y hy => hw y (by simp [hy]))]

end StoneVerif.DocTrim
