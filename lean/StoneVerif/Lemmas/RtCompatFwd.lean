import StoneVerif.Lemmas.RtCompatSim
import StoneVerif.Lemmas.RtCompatTags
/-!
Helper lemmas for C07, part 6: the decoder of the older spec (lenient) simulates the decoder of the newer spec on every
document — the induction behind `forward_compat`.
-/
namespace StoneVerif.Rt.Compat
open StoneVerif.Rt

/-! ### inherited descriptors (`envWFU`) -/

theorem sameAttr_iff {a b : FieldDef} : sameAttr a b = true ↔
    a.name = b.name ∧ a.ty = b.ty ∧ a.attrNullable = b.attrNullable ∧ a.dflt.isSome = b.dflt.isSome ∧
      a.omitted = b.omitted ∧ a.attrUserDefined = b.attrUserDefined := by
  simp [sameAttr, sameWire_iff, and_assoc]

theorem attrsPrefixU_filter {P C : List FieldDef} (h : attrsPrefixU P C = true) :
    attrsPrefixU (P.filter isPublic) (C.filter isPublic) = true := by
  induction P generalizing C with
  | nil => simp [attrsPrefixU]
  | cons a as ih =>
    cases C with
    | nil => simp [attrsPrefixU] at h
    | cons b bs =>
      simp only [attrsPrefixU, Bool.and_eq_true] at h
      obtain ⟨hab, hrest⟩ := h
      have hom : a.omitted = b.omitted := (sameAttr_iff.mp hab).2.2.2.2.1
      have ih' := ih hrest
      by_cases ho : isPublic b = true
      · have ha : isPublic a = true := by simpa [isPublic, hom] using ho
        simp only [List.filter_cons, ha, ho, if_true, attrsPrefixU, hab, ih', Bool.and_self]
      · have ha : isPublic a = false := by
          cases hb : b.omitted <;> simp_all [isPublic]
        simp only [Bool.not_eq_true] at ho
        simp only [List.filter_cons, ha, ho, Bool.false_eq_true, if_false]
        exact ih'

theorem attrsPrefixU_mem {P C : List FieldDef} (h : attrsPrefixU P C = true) :
    ∀ f ∈ P, ∃ f' ∈ C, sameAttr f f' = true := by
  induction P generalizing C with
  | nil => intro f hf; cases hf
  | cons a as ih =>
    cases C with
    | nil => simp [attrsPrefixU] at h
    | cons b bs =>
      simp only [attrsPrefixU, Bool.and_eq_true] at h
      intro f hf
      rcases List.mem_cons.mp hf with rfl | hf'
      · exact ⟨b, List.mem_cons_self, h.1⟩
      · obtain ⟨f', hf'm, hs⟩ := ih h.2 f hf'
        exact ⟨f', List.mem_cons_of_mem _ hf'm, hs⟩

theorem publicFields_prefixU {env : Env} (hx : envWFU env = true) {c cls : String}
    (hsub : env.structSubclass c cls = true) :
    ∀ f ∈ publicFields env cls, ∃ f' ∈ publicFields env c, sameAttr f f' = true := by
  unfold Env.structSubclass at hsub
  cases hc : env.struct? c with
  | none => simp [hc] at hsub
  | some sc =>
    simp only [hc, StructDef.ancestors, List.contains_iff_mem, List.mem_map] at hsub
    obtain ⟨l, hl, rfl⟩ := hsub
    have hsc := (struct?_mem hc).1
    simp only [envWFU, List.all_eq_true] at hx
    have hl' := hx sc hsc l hl
    cases ha : env.struct? l.cls with
    | none => simp [ha] at hl'
    | some a =>
      simp only [ha] at hl'
      rw [Compat.publicFields_eq ha, Compat.publicFields_eq hc]
      exact attrsPrefixU_mem (attrsPrefixU_filter hl')

theorem fieldSub_trans_same {ρ : Rho} {f g g' : FieldDef} (h : fieldSub ρ f g = true) (hs : sameAttr g g' = true) :
    fieldSub ρ f g' = true := by
  obtain ⟨h1, h2, h3, h4, h5, h6⟩ := sameAttr_iff.mp hs
  have hn := fieldSub_name h
  obtain ⟨p1, p2, p3, p4, p5⟩ := fieldSub_parts h
  simp only [fieldSub, Bool.and_eq_true, beq_iff_eq]
  rw [← h1, ← h2, ← h3, ← h4, ← h5, ← h6]
  exact ⟨⟨⟨⟨⟨hn, p1⟩, p2⟩, p3⟩, p4⟩, p5⟩

/-! ### tables -/

theorem table_find {fields : List FieldDef} (hnd : nodupS (fields.map (·.name)) = true) {f : FieldDef} (hf : f ∈ fields) :
    (fields.map fun f => (f.name, f.ty)).find? (·.1 == f.name) = some (f.name, f.ty) := by
  induction fields with
  | nil => cases hf
  | cons a rest ih =>
    obtain ⟨ha, hnd'⟩ := nodupS_cons hnd
    rcases List.mem_cons.mp hf with rfl | hf'
    · simp
    · have hne : (a.name == f.name) = false := by
        simpa using fun h => ha (List.mem_map.mpr ⟨f, hf', h.symm⟩)
      simp only [List.map_cons, List.find?_cons, hne]
      exact ih hnd' hf'

theorem structTable_find {env : Env} (hwf : envWF env = true) {c : String} {f : FieldDef} (hf : f ∈ publicFields env c) :
    (structTable env c).find? (·.1 == f.name) = some (f.name, f.ty) :=
  table_find (publicFields_nodup hwf c) hf

theorem memberTable_struct' (env : Env) (strict : Bool) (fl : Flags) (cls : String) (s : StructDef)
    (kvs : List (String × JVal)) (hs : env.struct? cls = some s) :
    memberTable env [] strict (.struct fl cls) kvs = structTable env cls := by
  simp [memberTable, hs, structTable, fieldsFor_eq_publicFields hs]

/-! ### union constructors -/

def isUserT : PTy → Bool
  | .struct .. | .tree .. | .union .. => true
  | _ => false

theorem isUserT_sub {ρ : Rho} {tA tB : PTy} (h : tySub ρ tA tB = true) : isUserT tA = isUserT tB := by
  cases tA <;> cases tB <;> simp_all [tySub, isUserT]

theorem mkUnion_eq (E : Ext) (env : Env) (cls tag : String) (x : PyVal) {u : UnionDef} (hu : env.union? cls = some u)
    {t : PTy} (hc : u.ctorValidator tag = some t) :
    mkUnion E env cls tag x =
      if !t.flags.nullable && isVoidT t then
        (if isNoneV x then .ok (.union cls tag .none) else verr "void member must have None value")
      else if !t.flags.nullable && isUserT t then (validateTypeOnly env t x).map fun _ => .union cls tag x
      else (validate E env t x).map fun _ => .union cls tag x := by
  simp only [mkUnion, hu, hc]
  cases t <;> cases x <;> simp [isVoidT, isUserT, isNoneV, bind, Except.bind, pure, Except.pure, Except.map] <;> rfl

theorem mkUnion_sub (E : Ext) {ρ : Rho} {A B : Env} (cx : Ctx ρ A B) {a b tag : String} {ua ub : UnionDef} {tdA tdB : TagDef}
    (hua : A.union? a = some ua) (hub : B.union? b = some ub)
    (htA : publicTag? A a tag = some tdA) (htB : publicTag? B b tag = some tdB)
    (hty : tySub ρ tdA.ty tdB.ty = true) (x w : PyVal) (h : mkUnion E B b tag x = .ok w) :
    w = .union b tag x ∧ mkUnion E A a tag (view ρ A tdA.ty x) = .ok (.union a tag (view ρ A tdA.ty x)) := by
  have hw := (publicTag_tyWF cx.wfA htA).1
  have hn := tySub_nullable hty
  rw [mkUnion_eq E B b tag x hub (ctorValidator_public cx.wfB hub htB)] at h
  rw [mkUnion_eq E A a tag _ hua (ctorValidator_public cx.wfA hua htA)]
  rw [hn, tySub_isVoid hty, isUserT_sub hty, isNoneV_view]
  by_cases h1 : (!tdB.ty.flags.nullable && isVoidT tdB.ty) = true
  · simp only [h1, if_true] at h ⊢
    by_cases hx : isNoneV x = true
    · have : x = .none := by cases x <;> simp_all [isNoneV]
      subst this
      simp only [isNoneV, if_true, Except.ok.injEq] at h
      simp [view_none, isNoneV, h.symm]
    · simp [hx, verr] at h
  · simp only [h1, Bool.false_eq_true, if_false] at h ⊢
    by_cases h2 : (!tdB.ty.flags.nullable && isUserT tdB.ty) = true
    · simp only [h2, if_true] at h ⊢
      cases hv : validateTypeOnly B tdB.ty x with
      | error e => simp [hv, Except.map] at h
      | ok u =>
        simp only [hv, Except.map, Except.ok.injEq] at h
        simp [validateTypeOnly_sub cx hty hw x hv, Except.map, h.symm]
    · simp only [h2, Bool.false_eq_true, if_false] at h ⊢
      cases hv : validate E B tdB.ty x with
      | error e => simp [hv, Except.map] at h
      | ok x' =>
        simp only [hv, Except.map, Except.ok.injEq] at h
        simp [validate_sub E cx x _ _ x' hty hw hv, Except.map, h.symm]

/-- constructing a Void tag with `None` -/
theorem mkUnion_void (E : Ext) {env : Env} (hwf : envWF env = true) {cls tag : String} {u : UnionDef} {td : TagDef}
    (hu : env.union? cls = some u) (htag : publicTag? env cls tag = some td) (hv : isVoidT td.ty = true) :
    mkUnion E env cls tag .none = .ok (.union cls tag .none) := by
  have hw := (publicTag_tyWF hwf htag).1
  rw [mkUnion_eq E env cls tag _ hu (ctorValidator_public hwf hu htag)]
  have : td.ty.flags.nullable = false := by
    cases hq : td.ty <;> simp [hq, isVoidT] at hv
    simpa [hq, tyWF, PTy.flags] using hw
  simp [this, hv, isNoneV]

/-- constructing a nullable tag with `None` -/
theorem mkUnion_none_nullable (E : Ext) {env : Env} (hwf : envWF env = true) {cls tag : String} {u : UnionDef} {td : TagDef}
    (hu : env.union? cls = some u) (htag : publicTag? env cls tag = some td) (hn : td.ty.flags.nullable = true) :
    mkUnion E env cls tag .none = .ok (.union cls tag .none) := by
  rw [mkUnion_eq E env cls tag _ hu (ctorValidator_public hwf hu htag)]
  have : validate E env td.ty .none = .ok .none := by unfold validate; simp [hn]
  simp [hn, this, Except.map]

end StoneVerif.Rt.Compat
