import StoneVerif.Model.Fmt
import StoneVerif.Props.C18
