#!/bin/bash
# Builds the framework from files on disk only (offline): translator output, Lean library, driver.
set -e
here="$(cd "$(dirname "${BASH_SOURCE[0]}")" && pwd)"
repo="${STONE_REPO:-/repo}"
python3 "$here/translator/extract_tables.py" --repo "$repo" --out "$here/lean/StoneVerif/Gen/Tables.lean"
cd "$here/lean"
lake build StoneVerif driver
