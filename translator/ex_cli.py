"""Tables extracted from stone/cli_helpers.py and stone/cli.py (C19).

Everything the hand-written lexer / parser model in Model/Cli.lean was written from is copied here as
plain Lean data, so that an edit of a token regex, of the keyword table, of the precedence tuple or of a
grammar docstring in the repository under test changes `StoneVerif.Tables.*` and breaks the `rfl` pins in
Props/C19.lean (and, for keywords and precedence, changes the behaviour of the compiled model).
"""
import ast
from extract_tables import extractor, parse, lean_str, lean_list


def _class(tree, name):
    for node in tree.body:
        if isinstance(node, ast.ClassDef) and node.name == name:
            return node
    raise KeyError(name)


def _const_str(node):
    return isinstance(node, ast.Constant) and isinstance(node.value, str)


def _pairs(name, pairs):
    return 'def %s : List (String × String) := %s' % (
        name, lean_list('(%s, %s)' % (lean_str(a), lean_str(b)) for a, b in pairs))


@extractor
def filter_lexer_tables(repo):
    """FilterExprLexer: `tokens`, string rules `t_X = r'..'`, function rules (docstring regexes, in
    definition order, which is the order ply tries them in), `t_ignore`, KEYWORDS."""
    cls = _class(parse(repo, 'stone/cli_helpers.py'), 'FilterExprLexer')
    tokens = []
    str_rules = []
    fn_rules = []
    ignore = ''
    keywords = []
    for node in cls.body:
        if isinstance(node, (ast.Assign, ast.AugAssign)):
            target = node.targets[0] if isinstance(node, ast.Assign) else node.target
            if not isinstance(target, ast.Name):
                continue
            if target.id == 'tokens' and isinstance(node.value, ast.Tuple):
                tokens.extend(e.value for e in node.value.elts if _const_str(e))
            elif target.id == 't_ignore' and _const_str(node.value):
                ignore = node.value.value
            elif target.id.startswith('t_') and _const_str(node.value):
                str_rules.append((target.id, node.value.value))
            elif target.id == 'KEYWORDS' and isinstance(node.value, ast.Dict):
                for k, v in zip(node.value.keys, node.value.values):
                    if _const_str(k) and _const_str(v):
                        keywords.append((k.value, v.value))
        elif isinstance(node, ast.FunctionDef) and node.name.startswith('t_') and node.name != 't_error':
            fn_rules.append((node.name, ast.get_docstring(node, clean=False) or ''))
    # ply: functions in definition order, then string rules by decreasing regex length (stable sort
    # of the alphabetical `dir()` order)
    str_rules = sorted(sorted(str_rules), key=lambda p: len(p[1]), reverse=True)
    return '\n'.join([
        'def filterTokens : List String := %s' % lean_list(lean_str(t) for t in tokens),
        _pairs('filterTokenFuncs', fn_rules),
        _pairs('filterTokenStrs', str_rules),
        'def filterIgnore : String := %s' % lean_str(ignore),
        _pairs('filterKeywords', keywords),
    ])


@extractor
def filter_parser_tables(repo):
    """FilterExprParser: `precedence` (lowest first, as yacc reads it), `start`, and every grammar
    docstring with whitespace normalised."""
    cls = _class(parse(repo, 'stone/cli_helpers.py'), 'FilterExprParser')
    prec = []
    start = ''
    grammar = []
    for node in cls.body:
        if isinstance(node, ast.Assign) and isinstance(node.targets[0], ast.Name):
            name = node.targets[0].id
            if name == 'precedence' and isinstance(node.value, ast.Tuple):
                for row in node.value.elts:
                    if isinstance(row, ast.Tuple) and row.elts and all(_const_str(e) for e in row.elts):
                        prec.append((row.elts[0].value, [e.value for e in row.elts[1:]]))
            elif name == 'start' and _const_str(node.value):
                start = node.value.value
        elif isinstance(node, ast.FunctionDef) and node.name.startswith('p_') and node.name != 'p_error':
            doc = ast.get_docstring(node, clean=False) or ''
            grammar.append((node.name, ' '.join(doc.split())))
    return '\n'.join([
        'def filterPrecedence : List (String × List String) := %s' % lean_list(
            '(%s, %s)' % (lean_str(a), lean_list(lean_str(t) for t in ts)) for a, ts in prec),
        'def filterStart : String := %s' % lean_str(start),
        _pairs('filterGrammar', grammar),
    ])


@extractor
def filter_eval_tables(repo):
    """The operator / conjunction strings the `eval` methods compare against, in branch order."""
    tree = parse(repo, 'stone/cli_helpers.py')
    out = []
    for cname, attr, lean_name in (('FilterExprPredicate', 'op', 'filterEvalOps'),
                                   ('FilterExprConjunction', 'conj', 'filterEvalConjs')):
        cls = _class(tree, cname)
        found = []
        for node in cls.body:
            if isinstance(node, ast.FunctionDef) and node.name == 'eval':
                for cmp_ in ast.walk(node):
                    if (isinstance(cmp_, ast.Compare) and isinstance(cmp_.left, ast.Attribute)
                            and cmp_.left.attr == attr and len(cmp_.comparators) == 1
                            and _const_str(cmp_.comparators[0])):
                        found.append((cmp_.lineno, cmp_.comparators[0].value))
        found.sort()
        out.append('def %s : List String := %s' % (lean_name, lean_list(lean_str(v) for _l, v in found)))
    return '\n'.join(out)


@extractor
def cli_special_attribute(repo):
    """The `-a` argument that selects every attribute (string literals compared with `in attrs`
    inside `main`)."""
    tree = parse(repo, 'stone/cli.py')
    found = []
    for node in ast.walk(tree):
        if isinstance(node, ast.FunctionDef) and node.name == 'main':
            for cmp_ in ast.walk(node):
                if (isinstance(cmp_, ast.Compare) and _const_str(cmp_.left) and len(cmp_.ops) == 1
                        and isinstance(cmp_.ops[0], ast.In) and isinstance(cmp_.comparators[0], ast.Name)
                        and cmp_.comparators[0].id == 'attrs'):
                    found.append(cmp_.left.value)
    return 'def cliAllAttributes : List String := %s' % lean_list(lean_str(v) for v in found)
