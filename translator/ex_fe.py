"""Tables extracted from the frontend for the C01 / C03 component models (Model/FeParams.lean, Model/FeNames.lean).

* `feKeywords`, `feReserved`     Lexer.KEYWORDS / Lexer.RESERVED of stone/frontend/lexer.py
* `feBuiltinTypes`               IRGenerator.data_types of stone/frontend/ir_generator.py (the names every namespace
                                 environment starts with: `default_env`)
* `feBuiltinAnnotations`         keys of BUILTIN_ANNOTATION_CLASS_BY_STRING
* `feInitSigs`                   for every class in `feBuiltinTypes`: the parameter names of the `__init__` that
                                 `get_args(cls.__init__)` sees (the class's own or the nearest inherited one, `self`
                                 removed) and the number of parameters that have a default -- what
                                 `_instantiate_data_type` derives its positional / keyword rules from
* `feCanonicalStrip`             the characters `_get_base_name` removes from an item name and from a namespace name
* `feCanonicalSep`               the string literal(s) `_get_base_name` puts between the two parts (concatenated; "" if
                                 the parts are joined directly)

Python `ast` only; nothing is imported from the tree.
"""
import ast
from extract_tables import extractor, parse, lean_str, lean_list


def _class(tree, name):
    for node in tree.body:
        if isinstance(node, ast.ClassDef) and node.name == name:
            return node
    return None


def _assign_in(cls, name):
    for node in cls.body:
        if isinstance(node, ast.Assign) and len(node.targets) == 1 and isinstance(node.targets[0], ast.Name) \
                and node.targets[0].id == name:
            return node.value
    return None


def _strs(node):
    return [e.value for e in node.elts if isinstance(e, ast.Constant) and isinstance(e.value, str)]


@extractor
def fe_lexer_keywords(repo):
    cls = _class(parse(repo, 'stone/frontend/lexer.py'), 'Lexer')
    kws = _strs(_assign_in(cls, 'KEYWORDS'))
    res = _assign_in(cls, 'RESERVED')
    pairs = [(k.value, v.value) for k, v in zip(res.keys, res.values)]
    return '\n'.join([
        'def feKeywords : List String := %s' % lean_list(lean_str(k) for k in kws),
        'def feReserved : List (String × String) := %s' % lean_list(
            '(%s, %s)' % (lean_str(a), lean_str(b)) for a, b in pairs),
    ])


def _init_sig(classes, name, seen=()):
    """(param names without self, number of defaults) of the __init__ found along the first-base chain"""
    cls = classes.get(name)
    if cls is None or name in seen:
        return [], 0
    for node in cls.body:
        if isinstance(node, ast.FunctionDef) and node.name == '__init__':
            names = [a.arg for a in node.args.args][1:]
            return names, len(node.args.defaults)
    for b in cls.bases:
        if isinstance(b, ast.Name):
            return _init_sig(classes, b.id, seen + (name,))
    return [], 0


@extractor
def fe_builtin_types(repo):
    tree = parse(repo, 'stone/frontend/ir_generator.py')
    gen = _class(tree, 'IRGenerator')
    names = [e.id for e in _assign_in(gen, 'data_types').elts if isinstance(e, ast.Name)]
    annos = []
    for node in tree.body:
        if isinstance(node, ast.Assign) and isinstance(node.targets[0], ast.Name) \
                and node.targets[0].id == 'BUILTIN_ANNOTATION_CLASS_BY_STRING':
            annos = [k.value for k in node.value.keys]
    dt = parse(repo, 'stone/ir/data_types.py')
    classes = {n.name: n for n in dt.body if isinstance(n, ast.ClassDef)}
    sigs = []
    for n in names:
        params, ndef = _init_sig(classes, n)
        sigs.append('(%s, (%s, %d))' % (lean_str(n), lean_list(lean_str(p) for p in params), ndef))
    # _get_base_name: the `.replace(x, '')` chains on `input_str` and on `namespace_name`
    strip = {'input_str': [], 'namespace_name': []}
    sep = []
    for node in ast.walk(gen):
        if isinstance(node, ast.FunctionDef) and node.name == '_get_base_name':
            # the returned `a + 'lit' + b` chain: string constants that are direct operands of `+`
            def operands(e):
                if isinstance(e, ast.BinOp) and isinstance(e.op, ast.Add):
                    return operands(e.left) + operands(e.right)
                return [e]
            for ret in ast.walk(node):
                if isinstance(ret, ast.Return) and ret.value is not None:
                    sep += [o.value for o in operands(ret.value) if isinstance(o, ast.Constant) and isinstance(o.value, str)]
            for call in ast.walk(node):
                if isinstance(call, ast.Call) and isinstance(call.func, ast.Attribute) and call.func.attr == 'replace' \
                        and len(call.args) == 2 and isinstance(call.args[1], ast.Constant) and call.args[1].value == '':
                    root = call.func.value
                    while isinstance(root, ast.Call) and isinstance(root.func, ast.Attribute):
                        root = root.func.value
                    if isinstance(root, ast.Name) and root.id in strip:
                        strip[root.id].append(call.args[0].value)
    return '\n'.join([
        'def feBuiltinTypes : List String := %s' % lean_list(lean_str(n) for n in names),
        'def feBuiltinAnnotations : List String := %s' % lean_list(lean_str(n) for n in annos),
        'def feInitSigs : List (String × (List String × Nat)) := %s' % lean_list(sigs),
        'def feCanonicalStrip : List String × List String := (%s, %s)' % (
            lean_list(lean_str(c) for c in sorted(strip['input_str'])),
            lean_list(lean_str(c) for c in sorted(strip['namespace_name']))),
        'def feCanonicalSep : String := %s' % lean_str(''.join(sep)),
    ])
