"""The reserved catch-all tag of `IRGenerator._populate_union_type_attributes` (stone/frontend/ir_generator.py), for
the compile model (Model/FeCompile.lean, C02): the names a declared tag is compared with (`stone_field.name == '..'`)
and the name the implicit catch-all `UnionField(name='..', .., catch_all=True)` is created under.  Props/C02Compile.lean
states that the two agree and are what the model uses: an edit of either literal breaks the build.
"""
import ast
from extract_tables import extractor, parse, lean_str, lean_list


def _function(tree, name):
    for node in ast.walk(tree):
        if isinstance(node, ast.FunctionDef) and node.name == name:
            return node
    return None


@extractor
def fe_catch_all(repo):
    tree = parse(repo, 'stone/frontend/ir_generator.py')
    fn = _function(tree, '_populate_union_type_attributes')
    reserved, created = [], []
    if fn is not None:
        for node in ast.walk(fn):
            if isinstance(node, ast.Compare) and len(node.ops) == 1 and isinstance(node.ops[0], ast.Eq) and \
                    isinstance(node.left, ast.Attribute) and node.left.attr == 'name' and \
                    isinstance(node.comparators[0], ast.Constant) and isinstance(node.comparators[0].value, str):
                reserved.append(node.comparators[0].value)
            if isinstance(node, ast.Call) and isinstance(node.func, ast.Name) and node.func.id == 'UnionField':
                kw = {k.arg: k.value for k in node.keywords}
                ca = kw.get('catch_all')
                if isinstance(ca, ast.Constant) and ca.value is True and isinstance(kw.get('name'), ast.Constant):
                    created.append(kw['name'].value)
    return ('def feCatchAllReserved : List String := %s\n'
            'def feCatchAllCreated : List String := %s' % (lean_list([lean_str(s) for s in reserved]),
                                                           lean_list([lean_str(s) for s in created])))
