"""Tables extracted from stone/backends/js_helpers.py, tsd_helpers.py, js_client.py, tsd_types.py (C16).

The type mappers of Model/DeclJs.lean look every primitive / `List` up in `Tables.jsBaseTypeTable` /
`Tables.tsdBaseTypeTable` and fall back to `Tables.*BaseTypeDefault`, exactly as `fmt_type_name` does, so an edit of
a table entry in the repository under test changes the compiled model and (when the new name is not a builtin of the
target language) breaks `base_names_resolve` in Props/C16.lean.  The format strings of `fmt_url`, `fmt_func`,
`fmt_polymorphic_type_reference` and of the Map branch are copied too and pinned by `rfl`.
"""
import ast
from extract_tables import extractor, parse, lean_str, lean_list


def _func(tree, name):
    for node in ast.walk(tree):
        if isinstance(node, ast.FunctionDef) and node.name == name:
            return node
    raise KeyError(name)


def _is_str(node):
    return isinstance(node, ast.Constant) and isinstance(node.value, str)


def _str_consts(node):
    """string constants below `node` in source order, docstrings excluded"""
    doc = ast.get_docstring(node, clean=False) if isinstance(node, ast.FunctionDef) else None
    found = []
    for sub in ast.walk(node):
        if _is_str(sub) and sub.value != doc:
            found.append((sub.lineno, sub.col_offset, sub.value))
    found.sort()
    return [v for _l, _c, v in found]


def _base_table(tree):
    for node in tree.body:
        if (isinstance(node, ast.Assign) and isinstance(node.targets[0], ast.Name)
                and node.targets[0].id == '_base_type_table' and isinstance(node.value, ast.Dict)):
            out = []
            for k, v in zip(node.value.keys, node.value.values):
                if isinstance(k, ast.Name) and _is_str(v):
                    out.append((k.id, v.value))
            return out
    raise KeyError('_base_type_table')


def _get_default(fn, table='_base_type_table'):
    """second argument of every `_base_type_table.get(x, '<default>')` call in `fn`, in source order"""
    found = []
    for node in ast.walk(fn):
        if (isinstance(node, ast.Call) and isinstance(node.func, ast.Attribute) and node.func.attr == 'get'
                and isinstance(node.func.value, ast.Name) and node.func.value.id == table
                and len(node.args) == 2 and _is_str(node.args[1])):
            found.append((node.lineno, node.col_offset, node.args[1].value))
    found.sort()
    return [v for _l, _c, v in found]


def _pairs(name, pairs):
    return 'def %s : List (String × String) := %s' % (
        name, lean_list('(%s, %s)' % (lean_str(a), lean_str(b)) for a, b in pairs))


def _strs(name, items):
    return 'def %s : List String := %s' % (name, lean_list(lean_str(s) for s in items))


@extractor
def js_type_tables(repo):
    """js_helpers: `_base_type_table`, the `.get` default of fmt_type_name, the format strings of fmt_type_name,
    fmt_jsdoc_union, fmt_func, fmt_url, fmt_error_type."""
    tree = parse(repo, 'stone/backends/js_helpers.py')
    return '\n'.join([
        _pairs('jsBaseTypeTable', _base_table(tree)),
        _strs('jsBaseTypeDefault', _get_default(_func(tree, 'fmt_type_name'))),
        _strs('jsTypeNameStrings', _str_consts(_func(tree, 'fmt_type_name'))),
        _strs('jsUnionStrings', _str_consts(_func(tree, 'fmt_jsdoc_union'))),
        _strs('jsFuncStrings', _str_consts(_func(tree, 'fmt_func'))),
        _strs('jsUrlStrings', _str_consts(_func(tree, 'fmt_url'))),
        _strs('jsErrorTypeStrings', _str_consts(_func(tree, 'fmt_error_type'))),
    ])


@extractor
def tsd_type_tables(repo):
    """tsd_helpers: `_base_type_table`, the `.get` defaults of fmt_type_name (type default, Map key default), the
    format strings of fmt_type_name, fmt_polymorphic_type_reference, fmt_union, fmt_func, fmt_error_type and of the
    import line."""
    tree = parse(repo, 'stone/backends/tsd_helpers.py')
    return '\n'.join([
        _pairs('tsdBaseTypeTable', _base_table(tree)),
        _strs('tsdBaseTypeDefault', _get_default(_func(tree, 'fmt_type_name'))),
        _strs('tsdTypeNameStrings', _str_consts(_func(tree, 'fmt_type_name'))),
        _strs('tsdReferenceStrings', _str_consts(_func(tree, 'fmt_polymorphic_type_reference'))),
        _strs('tsdUnionStrings', _str_consts(_func(tree, 'fmt_union'))),
        _strs('tsdFuncStrings', _str_consts(_func(tree, 'fmt_func'))),
        _strs('tsdErrorTypeStrings', _str_consts(_func(tree, 'fmt_error_type'))),
        _strs('tsdImportStrings', _str_consts(_func(tree, 'generate_imports_for_referenced_namespaces'))),
    ])


@extractor
def js_split_words(repo):
    """helpers.py: the two regular expressions of split_words (the model re-implements them as a scanner)."""
    tree = parse(repo, 'stone/backends/helpers.py')
    out = []
    for node in tree.body:
        if (isinstance(node, ast.Assign) and isinstance(node.targets[0], ast.Name)
                and node.targets[0].id in ('_split_words_capitalization_re', '_split_words_dashes_re')
                and isinstance(node.value, ast.Call) and node.value.args and _is_str(node.value.args[0])):
            out.append((node.targets[0].id, node.value.args[0].value))
    return _pairs('splitWordsRegexes', out)


@extractor
def tsd_types_templates(repo):
    """tsd_types.py: the Timestamp definition line and the declaration heads (`export interface ...`, ...), i.e.
    every string constant of the three generators that contains a declaration keyword; tsd_client / js_client:
    the strings of `_generate_route` that contain `request(` / `public `."""
    tree = parse(repo, 'stone/backends/tsd_types.py')
    ts_def = []
    for node in tree.body:
        if (isinstance(node, ast.Assign) and isinstance(node.targets[0], ast.Name)
                and node.targets[0].id == '_timestamp_definition' and _is_str(node.value)):
            ts_def.append(node.value.value)
    heads = []
    for fn in ('_generate_alias_type', '_generate_struct_type', '_generate_union_type', '_get_top_level_declaration'):
        for s in _str_consts(_func(tree, fn)):
            if any(k in s for k in ('export ', 'namespace ', 'declare ', "'.tag'", '?')) and len(s) < 80 \
                    and 'Reference to' not in s and 'Tag identifying' not in s:
                heads.append((fn, s))
    jc = parse(repo, 'stone/backends/js_client.py')
    tc = parse(repo, 'stone/backends/tsd_client.py')
    calls = [s for s in _str_consts(_func(jc, '_generate_route')) if 'request(' in s or 'routes.' in s]
    meths = [s for s in _str_consts(_func(tc, '_generate_route')) if 'public ' in s or 'Promise' in s or 'arg: ' in s]
    return '\n'.join([
        _strs('tsdTimestampDefinition', ts_def),
        _pairs('tsdDeclHeads', heads),
        _strs('jsClientCallStrings', calls),
        _strs('tsdClientMethodStrings', meths),
    ])
