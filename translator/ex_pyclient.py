"""Tables extracted for C14 from stone/backends/helpers.py, python_helpers.py and python_client.py.

The naming helpers, the `style` attribute tests and the parameter literals of `_generate_route_method_decl` were
re-written by hand in Model/DeclPyClient.lean; the literals they were written from are copied here so that an edit in
the repository under test changes `StoneVerif.Tables.*` and breaks the pins in Props/C14.lean.
"""
import ast
from extract_tables import extractor, parse, lean_str, lean_list


def _func(tree, name, cls=None):
    for node in ast.walk(tree):
        if isinstance(node, ast.ClassDef) and cls is not None and node.name == cls:
            for sub in node.body:
                if isinstance(sub, ast.FunctionDef) and sub.name == name:
                    return sub
        if cls is None and isinstance(node, ast.FunctionDef) and node.name == name:
            return node
    raise KeyError(name)


def _strs(node):
    return [n.value for n in ast.walk(node) if isinstance(n, ast.Constant) and isinstance(n.value, str)]


@extractor
def pyclient_naming(repo):
    helpers = parse(repo, 'stone/backends/helpers.py')
    regexes = []
    for node in helpers.body:
        if isinstance(node, ast.Assign) and isinstance(node.value, ast.Call) and \
                isinstance(node.value.func, ast.Attribute) and node.value.func.attr == 'compile':
            regexes.append((node.targets[0].id, ''.join(_strs(node.value.args[0]))))
    ph = parse(repo, 'stone/backends/python_helpers.py')
    reserved = []
    for node in ph.body:
        if isinstance(node, ast.Assign) and getattr(node.targets[0], 'id', None) == '_reserved_keywords':
            reserved = sorted(_strs(node.value))
    fmt_func = _func(ph, 'fmt_func')
    fmts = [s for s in _strs(fmt_func) if '{' in s]
    default_version = [ast.literal_eval(d) for d in fmt_func.args.defaults][-1]
    conflict = _func(ph, 'check_route_name_conflict')
    conflict_calls = [ast.unparse(n) for n in ast.walk(conflict)
                      if isinstance(n, ast.Call) and getattr(n.func, 'id', None) == 'fmt_func']
    return '\n'.join([
        'def helpersWordRegexes : List (String × String) := %s' % lean_list(
            '(%s, %s)' % (lean_str(a), lean_str(b)) for a, b in regexes),
        'def pyHelpersReservedKeywords : List String := %s' % lean_list(lean_str(s) for s in reserved),
        'def fmtFuncVersionFormats : List String := %s' % lean_list(lean_str(s) for s in fmts),
        'def fmtFuncDefaultVersion : Nat := %d' % default_version,
        'def routeNameConflictKey : List String := %s' % lean_list(lean_str(s) for s in conflict_calls),
    ])


@extractor
def pyclient_backend(repo):
    tree = parse(repo, 'stone/backends/python_client.py')
    helper = _func(tree, '_generate_route_helper', 'PythonClientBackend')
    decl = _func(tree, '_generate_route_method_decl', 'PythonClientBackend')
    routes = _func(tree, '_generate_routes', 'PythonClientBackend')
    gen = _func(tree, 'generate', 'PythonClientBackend')

    def style_tests(fn):
        out = []
        for n in ast.walk(fn):
            if isinstance(n, ast.Compare) and 'style' in _strs(n.left) and len(n.comparators) == 1:
                out.extend(_strs(n.comparators[0]))
        return out

    def appended(fn):
        """string literals handed to `args.append(...)` / in `args = [...]` / `args += extra_args` sources, in order"""
        out = []
        for n in ast.walk(fn):
            if isinstance(n, ast.Call) and isinstance(n.func, ast.Attribute) and n.func.attr == 'append' and \
                    getattr(n.func.value, 'id', None) == 'args':
                out.append(ast.unparse(n.args[0]))
            if isinstance(n, ast.Assign) and getattr(n.targets[0], 'id', None) == 'args' and isinstance(n.value, ast.List):
                out.append(ast.unparse(n.value))
        return out
    kw = {}
    for n in ast.walk(helper):
        if isinstance(n, ast.Call) and getattr(n.func, 'attr', None) == '_generate_route_method_decl':
            for k in n.keywords:
                kw[k.arg] = ast.unparse(k.value)
    returns = [ast.unparse(n.args[0]) for n in ast.walk(helper)
               if isinstance(n, ast.Call) and getattr(n.func, 'attr', None) == 'emit' and n.args and
               isinstance(n.args[0], ast.Constant) and str(n.args[0].value).startswith(('return', 'arg =', 'self._save'))]
    name_line = [ast.unparse(n.value) for n in ast.walk(decl)
                 if isinstance(n, ast.Assign) and getattr(n.targets[0], 'id', None) in ('method_name', 'namespace_name')]
    imports = [ast.unparse(n.test) for n in ast.walk(_func(tree, '_generate_imports', 'PythonClientBackend'))
               if isinstance(n, ast.If)]
    request_sig = [s for s in _strs(gen) if 'def request' in s or 'request_binary' in s]
    return '\n'.join([
        'def pyClientStyleTestsHelper : List String := %s' % lean_list(lean_str(s) for s in style_tests(helper)),
        'def pyClientStyleTestsRoutes : List String := %s' % lean_list(lean_str(s) for s in style_tests(routes)),
        'def pyClientToFileDecl : List (String × String) := %s' % lean_list(
            '(%s, %s)' % (lean_str(a), lean_str(b)) for a, b in sorted(kw.items())),
        'def pyClientDeclArgs : List String := %s' % lean_list(lean_str(s) for s in appended(decl)),
        'def pyClientRequestArgs : List String := %s' % lean_list(lean_str(s) for s in appended(helper)),
        'def pyClientBodyLines : List String := %s' % lean_list(lean_str(s) for s in returns),
        'def pyClientMethodName : List String := %s' % lean_list(lean_str(s) for s in name_line),
        'def pyClientImportTest : List String := %s' % lean_list(lean_str(s) for s in imports),
        'def pyClientRequestSignature : List String := %s' % lean_list(lean_str(s) for s in request_sig),
    ])
