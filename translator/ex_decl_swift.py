"""Tables of the Swift / Objective-C generators (C17), extracted with `ast` only.

* stone/backends/swift_helpers.py : `_type_table`, `_objc_type_table`, `_reserved_words`
* stone/backends/swift.py         : `_serial_type_table`, `_nsnumber_type_table`
* stone/backends/obj_c_helpers.py : `_primitive_table`, `_primitive_table_user_interface`, `_serial_table`,
                                    `_validator_table`, `_wrapper_primitives`, `_reserved_words`, `_reserved_prefixes`
* stone/backends/helpers.py       : the two regular expressions of `split_words`
* the string constants (format strings) of every naming / type-mapping function that Model/DeclSwift.lean
  re-implements, in source order: an edit of `'{}.{}'`, `'DBX{}{}'`, `'<{}, {}>'` ... changes
  `StoneVerif.Tables.*Strings` and breaks the `decide` pins in Props/C17.lean.

Dictionary keys are IR classes (`Boolean`, `List`, ...): they are written as their class names, which is what
`data_type.__class__` is compared with in the model (`Ty.cls`).
"""
import ast
from extract_tables import extractor, parse, lean_str, lean_list


def _assign(tree, name):
    for node in tree.body:
        if isinstance(node, ast.Assign) and isinstance(node.targets[0], ast.Name) and node.targets[0].id == name:
            return node.value
    raise KeyError(name)


def _func(tree, name):
    for node in ast.walk(tree):
        if isinstance(node, ast.FunctionDef) and node.name == name:
            return node
    raise KeyError(name)


def _key(node):
    if isinstance(node, ast.Name):
        return node.id
    if isinstance(node, ast.Constant):
        return str(node.value)
    raise TypeError(ast.dump(node))


def _dict(tree, name, lean_name):
    d = _assign(tree, name)
    pairs = [(_key(k), v.value) for k, v in zip(d.keys, d.values)]
    return 'def %s : List (String × String) := %s' % (
        lean_name, lean_list('(%s, %s)' % (lean_str(a), lean_str(b)) for a, b in pairs))


def _set(tree, name, lean_name):
    s = _assign(tree, name)
    items = sorted(_key(e) for e in s.elts)
    return 'def %s : List String := %s' % (lean_name, lean_list(lean_str(x) for x in items))


def _strings(tree, fn, lean_name):
    """string constants of a function body in source order, the docstring excluded"""
    f = _func(tree, fn)
    doc = ast.get_docstring(f, clean=False)
    out = []
    for node in ast.walk(f):
        if isinstance(node, ast.Constant) and isinstance(node.value, str):
            out.append((node.lineno, node.col_offset, node.value))
    out.sort()
    vals = [v for _l, _c, v in out]
    if doc is not None and doc in vals:
        vals.remove(doc)
    return 'def %s : List String := %s' % (lean_name, lean_list(lean_str(v) for v in vals))


@extractor
def swift_tables(repo):
    h = parse(repo, 'stone/backends/swift_helpers.py')
    s = parse(repo, 'stone/backends/swift.py')
    return '\n'.join([
        _dict(h, '_type_table', 'swiftTypeTable'),
        _dict(h, '_objc_type_table', 'swiftObjcTypeTable'),
        _set(h, '_reserved_words', 'swiftReservedWords'),
        _dict(s, '_serial_type_table', 'swiftSerialTypeTable'),
        _dict(s, '_nsnumber_type_table', 'swiftNsNumberTable'),
        _strings(h, '_format_camelcase', 'swiftFormatCamelcaseStrings'),
        _strings(h, 'fmt_func', 'swiftFmtFuncStrings'),
        _strings(h, 'fmt_type', 'swiftFmtTypeStrings'),
        _strings(h, 'fmt_objc_type', 'swiftFmtObjcTypeStrings'),
        _strings(h, 'fmt_route_name', 'swiftFmtRouteNameStrings'),
        _strings(h, 'fmt_func_namespace', 'swiftFmtFuncNamespaceStrings'),
        _strings(s, 'fmt_serial_type', 'swiftFmtSerialTypeStrings'),
        _strings(s, 'fmt_serial_obj', 'swiftFmtSerialObjStrings'),
    ])


@extractor
def objc_tables(repo):
    h = parse(repo, 'stone/backends/obj_c_helpers.py')
    return '\n'.join([
        _dict(h, '_primitive_table', 'objcPrimitiveTable'),
        _dict(h, '_primitive_table_user_interface', 'objcPrimitiveUiTable'),
        _dict(h, '_serial_table', 'objcSerialTable'),
        _dict(h, '_validator_table', 'objcValidatorTable'),
        _set(h, '_wrapper_primitives', 'objcWrapperPrimitives'),
        _set(h, '_reserved_words', 'objcReservedWords'),
        _set(h, '_reserved_prefixes', 'objcReservedPrefixes'),
        _strings(h, 'fmt_camel', 'objcFmtCamelStrings'),
        _strings(h, 'fmt_enum_name', 'objcFmtEnumNameStrings'),
        _strings(h, 'fmt_class_prefix', 'objcFmtClassPrefixStrings'),
        _strings(h, 'fmt_type', 'objcFmtTypeStrings'),
        _strings(h, 'fmt_class_type', 'objcFmtClassTypeStrings'),
        _strings(h, 'fmt_route_type', 'objcFmtRouteTypeStrings'),
        _strings(h, 'fmt_serial_class', 'objcFmtSerialClassStrings'),
        _strings(h, 'fmt_route_obj_class', 'objcFmtRouteObjClassStrings'),
        _strings(h, 'fmt_routes_class', 'objcFmtRoutesClassStrings'),
        _strings(h, 'fmt_route_var', 'objcFmtRouteVarStrings'),
        _strings(h, 'fmt_route_func', 'objcFmtRouteFuncStrings'),
    ])


@extractor
def swift_split_words_tables(repo):
    t = parse(repo, 'stone/backends/helpers.py')
    cap = _assign(t, '_split_words_capitalization_re')
    dash = _assign(t, '_split_words_dashes_re')
    return '\n'.join([
        'def swiftSplitWordsCapitalizationRe : String := %s' % lean_str(cap.args[0].value),
        'def swiftSplitWordsDashesRe : String := %s' % lean_str(dash.args[0].value),
    ])
