"""How stone/cli.py answers a spec error (C03): the format operation of the first `print` in the
`except InvalidSpec` handler of `main()` and the exit status that follows it.

The handler is the only place where the three fields of an InvalidSpec (`path` str|None, `lineno` int|None,
`msg` str) are formatted for the user.  The operation is copied as data - style (`format` for
`'..'.format(..)` and f-strings, `percent` for `'..' % ..`), the template, the names of the fields in the order
they are passed - and interpreted by Model/CliReport.lean with Python's partiality made explicit (`%d` of None is
a TypeError, too few arguments an IndexError / TypeError ...).  Props/C03.lean proves that the interpreted
operation ends in `path:line: error: message` for every value of the fields; an edit of the handler that is
partial in one of them breaks that proof.
"""
import ast
from extract_tables import extractor, parse, lean_str, lean_list, lean_int


def _handler(tree):
    for node in ast.walk(tree):
        if isinstance(node, ast.FunctionDef) and node.name == 'main':
            for t in ast.walk(node):
                if isinstance(t, ast.Try):
                    for h in t.handlers:
                        if isinstance(h.type, ast.Name) and h.type.id == 'InvalidSpec':
                            return h
    return None


def _field(expr, var):
    if isinstance(expr, ast.Attribute) and isinstance(expr.value, ast.Name) and expr.value.id == var:
        return expr.attr
    return '?' + ast.dump(expr)[:60]


def _format_operation(expr, var):
    """(style, template, [field names])"""
    if isinstance(expr, ast.Call) and isinstance(expr.func, ast.Attribute) and expr.func.attr == 'format' and \
            isinstance(expr.func.value, ast.Constant) and isinstance(expr.func.value.value, str) and not expr.keywords and \
            not any(isinstance(a, ast.Starred) for a in expr.args):
        return 'format', expr.func.value.value, [_field(a, var) for a in expr.args]
    if isinstance(expr, ast.BinOp) and isinstance(expr.op, ast.Mod) and isinstance(expr.left, ast.Constant) and \
            isinstance(expr.left.value, str):
        right = expr.right
        if isinstance(right, ast.Tuple):
            if any(isinstance(a, ast.Starred) for a in right.elts):
                return 'unknown', ast.dump(expr)[:200], []
            return 'percent', expr.left.value, [_field(a, var) for a in right.elts]
        return 'percent', expr.left.value, [_field(right, var)]
    if isinstance(expr, ast.JoinedStr):
        tpl, fields = [], []
        for part in expr.values:
            if isinstance(part, ast.Constant) and isinstance(part.value, str):
                tpl.append(part.value.replace('{', '{{').replace('}', '}}'))
            elif isinstance(part, ast.FormattedValue):
                conv = {-1: '', 115: '!s', 114: '!r', 97: '!a'}.get(part.conversion, '!?')
                spec = ''
                if part.format_spec is not None:
                    spec = ':' + ''.join(v.value if isinstance(v, ast.Constant) and isinstance(v.value, str) else '?'
                                         for v in part.format_spec.values)
                tpl.append('{' + conv + spec + '}')
                fields.append(_field(part.value, var))
            else:
                return 'unknown', ast.dump(expr)[:200], []
        return 'format', ''.join(tpl), fields
    return 'unknown', ast.dump(expr)[:200], []


def handler_operation(repo):
    """(style, template, [field names], exit status, stream) of the `except InvalidSpec` handler"""
    h = _handler(parse(repo, 'stone/cli.py'))
    style, tpl, fields, status, stream = 'unknown', 'no `except InvalidSpec` handler in main()', [], -1, ''
    if h is not None and h.name:
        for stmt in h.body:
            if isinstance(stmt, ast.Expr) and isinstance(stmt.value, ast.Call) and isinstance(stmt.value.func, ast.Name) and \
                    stmt.value.func.id == 'print':
                call = stmt.value
                if len(call.args) == 1:
                    style, tpl, fields = _format_operation(call.args[0], h.name)
                else:
                    style, tpl, fields = 'unknown', 'print with %d positional arguments' % len(call.args), []
                for kw in call.keywords:
                    if kw.arg == 'file':
                        stream = ast.unparse(kw.value)
                break
        # the status: the last statement of the handler, `sys.exit(<int>)`
        last = h.body[-1] if h.body else None
        if isinstance(last, ast.Expr) and isinstance(last.value, ast.Call) and ast.unparse(last.value.func) == 'sys.exit' and \
                len(last.value.args) == 1 and isinstance(last.value.args[0], ast.Constant) and \
                isinstance(last.value.args[0].value, int) and not isinstance(last.value.args[0].value, bool):
            status = last.value.args[0].value
    return style, tpl, fields, status, stream


@extractor
def cli_spec_error_answer(repo):
    style, tpl, fields, status, stream = handler_operation(repo)
    return '\n'.join([
        'def cliSpecErrorStyle : String := %s' % lean_str(style),
        'def cliSpecErrorTemplate : String := %s' % lean_str(tpl),
        'def cliSpecErrorFields : List String := %s' % lean_list(lean_str(f) for f in fields),
        'def cliSpecErrorStream : String := %s' % lean_str(stream),
        'def cliSpecErrorExit : Int := %s' % lean_int(status),
    ])
