"""Iteration over unordered collections in the code generators (C12).

An `ast` scan (nothing is imported) of stone/ir/api.py, stone/frontend/ir_generator.py, stone/backend.py,
stone/compiler.py and every stone/backends/*.py for places where the iteration order of a Python `set` (or of
something derived from one: `list(set(..))`, a dict comprehension over a set, `.keys()/.values()/.items()` of such a
dict) can reach generated text. The analysis is deliberately simple and conservative:

* *unordered expressions* (function-local, flow-insensitive dataflow, closed under nested functions): `set(..)` /
  `frozenset(..)` calls, set displays and comprehensions, dict comprehensions over an unordered iterable,
  `|  &  -  ^` and `.union/.intersection/.difference/.symmetric_difference/.copy` of unordered operands, `|  &  -  ^`
  with a dict view operand (`a.keys() & b.keys()`, `d.items() - ..`: the result is a `set`), `set.union(..)`-style calls,
  `dict.fromkeys(<unordered>)`, names that are
  assigned an unordered expression somewhere in the function (or declared `# type: Set[..]`-style by being updated with
  `|=`), attributes whose *name* is assigned an unordered expression anywhere in the scanned files
  (`x.recursive_custom_annotations = annotations`), calls to functions/methods (by bare name) one of whose `return`s
  is unordered (`get_all_omitted_callers`, ... -- computed as a fixpoint over all scanned files), subscripts /
  `.get` / `.setdefault` / `.values()`-loop variables of *dicts of sets* (`d[k] = set()`, `d.setdefault(k, set())`),
  conditional expressions and `or`/`and` with an unordered branch.
* a *site* is an order-sensitive consumer of an unordered expression: a `for` statement (unless its body only feeds
  sets: `.add/.update/.discard`, `|=`, `continue`, `pass`, `if` of such), a list / generator comprehension, `list()`,
  `tuple()`, `enumerate/zip/map/filter/iter/next/reversed/chain/OrderedDict/dict/str/repr/print`, `.join`, `.format`,
  `%`, an f-string, `self.emit*()`, `.extend`, `+`/`+=` with a list, star-unpacking, tuple unpacking, `yield from`,
  `.pop()` without arguments.
* a consumer is *order-free* when it is (directly, or through one generator / list comprehension) an argument of
  `sorted len set frozenset min max sum any all bool`, a membership / comparison test, a set method, a set
  comprehension, or a truth test.  `sorted(..)` consumers are not dropped: they go into a second table with the source
  text of the `key=` argument, because a sort only fixes the order when its key is injective on the items (a key that
  names a module-level one-`return` function of the same file is given as `<name> = lambda <args>: <expr>`).
  `x = list(<unordered>)` followed by `x.sort(..)` in the same function counts as sorted (`list-sort`).

Output (Lean, `StoneVerif.Tables`):
  setIterSites    : List (String × String × Nat × String)   (file, function, ordinal within the function, kind)
  setSortSites    : List (String × String × Nat × String)   (file, function, ordinal, key source text or "")
  setIterSiteSrc  : List String      human-readable `file:function#ordinal kind: <expression>` (not used by theorems)
  classMutableState : List (String × String × String)        (file, class, attribute) class-level `{}`/`[]`/`set()`
  setReturningFuncs / setTypedAttrs : List String             what the fixpoint inferred (documentation + pinning)
Everything is sorted, so the table is a deterministic function of the source text.
"""
import ast
import os

from extract_tables import extractor, lean_str, lean_list

FILES_FIXED = ['stone/ir/api.py', 'stone/ir/data_types.py', 'stone/frontend/ir_generator.py', 'stone/backend.py',
               'stone/compiler.py']

SET_METHODS_RET = {'union', 'intersection', 'difference', 'symmetric_difference', 'copy'}
SET_METHODS_FREE = {'add', 'update', 'discard', 'remove', 'issubset', 'issuperset', 'isdisjoint',
                    'intersection_update', 'difference_update', 'symmetric_difference_update', 'clear',
                    '__contains__'} | SET_METHODS_RET
ORDER_FREE_FUNCS = {'sorted', 'len', 'set', 'frozenset', 'min', 'max', 'sum', 'any', 'all', 'bool', 'isinstance',
                    'Counter'}
ORDER_SENSITIVE_FUNCS = {'list', 'tuple', 'enumerate', 'zip', 'map', 'filter', 'iter', 'next', 'reversed', 'chain',
                         'OrderedDict', 'dict', 'str', 'repr', 'print', 'deque', 'islice'}
IMMUTABLE_CTORS = {'ArgumentParser', 'namedtuple', 'TypeVar', 'NamedTuple', 'Enum'}
BY_NAME_DICTS = {'route_by_name', 'routes_by_name', 'data_type_by_name', 'alias_by_name', 'annotation_by_name',
                 'annotation_type_by_name', '_imported_namespaces'}
AMBIENT = {('os', 'listdir'), ('os', 'walk'), ('os', 'scandir'), ('glob', 'glob'), ('glob', 'iglob'),
           ('time', 'time'), ('time', 'strftime'), ('time', 'ctime'), ('time', 'localtime'), ('time', 'gmtime'),
           ('datetime', 'now'), ('datetime', 'today'), ('datetime', 'utcnow'), ('date', 'today'),
           ('os', 'getpid'), ('os', 'getcwd'), ('os', 'urandom'), ('uuid', 'uuid1'), ('uuid', 'uuid4'),
           ('random', '*'), ('tempfile', '*'), ('socket', 'gethostname'), ('getpass', 'getuser'),
           ('platform', '*'), ('*', 'iterdir'), ('*', 'rglob'), ('*', 'getmtime'), ('*', 'getctime')}
AMBIENT_BUILTINS = {'id', 'hash', 'vars', 'globals', 'locals'}
# calls that look at what the file system holds (C12: what the output directory held before the run must not reach the
# bytes written into it): (receiver, function); `open(..)` is classified by its mode in `_fs_read`
FS_STATE = {('path', 'exists'), ('path', 'lexists'), ('path', 'isfile'), ('path', 'isdir'), ('path', 'islink'),
            ('path', 'getsize'), ('path', 'getatime'), ('path', 'samefile'), ('os', 'stat'), ('os', 'lstat'),
            ('os', 'access'), ('os', 'readlink'), ('filecmp', '*'), ('*', 'read_text'), ('*', 'read_bytes'),
            ('*', 'is_file'), ('*', 'is_dir'), ('*', 'samefile')}
EMIT_PREFIXES = ('emit', 'generate_multiline_list', 'output_to_relative_path')


def scanned_files(repo):
    files = list(FILES_FIXED)
    d = os.path.join(repo, 'stone', 'backends')
    for fn in sorted(os.listdir(d)):
        if fn.endswith('.py'):
            files.append('stone/backends/' + fn)
    return [f for f in files if os.path.exists(os.path.join(repo, f))]


def _parse(repo, rel):
    with open(os.path.join(repo, rel), encoding='utf-8') as fh:
        return ast.parse(fh.read(), rel)


def _callee(call):
    f = call.func
    if isinstance(f, ast.Name):
        return f.id
    if isinstance(f, ast.Attribute):
        return f.attr
    return None


def _is_dict_view(e):
    """`<expr>.keys()` / `.items()` (also the Python 2 spellings): set-like views whose `& | - ^` build a `set`"""
    return (isinstance(e, ast.Call) and isinstance(e.func, ast.Attribute) and not e.args
            and e.func.attr in ('keys', 'items', 'viewkeys', 'viewitems'))


def _src(node, cap=90):
    s = ' '.join(ast.unparse(node).split())
    return s if len(s) <= cap else s[:cap - 3] + '...'


class Globals:
    """facts shared by all files: functions returning unordered values, attribute names holding them"""

    def __init__(self):
        self.set_funcs = set()
        self.set_attrs = set()
        self.tuple_funcs = {}      # function name -> {tuple index: 'set' | 'dos'}


def _set_parents(tree):
    for node in ast.walk(tree):
        for ch in ast.iter_child_nodes(node):
            ch._parent = node
    tree._parent = None


class FuncScan:
    """one function (with the environment of its enclosing functions)"""

    def __init__(self, g, fn, outer_env=None, outer_dos=None):
        self.g = g
        self.fn = fn
        self.env = set(outer_env or ())       # local names bound to an unordered value
        self.dos = set(outer_dos or ())       # local names bound to a dict whose values are sets
        self._infer()

    # ------------------------------------------------------------ classification of expressions
    def unordered(self, e):
        g = self.g
        if isinstance(e, (ast.Set, ast.SetComp)):
            return True
        if isinstance(e, ast.DictComp):
            return any(self.unordered(gen.iter) for gen in e.generators)
        if isinstance(e, ast.Name):
            return e.id in self.env
        if isinstance(e, ast.Attribute):
            return e.attr in g.set_attrs
        if isinstance(e, ast.BinOp) and isinstance(e.op, (ast.BitOr, ast.BitAnd, ast.Sub, ast.BitXor)):
            # set algebra; also on dict views: `a.keys() & b.keys()`, `d.keys() - {..}`, `d.items() | ..` are `set`s
            return (self.unordered(e.left) or self.unordered(e.right)
                    or _is_dict_view(e.left) or _is_dict_view(e.right))
        if isinstance(e, ast.IfExp):
            return self.unordered(e.body) or self.unordered(e.orelse)
        if isinstance(e, ast.BoolOp):
            return any(self.unordered(v) for v in e.values)
        if isinstance(e, ast.NamedExpr):
            return self.unordered(e.value)
        if isinstance(e, ast.Subscript):
            return self.dict_of_sets(e.value)
        if isinstance(e, ast.Call):
            name = _callee(e)
            if isinstance(e.func, ast.Name) and name in ('set', 'frozenset'):
                return True
            if isinstance(e.func, ast.Attribute) and isinstance(e.func.value, ast.Name) \
                    and e.func.value.id in ('set', 'frozenset') and name in SET_METHODS_RET:
                return True          # set.union(a, b), set.intersection(*xs)
            if name == 'fromkeys' and e.args and self.unordered(e.args[0]):
                return True          # dict.fromkeys(<unordered>): a dict in that order
            if isinstance(e.func, ast.Attribute):
                recv = e.func.value
                if name in SET_METHODS_RET and self.unordered(recv):
                    return True
                if name in ('keys', 'values', 'items') and self.unordered(recv):
                    return True      # views of a dict built from a set
                if name in ('get', 'setdefault', 'pop') and self.dict_of_sets(recv):
                    return True
                if name == 'setdefault' and len(e.args) == 2 and self.unordered(e.args[1]):
                    return True
            if name in g.set_funcs:
                return True
        return False

    def dict_of_sets(self, e):
        if isinstance(e, ast.Name):
            return e.id in self.dos
        if isinstance(e, ast.Call) and _callee(e) == 'defaultdict' and e.args:
            a = e.args[0]
            return isinstance(a, ast.Name) and a.id in ('set', 'frozenset')
        return False

    # ------------------------------------------------------------ local inference (fixpoint)
    def _own_nodes(self):
        """nodes of this function including nested functions (their assignments are visible through closures)"""
        return list(ast.walk(self.fn))

    def _infer(self):
        nodes = self._own_nodes()
        changed = True
        while changed:
            changed = False

            def bind(target, why):
                nonlocal changed
                if isinstance(target, ast.Name) and target.id not in self.env:
                    self.env.add(target.id)
                    changed = True

            def bind_dos(target):
                nonlocal changed
                if isinstance(target, ast.Name) and target.id not in self.dos:
                    self.dos.add(target.id)
                    changed = True

            for n in nodes:
                if isinstance(n, ast.Assign):
                    for t in n.targets:
                        if self.dict_of_sets(n.value):
                            bind_dos(t)
                        if isinstance(t, (ast.Tuple, ast.List)) and isinstance(n.value, ast.Call):
                            shape = self.g.tuple_funcs.get(_callee(n.value), {})
                            for i, kind in shape.items():
                                if i < len(t.elts):
                                    if kind == 'set':
                                        bind(t.elts[i], n)
                                    else:
                                        bind_dos(t.elts[i])
                        if self.unordered(n.value):
                            bind(t, n)
                        if isinstance(t, ast.Subscript) and self.unordered(n.value):
                            bind_dos(t.value)
                        if isinstance(n.value, ast.DictComp) and self.unordered(n.value.value):
                            bind_dos(t)
                        if isinstance(n.value, ast.Name) and n.value.id in self.dos:
                            bind_dos(t)
                elif isinstance(n, ast.AnnAssign) and n.value is not None:
                    if self.unordered(n.value):
                        bind(n.target, n)
                elif isinstance(n, ast.AugAssign):
                    if isinstance(n.op, (ast.BitOr, ast.BitAnd, ast.Sub, ast.BitXor)) and self.unordered(n.value):
                        bind(n.target, n)
                elif isinstance(n, ast.Call) and isinstance(n.func, ast.Attribute):
                    if n.func.attr == 'setdefault' and len(n.args) == 2 and self.unordered(n.args[1]):
                        bind_dos(n.func.value)
                elif isinstance(n, (ast.For, ast.comprehension)):
                    # `for k, v in d.items()` / `for v in d.values()` over a dict of sets binds v to a set
                    it = n.iter
                    if (isinstance(it, ast.Call) and isinstance(it.func, ast.Attribute)
                            and self.dict_of_sets(it.func.value)):
                        if it.func.attr == 'values':
                            bind(n.target, n)
                        elif it.func.attr == 'items' and isinstance(n.target, ast.Tuple) and len(n.target.elts) == 2:
                            bind(n.target.elts[1], n)

    def _own_returns(self):
        """Return / Yield nodes of this function, not of nested functions"""
        out = []

        def rec(node):
            for ch in ast.iter_child_nodes(node):
                if isinstance(ch, (ast.FunctionDef, ast.AsyncFunctionDef, ast.ClassDef, ast.Lambda)):
                    continue
                if isinstance(ch, (ast.Return, ast.Yield, ast.YieldFrom)):
                    out.append(ch)
                rec(ch)

        rec(self.fn)
        return out

    def returns_unordered(self):
        for n in self._own_returns():
            if isinstance(n, ast.Return) and n.value is not None and self.unordered(n.value):
                return True
        return False

    def tuple_return_shape(self):
        """{index: 'set' | 'dos'} for `return a, b` where a component is unordered / a dict of sets"""
        shape = {}
        for n in self._own_returns():
            if isinstance(n, ast.Return) and isinstance(n.value, ast.Tuple):
                for i, e in enumerate(n.value.elts):
                    if self.unordered(e):
                        shape[i] = 'set'
                    elif self.dict_of_sets(e):
                        shape[i] = 'dos'
        return shape

    def yields_in_unordered_order(self):
        """a generator one of whose `yield`s sits inside a loop over an unordered value (or over another such
        generator): the sequence it produces inherits the order"""
        for n in self._own_returns():
            if not isinstance(n, (ast.Yield, ast.YieldFrom)):
                continue
            if isinstance(n, ast.YieldFrom) and self.unordered(n.value):
                return True
            p = getattr(n, '_parent', None)
            while p is not None and p is not self.fn:
                if isinstance(p, (ast.For, ast.AsyncFor)) and self.unordered(p.iter):
                    return True
                p = getattr(p, '_parent', None)
        return False


def _functions(tree):
    """[(qualified name, FunctionDef, enclosing FunctionDef or None)] in source order"""
    out = []

    def rec(node, prefix, encl):
        for ch in ast.iter_child_nodes(node):
            if isinstance(ch, (ast.FunctionDef, ast.AsyncFunctionDef)):
                q = prefix + ch.name
                out.append((q, ch, encl))
                rec(ch, q + '.', ch)
            elif isinstance(ch, ast.ClassDef):
                rec(ch, prefix + ch.name + '.', encl)
            else:
                rec(ch, prefix, encl)

    rec(tree, '', None)
    return out


def _global_fixpoint(trees):
    g = Globals()
    changed = True
    rounds = 0
    while changed and rounds < 20:
        rounds += 1
        changed = False
        for rel, tree in trees:
            scans = {}
            for q, fn, encl in _functions(tree):
                outer = scans.get(id(encl))
                sc = FuncScan(g, fn, outer.env if outer else None, outer.dos if outer else None)
                scans[id(fn)] = sc
                if fn.name not in g.set_funcs and (sc.returns_unordered() or sc.yields_in_unordered_order()):
                    g.set_funcs.add(fn.name)
                    changed = True
                shape = sc.tuple_return_shape()
                merged = dict(g.tuple_funcs.get(fn.name, {}))
                merged.update(shape)
                if shape and g.tuple_funcs.get(fn.name) != merged:
                    g.tuple_funcs[fn.name] = merged
                    changed = True
                for n in ast.walk(fn):
                    targets = []
                    if isinstance(n, ast.Assign):
                        targets = n.targets
                        val = n.value
                    elif isinstance(n, ast.AnnAssign) and n.value is not None:
                        targets = [n.target]
                        val = n.value
                    for t in targets:
                        if isinstance(t, ast.Attribute) and t.attr not in g.set_attrs and sc.unordered(val):
                            g.set_attrs.add(t.attr)
                            changed = True
    return g


# ---------------------------------------------------------------------------------- sites

def _only_feeds_sets(stmts, sc):
    """the body of a `for` over a set is order-free when all it does is add to sets"""
    for s in stmts:
        if isinstance(s, (ast.Pass, ast.Continue)):
            continue
        if isinstance(s, ast.Expr) and isinstance(s.value, ast.Call) and isinstance(s.value.func, ast.Attribute) \
                and s.value.func.attr in ('add', 'update', 'discard') and sc.unordered(s.value.func.value):
            continue
        if isinstance(s, ast.AugAssign) and isinstance(s.op, (ast.BitOr, ast.BitAnd, ast.Sub)) \
                and sc.unordered(s.target):
            continue
        if isinstance(s, ast.If) and _only_feeds_sets(s.body, sc) and _only_feeds_sets(s.orelse, sc):
            continue
        return False
    return True


def _consumer(node, sc):
    """Classify how the value of the unordered expression `node` is used.
    Returns ('free', None) | ('sorted', key_src) | ('site', kind) | ('flow', None) (assignment / return / argument of an
    unknown call: the value travels on, the dataflow or the callee's own scan deals with it)."""
    p = getattr(node, '_parent', None)
    # look through one comprehension: `sorted(f(x) for x in S)`, `set(x for x in S)`, `', '.join(x for x in S)`
    if isinstance(p, ast.comprehension) and p.iter is node:
        comp = p._parent
        if isinstance(comp, ast.SetComp):
            return 'free', None
        if isinstance(comp, ast.DictComp):
            return 'flow', None                    # the dict is itself unordered (see `unordered`)
        outer = _consumer_of_value(comp, sc)
        if outer[0] in ('free',):
            return outer
        if outer[0] == 'sorted':
            return 'sorted', outer[1] + ' [over ' + _src(comp.elt if hasattr(comp, 'elt') else comp, 60) + ']'
        return 'site', 'comp'
    if isinstance(p, (ast.For, ast.AsyncFor)) and p.iter is node:
        if _only_feeds_sets(p.body, sc) and not p.orelse:
            return 'free', None
        return 'site', 'for'
    return _consumer_of_value(node, sc)


def _consumer_of_value(node, sc):
    p = getattr(node, '_parent', None)
    if p is None:
        return 'flow', None
    if isinstance(p, ast.Call):
        name = _callee(p)
        is_arg = node in p.args or any(k.value is node for k in p.keywords)
        if is_arg:
            if isinstance(p.func, ast.Name) and name == 'sorted':
                key = ''
                for k in p.keywords:
                    if k.arg == 'key':
                        key = _src(k.value, 120)
                return 'sorted', key
            if name in ORDER_FREE_FUNCS:
                return 'free', None
            if isinstance(p.func, ast.Attribute) and name in SET_METHODS_FREE and sc.unordered(p.func.value):
                return 'free', None
            if isinstance(p.func, ast.Attribute) and name in ('add', 'update', 'discard', 'difference', 'union',
                                                              'intersection', 'issubset', 'issuperset'):
                return 'free', None                # set-like method of an unknown receiver
            if isinstance(p.func, ast.Attribute) and name == 'join':
                return 'site', 'join'
            if isinstance(p.func, ast.Attribute) and name == 'format':
                return 'site', 'format'
            if isinstance(p.func, ast.Attribute) and name == 'extend':
                return 'site', 'extend'
            if name in ('list', 'tuple'):
                # x = list(S) ... x.sort(key=..)  counts as a sort
                gp = getattr(p, '_parent', None)
                if isinstance(gp, ast.Assign) and len(gp.targets) == 1 and isinstance(gp.targets[0], ast.Name):
                    key = _later_sort(sc.fn, gp.targets[0].id, gp.lineno)
                    if key is not None:
                        return 'sorted', 'list-sort:' + key
                outer = _consumer_of_value(p, sc)
                if outer[0] in ('free', 'sorted'):
                    return outer
                return 'site', name
            if name in ORDER_SENSITIVE_FUNCS:
                return 'site', name
            if name and name.startswith(EMIT_PREFIXES):
                return 'site', 'emit'
            return 'flow', None
        if isinstance(p.func, ast.Attribute) and p.func.value is node:
            # method called on the unordered value itself
            return 'flow', None
        return 'flow', None
    if isinstance(p, ast.Attribute) and p.value is node:
        gp = getattr(p, '_parent', None)
        if isinstance(gp, ast.Call) and gp.func is p:
            if p.attr in SET_METHODS_FREE:
                return 'free', None
            if p.attr == 'pop' and not gp.args:
                return 'site', 'pop'
            if p.attr in ('keys', 'values', 'items'):
                return 'flow', None               # the view is unordered again; its consumer is classified
        return 'flow', None
    if isinstance(p, ast.Compare):
        return 'free', None
    if isinstance(p, (ast.BoolOp, ast.IfExp)):
        if isinstance(p, ast.IfExp) and p.test is node:
            return 'free', None
        return 'flow', None
    if isinstance(p, ast.UnaryOp) and isinstance(p.op, ast.Not):
        return 'free', None
    if isinstance(p, (ast.If, ast.While, ast.Assert)) and getattr(p, 'test', None) is node:
        return 'free', None
    if isinstance(p, ast.BinOp):
        if isinstance(p.op, ast.Mod):
            return 'site', 'percent'
        if isinstance(p.op, ast.Add):
            return 'site', 'concat'
        return 'flow', None                      # set algebra: the result is unordered again
    if isinstance(p, ast.Tuple):
        gp = getattr(p, '_parent', None)
        if isinstance(gp, ast.BinOp) and isinstance(gp.op, ast.Mod) and gp.right is p:
            return 'site', 'percent'
        return 'flow', None
    if isinstance(p, ast.FormattedValue):
        return 'site', 'fstring'
    if isinstance(p, ast.Starred):
        return 'site', 'star'
    if isinstance(p, ast.YieldFrom):
        return 'site', 'yield-from'
    if isinstance(p, ast.AugAssign) and p.value is node and isinstance(p.op, ast.Add):
        return 'site', 'extend'
    if isinstance(p, ast.Assign) and p.value is node:
        if any(isinstance(t, (ast.Tuple, ast.List)) for t in p.targets):
            return 'site', 'unpack'
        return 'flow', None
    return 'flow', None


def _later_sort(fn, name, lineno):
    for n in ast.walk(fn):
        if (isinstance(n, ast.Call) and isinstance(n.func, ast.Attribute) and n.func.attr == 'sort'
                and isinstance(n.func.value, ast.Name) and n.func.value.id == name and n.lineno >= lineno):
            for k in n.keywords:
                if k.arg == 'key':
                    return _src(k.value, 120)
            return ''
        if (isinstance(n, ast.Assign) and len(n.targets) == 1 and isinstance(n.targets[0], ast.Name)
                and n.targets[0].id == name and n.lineno >= lineno and isinstance(n.value, ast.Call)
                and isinstance(n.value.func, ast.Name) and n.value.func.id == 'sorted' and n.value.args
                and isinstance(n.value.args[0], ast.Name) and n.value.args[0].id == name):
            for k in n.value.keywords:
                if k.arg == 'key':
                    return _src(k.value, 120)
            return ''
    return None


def _maximal_unordered(fn, sc, nested):
    """unordered expression nodes of `fn` (not of nested functions) that are not operands of a larger unordered
    expression -- one consumer classification per maximal expression"""
    out = []

    def rec(node):
        for ch in ast.iter_child_nodes(node):
            if ch in nested:
                continue
            if isinstance(ch, ast.expr) and sc.unordered(ch):
                out.append(ch)
                # operands are part of this value; but sub-expressions that are *not* part of the unordered value
                # (arguments of set(...), the element expression of a comprehension) must still be visited
                rec_inside(ch)
            else:
                rec(ch)

    def rec_inside(e):
        if isinstance(e, ast.BinOp):
            for side in (e.left, e.right):
                if sc.unordered(side) or _is_dict_view(side):
                    rec_inside(side) if sc.unordered(side) else rec_wrap(side.func.value)
                else:
                    rec_wrap(side)
        elif isinstance(e, (ast.IfExp, ast.BoolOp)):
            for ch in ast.iter_child_nodes(e):
                if isinstance(ch, ast.expr) and sc.unordered(ch):
                    rec_inside(ch)
                else:
                    rec_wrap(ch)
        elif isinstance(e, ast.Call) and isinstance(e.func, ast.Attribute) and sc.unordered(e.func.value) \
                and (e.func.attr in SET_METHODS_RET or e.func.attr in ('keys', 'values', 'items')):
            rec_inside(e.func.value)
            for a in e.args:
                rec_wrap(a)
        else:
            rec(e)

    def rec_wrap(ch):
        class _W(ast.AST):
            _fields = ('x',)
        w = _W()
        w.x = ch
        rec(w)

    rec(fn)
    return out


def _named_key(tree, key):
    """`key=<name>` where <name> is a module-level function of the same file whose body is (a doc string and) one
    `return <expr>`: the key text becomes `<name> = lambda <args>: <expr>`, so that the table pins what the key IS and
    not only what it is called (an edit of the function's body changes the table)."""
    prefix = 'list-sort:' if key.startswith('list-sort:') else ''
    name = key[len(prefix):]
    if not name.isidentifier():
        return key
    for st in tree.body:
        if isinstance(st, ast.FunctionDef) and st.name == name:
            body = list(st.body)
            if body and isinstance(body[0], ast.Expr) and isinstance(getattr(body[0], 'value', None), ast.Constant) \
                    and isinstance(body[0].value.value, str):
                body = body[1:]
            if len(body) == 1 and isinstance(body[0], ast.Return) and body[0].value is not None:
                return '%s%s = lambda %s: %s' % (prefix, name, _src(st.args, 60), _src(body[0].value, 160))
            return '%s%s = <function with a body of %d statements>' % (prefix, name, len(body))
    return key


def scan(repo):
    files = scanned_files(repo)
    trees = []
    for rel in files:
        t = _parse(repo, rel)
        _set_parents(t)
        trees.append((rel, t))
    g = _global_fixpoint(trees)
    iter_sites, sort_sites, docs = [], [], []
    for rel, tree in trees:
        scans = {}
        for q, fn, encl in _functions(tree):
            outer = scans.get(id(encl))
            sc = FuncScan(g, fn, outer.env if outer else None, outer.dos if outer else None)
            scans[id(fn)] = sc
            nested = {n for n in ast.walk(fn) if isinstance(n, (ast.FunctionDef, ast.AsyncFunctionDef, ast.ClassDef))
                      and n is not fn}
            found_i, found_s = [], []
            for e in _maximal_unordered(fn, sc, nested):
                what, info = _consumer(e, sc)
                if what == 'site':
                    found_i.append((e.lineno, e.col_offset, info, e))
                elif what == 'sorted':
                    found_s.append((e.lineno, e.col_offset, info, e))
            for k, (_l, _c, kind, e) in enumerate(sorted(found_i, key=lambda r: r[:3])):
                iter_sites.append((rel, q, k, kind))
                docs.append('%s:%s#%d %s: %s' % (rel, q, k, kind, _src(e)))
            for k, (_l, _c, key, e) in enumerate(sorted(found_s, key=lambda r: r[:3])):
                key = _named_key(tree, key)
                sort_sites.append((rel, q, k, key))
                docs.append('%s:%s#%d sorted[%s]: %s' % (rel, q, k, key, _src(e)))
    state = []
    for rel, tree in trees:
        for node in ast.walk(tree):
            if isinstance(node, ast.ClassDef):
                for st in node.body:
                    tgt = val = None
                    if isinstance(st, ast.Assign) and len(st.targets) == 1 and isinstance(st.targets[0], ast.Name):
                        tgt, val = st.targets[0].id, st.value
                    elif isinstance(st, ast.AnnAssign) and isinstance(st.target, ast.Name) and st.value is not None:
                        tgt, val = st.target.id, st.value
                    if tgt is None or tgt.startswith('__'):
                        continue
                    mutable = isinstance(val, (ast.Dict, ast.List, ast.Set, ast.DictComp, ast.ListComp, ast.SetComp)) \
                        or (isinstance(val, ast.Call) and _callee(val) in (
                            'dict', 'list', 'set', 'OrderedDict', 'defaultdict', 'deque', 'Counter')) \
                        or (isinstance(val, ast.Call) and isinstance(val.func, ast.Name)
                            and val.func.id[:1].isupper() and val.func.id not in IMMUTABLE_CTORS)
                    # a literal table that is only read is still reported when non-empty? -> only EMPTY containers
                    # (filled at run time) are state; filled literals are constants
                    if mutable and isinstance(val, (ast.Dict, ast.List, ast.Set)) and \
                            (getattr(val, 'keys', None) or getattr(val, 'elts', None)):
                        mutable = False
                    if mutable:
                        state.append((rel, node.name, tgt))
    return dict(iter=sorted(iter_sites), sort=sorted(sort_sites), docs=sorted(docs), state=sorted(state),
                funcs=sorted(g.set_funcs), attrs=sorted(g.set_attrs))


def _recv_name(e):
    if isinstance(e, ast.Name):
        return e.id
    if isinstance(e, ast.Attribute):
        return e.attr
    return None


def _identity_key_only(call):
    """`id(x)` whose value is only a membership key: `id(x) in visited`, `visited.add(id(x))` (cycle detection by
    object identity). The number never reaches an order or the output."""
    p = getattr(call, '_parent', None)
    if isinstance(p, ast.Compare) and all(isinstance(op, (ast.In, ast.NotIn, ast.Eq, ast.NotEq)) for op in p.ops):
        return True
    if isinstance(p, ast.Call) and isinstance(p.func, ast.Attribute) and p.func.attr in ('add', 'discard', 'remove') \
            and call in p.args:
        return True
    return False


def _fs_read(call):
    """(call, detail) when the call reads the state of the file system, else None.
    `open(path[, mode])`: mode absent -> ('open', 'r'); a literal mode that reads or updates ('r', '+') or may find
    the file there ('a', 'x') -> ('open', mode); a literal 'w'/'wb' (create or truncate: what was there is gone) is not
    a read; a mode that is not a literal -> ('open', '<mode: source text>'), to be accounted for by hand."""
    name = _callee(call)
    if name == 'open' and (isinstance(call.func, ast.Name) or _recv_name(call.func.value) in ('io', 'codecs')):
        mode = call.args[1] if len(call.args) > 1 else next((k.value for k in call.keywords if k.arg == 'mode'), None)
        if mode is None:
            return ('open', 'r')
        if isinstance(mode, ast.Constant) and isinstance(mode.value, str):
            m = mode.value
            return None if (m.startswith('w') and '+' not in m) else ('open', m)
        return ('open', '<mode: %s>' % _src(mode, 40))
    if isinstance(call.func, ast.Attribute):
        mod = _recv_name(call.func.value)
        if (mod, name) in FS_STATE or (mod, '*') in FS_STATE or ('*', name) in FS_STATE:
            return ('%s.%s' % (mod, name), _src(call.args[0], 50) if call.args else '')
    return None


def _clear_position(fn, call):
    """Where in the function the `clear()` sits: 'first-call' when it is a statement of the function body itself and
    no earlier statement of the body contains any call (so nothing that could register an import, or fail, runs
    before it); otherwise 'after-<n>-calls' / 'nested'."""
    for i, st in enumerate(fn.body):
        if isinstance(st, ast.Expr) and st.value is call:
            before = sum(1 for prev in fn.body[:i] for x in ast.walk(prev) if isinstance(x, ast.Call))
            return 'first-call' if before == 0 else 'after-%d-calls' % before
    return 'nested'


def scan_extra(repo):
    """Tables besides the iteration sites:
    * adhoc: literal arguments of `_register_adhoc_import(..)` (python_type_stubs)
    * byname: iteration over the by-name lookup dicts of ApiNamespace (their insertion order may follow a set)
      -- `_imported_namespaces.items()` inside `get_imported_namespaces` (which sorts) is the one expected entry
    * ambient: calls whose result depends on the process / machine / clock (os.listdir, time, random, id, hash, ..)
      outside `__hash__`; `id(x)` used purely as a membership key (`id(x) in seen`, `seen.add(id(x))`) is not one
    * clears: functions that call `<..>.import_tracker.clear()`, with the position of the call (`_clear_position`)
    * fsreads: calls that look at what the file system holds (`_fs_read`): existence / size / time tests and every
      `open` that is not a plain create-or-truncate
    * modes: every explicit `mode` handed to `output_to_relative_path` and the default of its parameter"""
    adhoc, byname, ambient, clears, fsreads, modes = set(), [], [], [], [], []
    for rel in scanned_files(repo):
        tree = _parse(repo, rel)
        _set_parents(tree)
        for q, fn, _encl in _functions(tree):
            if fn.name == 'output_to_relative_path':
                names = [a.arg for a in fn.args.args]
                if 'mode' in names:
                    i = names.index('mode') - (len(names) - len(fn.args.defaults))
                    d = fn.args.defaults[i] if i >= 0 else None
                    modes.append((rel, q, '<default>', d.value if isinstance(d, ast.Constant) and isinstance(
                        d.value, str) else '<no literal default>'))
            nested = {n for n in ast.walk(fn) if isinstance(n, (ast.FunctionDef, ast.AsyncFunctionDef)) and n is not fn}
            skip = set()
            for nf in nested:
                skip.update(id(x) for x in ast.walk(nf))
            for n in ast.walk(fn):
                if id(n) in skip:
                    continue
                if isinstance(n, ast.Call):
                    name = _callee(n)
                    if name == '_register_adhoc_import':
                        for a in n.args:
                            adhoc.add(a.value if isinstance(a, ast.Constant) and isinstance(a.value, str)
                                      else '<non-literal:%s>' % _src(a, 40))
                    if name == 'clear' and isinstance(n.func, ast.Attribute) \
                            and _recv_name(n.func.value) == 'import_tracker':
                        clears.append((rel, q, _clear_position(fn, n)))
                    if name == 'output_to_relative_path':
                        # the mode the file is opened with, when one is given (the default is recorded below)
                        mode = n.args[1] if len(n.args) > 1 else next((k.value for k in n.keywords if k.arg == 'mode'), None)
                        if mode is not None:
                            modes.append((rel, q, _src(n.args[0], 50) if n.args else '', mode.value if isinstance(
                                mode, ast.Constant) and isinstance(mode.value, str) else '<not a literal: %s>' % _src(mode, 40)))
                    fr = _fs_read(n)
                    if fr is not None:
                        fsreads.append((rel, q, fr[0], fr[1]))
                    if isinstance(n.func, ast.Attribute):
                        mod = _recv_name(n.func.value)
                        if (mod, name) in AMBIENT or (mod, '*') in AMBIENT or ('*', name) in AMBIENT:
                            ambient.append((rel, q, '%s.%s' % (mod, name)))
                    elif isinstance(n.func, ast.Name) and name in AMBIENT_BUILTINS and fn.name != '__hash__':
                        if not (name == 'id' and _identity_key_only(n)):
                            ambient.append((rel, q, name))
                # iteration over a by-name dict: for / comprehension / .items() .values() .keys() / list() sorted()
                it = None
                if isinstance(n, (ast.For, ast.comprehension)):
                    it = n.iter
                elif isinstance(n, ast.Call) and _callee(n) in ('list', 'tuple', 'sorted', 'enumerate') and n.args:
                    it = n.args[0]
                if it is not None:
                    base = it
                    if isinstance(base, ast.Call) and isinstance(base.func, ast.Attribute) \
                            and base.func.attr in ('items', 'values', 'keys'):
                        base = base.func.value
                    if isinstance(base, ast.Attribute) and base.attr in BY_NAME_DICTS:
                        byname.append((rel, q, base.attr))
    return dict(adhoc=sorted(adhoc), byname=sorted(set(byname)), ambient=sorted(set(ambient)),
                clears=sorted(set(clears)), fsreads=sorted(set(fsreads)), modes=sorted(set(modes)))


_WRITE_METHODS = {'add', 'append', 'extend', 'insert', 'update', 'setdefault', 'pop', 'popitem', 'remove', 'discard',
                  'clear', 'sort', 'reverse', 'register', 'register_import'}
_ITER_METHODS = {'items', 'keys', 'values', 'copy'}


def scan_state_uses(repo, state):
    """How every class-level container of `state` [(file, class, attr)] is used, wherever `<expr>.<attr>` occurs in the
    scanned files outside the class-body assignment that creates it: (file, function, attr, use, detail) with use
    (before the colon) / detail (after it) one of
    `get` (`.get(..)`), `index` (`x[..]` read), `in` (membership test), `write:<how>` (subscript store / del /
    augmented assignment / rebinding / a mutating method), `iterate:<how>` (for / comprehension / `.items()` .. /
    passed to list() sorted() ..), `other:<source>`."""
    names = {a for _f, _c, a in state}
    uses = []
    for rel in scanned_files(repo):
        tree = _parse(repo, rel)
        _set_parents(tree)
        for q, fn, _encl in _functions(tree):
            for n in ast.walk(fn):
                if not (isinstance(n, ast.Attribute) and n.attr in names):
                    continue
                par = getattr(n, '_parent', None)
                use = None
                if isinstance(n.ctx, (ast.Store, ast.Del)):
                    use = 'write:rebind'
                elif isinstance(par, ast.Attribute) and isinstance(getattr(par, '_parent', None), ast.Call) \
                        and par._parent.func is par:
                    m = par.attr
                    use = 'get' if m == 'get' else 'write:' + m if m in _WRITE_METHODS else \
                        'iterate:' + m if m in _ITER_METHODS else 'other:.%s(..)' % m
                elif isinstance(par, ast.Subscript) and par.value is n:
                    use = 'index' if isinstance(par.ctx, ast.Load) else 'write:subscript'
                elif isinstance(par, ast.AugAssign) and par.target is n:
                    use = 'write:augmented'
                elif isinstance(par, ast.Compare) and n in par.comparators \
                        and all(isinstance(o, (ast.In, ast.NotIn)) for o in par.ops):
                    use = 'in'
                elif isinstance(par, (ast.For, ast.comprehension)) and par.iter is n:
                    use = 'iterate:for'
                elif isinstance(par, ast.Call) and n in par.args and _callee(par) in (
                        'list', 'tuple', 'sorted', 'set', 'dict', 'enumerate', 'iter', 'len', 'frozenset'):
                    use = 'iterate:%s()' % _callee(par) if _callee(par) != 'len' else 'other:len()'
                else:
                    use = 'other:' + _src(par if par is not None else n, 50)
                cat, _, detail = use.partition(':')
                uses.append((rel, q, n.attr, cat, detail))
    return sorted(set(uses))


def _row4(r):
    return '(%s, %s, %d, %s)' % (lean_str(r[0]), lean_str(r[1]), r[2], lean_str(r[3]))


@extractor
def set_iteration_sites(repo):
    r = scan(repo)
    return '\n'.join([
        'def setIterSites : List (String × String × Nat × String) := %s' % lean_list(_row4(x) for x in r['iter']),
        'def setSortSites : List (String × String × Nat × String) := %s' % lean_list(_row4(x) for x in r['sort']),
        'def setIterSiteSrc : List String := %s' % lean_list(lean_str(x) for x in r['docs']),
        'def classMutableState : List (String × String × String) := %s' % lean_list(
            '(%s, %s, %s)' % tuple(lean_str(y) for y in x) for x in r['state']),
        'def classStateUses : List (String × String × String × String × String) := %s' % lean_list(
            _rowN(x) for x in scan_state_uses(repo, r['state'])),
        'def setReturningFuncs : List String := %s' % lean_list(lean_str(x) for x in r['funcs']),
        'def setTypedAttrs : List String := %s' % lean_list(lean_str(x) for x in r['attrs']),
    ])


def _rowN(x):
    return '(%s)' % ', '.join(lean_str(y) for y in x)


@extractor
def determinism_side_tables(repo):
    x = scan_extra(repo)
    return '\n'.join([
        'def adhocImportLiterals : List String := %s' % lean_list(lean_str(a) for a in x['adhoc']),
        'def byNameDictIterations : List (String × String × String) := %s' % lean_list(_rowN(a) for a in x['byname']),
        'def ambientSources : List (String × String × String) := %s' % lean_list(_rowN(a) for a in x['ambient']),
        'def importTrackerClearSites : List (String × String × String) := %s' % lean_list(_rowN(a) for a in x['clears']),
        'def fileSystemReads : List (String × String × String × String) := %s' % lean_list(
            _rowN(a) for a in x['fsreads']),
        'def outputFileModes : List (String × String × String × String) := %s' % lean_list(
            _rowN(a) for a in x['modes']),
    ])


if __name__ == '__main__':
    import sys
    res = scan(sys.argv[1] if len(sys.argv) > 1 else '/repo')
    for d in res['docs']:
        print(d)
    print('state', res['state'])
    print('funcs', res['funcs'])
    print('attrs', res['attrs'])
    print(scan_extra(sys.argv[1] if len(sys.argv) > 1 else '/repo'))
