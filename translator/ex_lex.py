"""Tables extracted from stone/frontend/lexer.py, stone/frontend/parser.py and the stdin branch of stone/cli.py (C11).

What the line-level lexer model (Model/Lex.lean), its `norm` (the parser's view of NEWLINE runs) and the stdin
splitter model (Model/Stdin.lean) were written from, as plain Lean data pinned by `rfl` / `decide` in Props/C11.lean:
an edit of the indentation unit, of a newline / comment regex, of the lexer states, of the continuation rule, of the
grammar's NEWLINE productions or of the stdin split literal changes `StoneVerif.Tables.*` and breaks the build.
"""
import ast
from extract_tables import extractor, parse, lean_str, lean_list


def _class(tree, name):
    for node in tree.body:
        if isinstance(node, ast.ClassDef) and node.name == name:
            return node
    raise KeyError(name)


def _func(body, name):
    for node in body:
        if isinstance(node, ast.FunctionDef) and node.name == name:
            return node
    return None


def _pairs(name, pairs):
    return 'def %s : List (String × String) := %s' % (
        name, lean_list('(%s, %s)' % (lean_str(a), lean_str(b)) for a, b in pairs))


def _int_operands(fn, optype):
    """integer literals used as the right operand of `optype` inside fn, in source order"""
    out = []
    if fn is None:
        return out
    for node in ast.walk(fn):
        if isinstance(node, ast.BinOp) and isinstance(node.op, optype) and isinstance(node.right, ast.Constant) \
                and isinstance(node.right.value, int):
            out.append((node.lineno, node.col_offset, node.right.value))
    return [v for _l, _c, v in sorted(out)]


@extractor
def lexer_layout_tables(repo):
    tree = parse(repo, 'stone/frontend/lexer.py')
    cls = _class(tree, 'Lexer')
    states = []
    ignore = ''
    rules = []
    for node in cls.body:
        if isinstance(node, ast.Assign) and isinstance(node.targets[0], ast.Name):
            nm = node.targets[0].id
            if nm == 'states' and isinstance(node.value, ast.Tuple):
                for row in node.value.elts:
                    if isinstance(row, ast.Tuple):
                        states.append(tuple(e.value for e in row.elts if isinstance(e, ast.Constant)))
            elif nm == 't_ignore' and isinstance(node.value, ast.Constant):
                ignore = node.value.value
        elif isinstance(node, ast.FunctionDef) and node.name in (
                't_LPAR', 't_RPAR', 't_ANY_STRING', 't_INITIAL_comment', 't_WSIGNORE_comment', 't_INITIAL_NEWLINE',
                't_WSIGNORE_NEWLINE'):
            rules.append((node.name, ast.get_docstring(node, clean=False) or ''))
    delta = _func(cls.body, '_get_next_line_indent_delta')
    unit = _int_operands(delta, ast.Mod) + _int_operands(delta, ast.FloorDiv)
    for node in tree.body:
        if isinstance(node, ast.FunctionDef) and node.name == '_indent_level_to_spaces_count':
            unit += _int_operands(node, ast.Mult)
    # `_check_for_indent`: the integer literals the delta is compared with
    cont = []
    chk = _func(cls.body, '_check_for_indent')
    if chk is not None:
        for node in ast.walk(chk):
            if isinstance(node, ast.Compare) and isinstance(node.left, ast.Name) and node.left.id == 'indent_delta':
                for c in node.comparators:
                    if isinstance(c, ast.Constant) and isinstance(c.value, int):
                        cont.append(c.value)
    # what the end-of-input branch of `token` compares last_token.type with
    tok = _func(cls.body, 'token')
    last = []
    if tok is not None:
        for node in ast.walk(tok):
            if isinstance(node, ast.Compare) and len(node.ops) == 1 and isinstance(node.ops[0], ast.NotIn) \
                    and isinstance(node.comparators[0], ast.Tuple):
                last.extend(e.value for e in node.comparators[0].elts if isinstance(e, ast.Constant))
    return '\n'.join([
        _pairs('lexStates', [s for s in states if len(s) == 2]),
        'def lexIgnore : String := %s' % lean_str(ignore),
        _pairs('lexLayoutRules', rules),
        'def lexIndentLiterals : List Nat := %s' % lean_list(str(v) for v in unit),
        'def lexContinuationDeltas : List Nat := %s' % lean_list(str(v) for v in cont),
        'def lexFlushLastTokenTypes : List String := %s' % lean_list(lean_str(v) for v in last),
    ])


@extractor
def parser_newline_productions(repo):
    """every production of the Stone grammar (docstrings of the p_* methods) that mentions the terminal NEWLINE,
    and the `spec` productions that mention NL, as "lhs : rhs" with whitespace normalised"""
    cls = _class(parse(repo, 'stone/frontend/parser.py'), 'ParserFactory')
    newline, spec_nl = [], []
    for node in cls.body:
        if isinstance(node, ast.FunctionDef) and node.name.startswith('p_') and node.name != 'p_error':
            doc = ' '.join((ast.get_docstring(node, clean=False) or '').split())
            if ':' not in doc:
                continue
            lhs, rhs = doc.split(':', 1)
            for alt in rhs.split('|'):
                prod = '%s : %s' % (lhs.strip(), ' '.join(alt.split()))
                if 'NEWLINE' in alt.split():
                    newline.append(prod)
                if lhs.strip() == 'spec' and 'NL' in alt.split():
                    spec_nl.append(prod)
    return '\n'.join([
        'def parserNewlineProductions : List String := %s' % lean_list(lean_str(p) for p in newline),
        'def parserSpecNLProductions : List String := %s' % lean_list(lean_str(p) for p in spec_nl),
    ])


@extractor
def cli_stdin_split(repo):
    """string literals of the stdin branch of `main`: the argument of `.split(..)` and the literals the spec names and
    texts are built from, in source order"""
    tree = parse(repo, 'stone/cli.py')
    seps, lits = [], []
    for fn in ast.walk(tree):
        if isinstance(fn, ast.FunctionDef) and fn.name == 'main':
            for node in ast.walk(fn):
                if isinstance(node, ast.Assign) and isinstance(node.targets[0], ast.Name) \
                        and node.targets[0].id == 'parts' and isinstance(node.value, ast.Call) \
                        and isinstance(node.value.func, ast.Attribute) and node.value.func.attr == 'split':
                    seps.extend(a.value for a in node.value.args if isinstance(a, ast.Constant))
                    lo = node.lineno
                    # the statements of the same block after the split
                    for other in ast.walk(fn):
                        if isinstance(other, ast.Constant) and isinstance(other.value, str) \
                                and lo < other.lineno <= lo + 10:
                            lits.append((other.lineno, other.col_offset, other.value))
    return '\n'.join([
        'def stdinSplitSeparators : List String := %s' % lean_list(lean_str(s) for s in seps),
        'def stdinSplitLiterals : List String := %s' % lean_list(lean_str(v) for _l, _c, v in sorted(lits)),
    ])


@extractor
def parser_docstring_rule(repo):
    """the rule `docstring : STRING` of the grammar (`p_docstring_string`): its production and its statements, unparsed
    (the per-line `rstrip` that Model/DocTrim.lean follows)"""
    cls = _class(parse(repo, 'stone/frontend/parser.py'), 'ParserFactory')
    fn = _func(cls.body, 'p_docstring_string')
    prod, stmts = '', []
    if fn is not None:
        prod = ' '.join((ast.get_docstring(fn, clean=False) or '').split())
        body = fn.body[1:] if ast.get_docstring(fn, clean=False) is not None else fn.body
        stmts = [ast.unparse(st) for st in body]
    return '\n'.join([
        'def parserDocstringProduction : String := %s' % lean_str(prod),
        'def parserDocstringStatements : List String := %s' % lean_list(lean_str(s) for s in stmts),
    ])
