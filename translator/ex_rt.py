"""Tables extracted from stone/backends/python_rsrc/stone_validators.py and stone/ir/data_types.py (C08, C10)."""
import ast
import struct

from extract_tables import extractor, parse, lean_str, lean_int, lean_list


def _const_eval(node):
    """Evaluate the literal arithmetic used for bounds (`-2**31`, `2**64 - 1`, `3.40282 * 10**38`)."""
    if isinstance(node, ast.Constant):
        return node.value
    if isinstance(node, ast.UnaryOp) and isinstance(node.op, ast.USub):
        return -_const_eval(node.operand)
    if isinstance(node, ast.BinOp):
        a, b = _const_eval(node.left), _const_eval(node.right)
        if isinstance(node.op, ast.Pow):
            return a ** b
        if isinstance(node.op, ast.Mult):
            return a * b
        if isinstance(node.op, ast.Sub):
            return a - b
        if isinstance(node.op, ast.Add):
            return a + b
    raise ValueError('unsupported bound expression: %s' % ast.dump(node))


def _class_bounds(tree, min_name, max_name):
    out = {}
    for node in tree.body:
        if isinstance(node, ast.ClassDef):
            vals = {}
            for st in node.body:
                if isinstance(st, ast.Assign) and len(st.targets) == 1 and isinstance(st.targets[0], ast.Name):
                    if st.targets[0].id in (min_name, max_name):
                        try:
                            vals[st.targets[0].id] = _const_eval(st.value)
                        except ValueError:
                            vals[st.targets[0].id] = None
            bases = [b.id for b in node.bases if isinstance(b, ast.Name)]
            out[node.name] = (bases, vals)
    return out


def _resolve(cls, table, name):
    seen = set()
    while cls in table and cls not in seen:
        seen.add(cls)
        bases, vals = table[cls]
        if name in vals:
            return vals[name]
        if not bases:
            return None
        cls = bases[0]
    return None


def fbits(x):
    return struct.unpack('<Q', struct.pack('<d', float(x)))[0]


def _opt_bits(x):
    return 'none' if x is None else '(some %d)' % fbits(x)


INT_CLASSES = ['Int32', 'UInt32', 'Int64', 'UInt64']
FLOAT_CLASSES = ['Float32', 'Float64']


@extractor
def rt_numeric_bounds(repo):
    """default_minimum / default_maximum of the runtime validator classes."""
    table = _class_bounds(parse(repo, 'stone/backends/python_rsrc/stone_validators.py'),
                          'default_minimum', 'default_maximum')
    ints = []
    for c in INT_CLASSES:
        lo, hi = _resolve(c, table, 'default_minimum'), _resolve(c, table, 'default_maximum')
        if lo is None or hi is None:
            continue
        ints.append('(%s, (%s, %s))' % (lean_str(c), lean_int(lo), lean_int(hi)))
    flts = []
    for c in FLOAT_CLASSES:
        if c not in table:
            continue
        lo, hi = _resolve(c, table, 'default_minimum'), _resolve(c, table, 'default_maximum')
        flts.append('(%s, (%s, %s))' % (lean_str(c), _opt_bits(lo), _opt_bits(hi)))
    return ('def rtIntBounds : List (String × (Int × Int)) := %s\n'
            'def rtFloatBounds : List (String × (Option Nat × Option Nat)) := %s' % (lean_list(ints), lean_list(flts)))


@extractor
def ir_numeric_bounds(repo):
    """minimum / maximum of the compile-time (IR) numeric types."""
    table = _class_bounds(parse(repo, 'stone/ir/data_types.py'), 'minimum', 'maximum')
    ints = []
    for c in INT_CLASSES:
        lo, hi = _resolve(c, table, 'minimum'), _resolve(c, table, 'maximum')
        if lo is None or hi is None:
            continue
        ints.append('(%s, (%s, %s))' % (lean_str(c), lean_int(lo), lean_int(hi)))
    flts = []
    for c in FLOAT_CLASSES:
        if c not in table:
            continue
        lo, hi = _resolve(c, table, 'minimum'), _resolve(c, table, 'maximum')
        flts.append('(%s, (%s, %s))' % (lean_str(c), _opt_bits(lo), _opt_bits(hi)))
    return ('def irIntBounds : List (String × (Int × Int)) := %s\n'
            'def irFloatBounds : List (String × (Option Nat × Option Nat)) := %s' % (lean_list(ints), lean_list(flts)))
