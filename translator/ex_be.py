"""Tables extracted from stone/backend.py (C18)."""
import ast
from extract_tables import extractor, parse, lean_str, lean_list, lean_int

@extractor
def backend_escape_pairs(repo):
    """The `.replace(a, b)` chain applied by Backend.emit_raw before appending to the buffer."""
    tree = parse(repo, 'stone/backend.py')
    pairs = []
    for node in ast.walk(tree):
        if isinstance(node, ast.FunctionDef) and node.name == 'emit_raw':
            for call in ast.walk(node):
                if (isinstance(call, ast.Call) and isinstance(call.func, ast.Attribute)
                        and call.func.attr == 'replace' and len(call.args) == 2
                        and all(isinstance(a, ast.Constant) and isinstance(a.value, str) for a in call.args)):
                    pairs.append((call.args[0].value, call.args[1].value))
    pairs.reverse()  # ast.walk meets the outermost call first; application order is innermost first
    return 'def emitRawReplacements : List (String × String) := %s' % lean_list(
        '(%s, %s)' % (lean_str(a), lean_str(b)) for a, b in pairs)


def _func(tree, name, cls=None):
    for node in ast.walk(tree):
        if isinstance(node, ast.ClassDef) and cls is not None and node.name != cls:
            continue
        if isinstance(node, ast.FunctionDef) and node.name == name:
            return node
    raise KeyError(name)


def _expr_src(node):
    return ast.unparse(node).replace(' ', '')


@extractor
def backend_containment_tests(repo):
    """The disjuncts of the `if` that guards the AssertionError of `_relative_output_path`, as source text
    (os.pardir / os.sep spelled out), and the expression the function returns."""
    fn = _func(parse(repo, 'stone/backend.py'), '_relative_output_path')
    tests = []
    for node in fn.body:
        if isinstance(node, ast.If) and any(isinstance(x, ast.Raise) for x in node.body):
            t = node.test
            parts = t.values if isinstance(t, ast.BoolOp) and isinstance(t.op, ast.Or) else [t]
            if isinstance(t, ast.BoolOp) and not isinstance(t.op, ast.Or):
                parts = ['<not-a-disjunction>:' + _expr_src(t)]
            tests = [p if isinstance(p, str) else _expr_src(p) for p in parts]
    ret = [_expr_src(n.value) for n in fn.body if isinstance(n, ast.Return)]
    return ('def relativeOutputPathTests : List String := %s\n'
            'def relativeOutputPathReturn : List String := %s' % (
                lean_list(lean_str(t) for t in tests), lean_list(lean_str(r) for r in ret)))


EFFECT_CALLS = ('_validate_output_path', '_record_output_path', 'makedirs', 'mkdir', 'open', 'copy', 'copyfile',
                'copy2', 'write')


def _call_order(fn):
    """Names of the file-system relevant calls of a function in source order (line, column)."""
    calls = []
    for node in ast.walk(fn):
        if isinstance(node, ast.Call):
            f = node.func
            name = f.attr if isinstance(f, ast.Attribute) else (f.id if isinstance(f, ast.Name) else None)
            if name in EFFECT_CALLS:
                calls.append((node.lineno, node.col_offset, name))
    return [c[2] for c in sorted(calls)]


@extractor
def backend_effect_order(repo):
    """Order of validation / recording / file-system calls in the three writers."""
    be = parse(repo, 'stone/backend.py')
    sw = parse(repo, 'stone/backends/swift.py')
    rows = [('outputToRelativePathCalls', _call_order(_func(be, 'output_to_relative_path'))),
            ('copyToPathCalls', _call_order(_func(be, 'copy_to_path'))),
            ('swiftWriteCalls', _call_order(_func(sw, '_write_output_in_target_folder')))]
    return '\n'.join('def %s : List String := %s' % (n, lean_list(lean_str(c) for c in cs)) for n, cs in rows)


@extractor
def backend_emit_constants(repo):
    """indent_step() values, the default width of emit_wrapped_text, the default delimiters of block /
    generate_multiline_list."""
    be = parse(repo, 'stone/backend.py')
    step = _func(be, 'indent_step')
    vals = None
    for node in ast.walk(step):
        if isinstance(node, ast.IfExp) and isinstance(node.body, ast.Constant) and isinstance(node.orelse, ast.Constant):
            vals = (node.body.value, node.orelse.value, _expr_src(node.test))
    if vals is None:
        vals = (-1, -1, '?')
    ewt = _func(be, 'emit_wrapped_text')
    names = [a.arg for a in ewt.args.args]
    defaults = dict(zip(names[len(names) - len(ewt.args.defaults):], ewt.args.defaults))
    width = defaults['width'].value if isinstance(defaults.get('width'), ast.Constant) else -1
    blw = defaults['break_long_words'].value if isinstance(defaults.get('break_long_words'), ast.Constant) else None
    boh = defaults['break_on_hyphens'].value if isinstance(defaults.get('break_on_hyphens'), ast.Constant) else None

    def delim_default(fname):
        fn = _func(be, fname)
        ns = [a.arg for a in fn.args.args]
        ds = dict(zip(ns[len(ns) - len(fn.args.defaults):], fn.args.defaults))
        d = ds.get('delim')
        if isinstance(d, ast.Tuple) and all(isinstance(e, ast.Constant) for e in d.elts):
            return [e.value for e in d.elts]
        return []
    return '\n'.join([
        'def indentStepTabs : Nat := %s' % lean_int(vals[0]),
        'def indentStepSpaces : Nat := %s' % lean_int(vals[1]),
        'def indentStepTest : String := %s' % lean_str(vals[2]),
        'def wrapDefaultWidth : Nat := %s' % lean_int(width),
        'def wrapDefaultBreakLongWords : Bool := %s' % ('true' if blw else 'false'),
        'def wrapDefaultBreakOnHyphens : Bool := %s' % ('true' if boh else 'false'),
        'def blockDefaultDelim : List String := %s' % lean_list(lean_str(x) for x in delim_default('block')),
        'def multilineListDefaultDelim : List String := %s' % lean_list(
            lean_str(x) for x in delim_default('generate_multiline_list')),
    ])
