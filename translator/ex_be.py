"""Tables extracted from stone/backend.py (C18)."""
import ast
from extract_tables import extractor, parse, lean_str, lean_list

@extractor
def backend_escape_pairs(repo):
    """The `.replace(a, b)` chain applied by Backend.emit_raw before appending to the buffer."""
    tree = parse(repo, 'stone/backend.py')
    pairs = []
    for node in ast.walk(tree):
        if isinstance(node, ast.FunctionDef) and node.name == 'emit_raw':
            for call in ast.walk(node):
                if (isinstance(call, ast.Call) and isinstance(call.func, ast.Attribute)
                        and call.func.attr == 'replace' and len(call.args) == 2
                        and all(isinstance(a, ast.Constant) and isinstance(a.value, str) for a in call.args)):
                    pairs.append((call.args[0].value, call.args[1].value))
    pairs.reverse()  # ast.walk meets the outermost call first; application order is innermost first
    return 'def emitRawReplacements : List (String × String) := %s' % lean_list(
        '(%s, %s)' % (lean_str(a), lean_str(b)) for a, b in pairs)
