"""Tables extracted for the declaration-level model of the python_types generator (C09).

* `_reserved_keywords` of stone/backends/python_helpers.py (sorted) -> `pyReservedKeywords` (used by the compiled
  model: `fmt_namespace`, `fmt_var(…, True)`, …),
* the two regular expressions of stone/backends/helpers.py the word splitter was written from,
* the order in which `PythonTypesBackend._generate_base_namespace_module` calls the `_generate_*` methods
  (first occurrence of each, in source order = emission order) -> `pyTypesModuleCalls`, pinned against the model's
  `sectionOrder` by `rfl` in Props/C09.lean: moving a section in the generator breaks the build,
* which spelling of the name the alias definition and the enumerated-subtypes mapping use (`alias.name`,
  `data_type.name` as they are) -> `pyTypesRawNameSites`.
"""
import ast
from extract_tables import extractor, parse, lean_str, lean_list


def _strs(name, items):
    return 'def %s : List String := %s' % (name, lean_list(lean_str(s) for s in items))


def _method(tree, cls, name):
    for node in tree.body:
        if isinstance(node, ast.ClassDef) and node.name == cls:
            for m in node.body:
                if isinstance(m, ast.FunctionDef) and m.name == name:
                    return m
    raise KeyError(name)


@extractor
def py_reserved_keywords(repo):
    tree = parse(repo, 'stone/backends/python_helpers.py')
    words = []
    for node in tree.body:
        if isinstance(node, ast.Assign) and isinstance(node.targets[0], ast.Name) and \
                node.targets[0].id == '_reserved_keywords' and isinstance(node.value, ast.Set):
            words = sorted(e.value for e in node.value.elts if isinstance(e, ast.Constant))
    return _strs('pyReservedKeywords', words)


@extractor
def py_split_words_res(repo):
    tree = parse(repo, 'stone/backends/helpers.py')
    found = {}
    for node in tree.body:
        if isinstance(node, ast.Assign) and isinstance(node.targets[0], ast.Name) and \
                isinstance(node.value, ast.Call) and node.value.args:
            pieces = [n.value for n in ast.walk(node.value.args[0]) if isinstance(n, ast.Constant)]
            found[node.targets[0].id] = ''.join(p for p in pieces if isinstance(p, str))
    return '\n'.join([
        'def pyTypesSplitWordsCapRe : String := %s' % lean_str(found.get('_split_words_capitalization_re', '')),
        'def pyTypesSplitWordsDashRe : String := %s' % lean_str(found.get('_split_words_dashes_re', '')),
    ])


@extractor
def py_types_module_calls(repo):
    tree = parse(repo, 'stone/backends/python_types.py')
    fn = _method(tree, 'PythonTypesBackend', '_generate_base_namespace_module')
    calls = []
    for n in ast.walk(fn):
        if isinstance(n, ast.Call) and isinstance(n.func, ast.Attribute) and isinstance(n.func.value, ast.Name) \
                and n.func.value.id == 'self' and n.func.attr.startswith('_generate_'):
            calls.append((n.lineno, n.col_offset, n.func.attr))
    seen = []
    for _l, _c, name in sorted(calls):
        if name not in seen:
            seen.append(name)
    # what the alias definition and the subtype mapping format their target with
    raw = []
    al = _method(tree, 'PythonTypesBackend', '_generate_alias_definition')
    for n in ast.walk(al):
        if isinstance(n, ast.Assign) and isinstance(n.targets[0], ast.Name) and n.targets[0].id == 'validator_name':
            raw.append('alias_validator:' + ast.unparse(n.value))
    sub = _method(tree, 'PythonTypesBackend', '_generate_enumerated_subtypes_tag_mapping')
    for n in ast.walk(sub):
        if isinstance(n, ast.keyword) and n.arg == 'before':
            raw.append('subtype_map:' + ast.unparse(n.value))
    return '\n'.join([_strs('pyTypesModuleCalls', seen), _strs('pyTypesRawNameSites', raw)])
