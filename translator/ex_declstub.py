"""Tables extracted for the declaration-level model of the PEP 484 stub generator (C15).

Copied as plain Lean data, so that an edit of the literal in the repository under test changes
`StoneVerif.Tables.stub*` and breaks the `rfl` pins of Props/C15.lean (and, for the reserved words, changes the
behaviour of the compiled model):

* `_reserved_keywords` of stone/backends/python_helpers.py,
* the (type test, literal result) pairs of `map_stone_type_to_python_type` in branch order, the tests of the
  branches that recurse or consult `override_dict`,
* the keys of `callback_dict` in `PythonTypeStubsBackend._get_pep_484_type_mapping_callbacks`, the format
  string each callback returns and the import each callback registers,
* the typing names registered by `_generate_typevars` / `_generate_struct_or_union_class_custom_annotations`,
  and the annotations written by `_generate_validator_for`, `_generate_routes`, `_generate_struct_class_properties`.
"""
import ast
from extract_tables import extractor, parse, lean_str, lean_list


def _func(tree, name):
    for node in ast.walk(tree):
        if isinstance(node, ast.FunctionDef) and node.name == name:
            return node
    raise KeyError(name)


def _pairs(name, pairs):
    return 'def %s : List (String × String) := %s' % (
        name, lean_list('(%s, %s)' % (lean_str(a), lean_str(b)) for a, b in pairs))


def _strs(name, items):
    return 'def %s : List String := %s' % (name, lean_list(lean_str(s) for s in items))


def _test_name(test):
    if isinstance(test, ast.Call) and isinstance(test.func, ast.Name):
        return test.func.id
    return ast.unparse(test)


def _str_consts(node):
    return [n.value for n in ast.walk(node) if isinstance(n, ast.Constant) and isinstance(n.value, str)]


def _registered(node):
    """arguments of import_tracker._register_typing_import / _register_adhoc_import calls below `node`"""
    out = []
    for n in ast.walk(node):
        if isinstance(n, ast.Call) and isinstance(n.func, ast.Attribute) and n.func.attr in (
                '_register_typing_import', '_register_adhoc_import') and n.args:
            kind = 'typing' if n.func.attr == '_register_typing_import' else 'adhoc'
            if isinstance(n.args[0], ast.Constant):
                out.append((kind, n.args[0].value))
            else:
                out.append((kind + '-expr', ast.unparse(n.args[0])))      # a computed statement: its source text
    return out


def _guards(node):
    """source text of the `if` tests below `node` that guard a registration"""
    return [ast.unparse(n.test) for n in ast.walk(node) if isinstance(n, ast.If) and _registered(n)]


@extractor
def stub_reserved_keywords(repo):
    tree = parse(repo, 'stone/backends/python_helpers.py')
    words = []
    for node in tree.body:
        if isinstance(node, ast.Assign) and isinstance(node.targets[0], ast.Name) and \
                node.targets[0].id == '_reserved_keywords' and isinstance(node.value, ast.Set):
            words = sorted(e.value for e in node.value.elts if isinstance(e, ast.Constant))
    return _strs('stubReservedKeywords', words)


@extractor
def stub_type_mapping(repo):
    fn = _func(parse(repo, 'stone/backends/python_type_mapping.py'), 'map_stone_type_to_python_type')
    branches = []          # (test, literal returned directly | '')
    node = next(n for n in fn.body if isinstance(n, ast.If))
    while True:
        last = node.body[-1]
        lit = last.value.value if (isinstance(last, ast.Return) and isinstance(last.value, ast.Constant)
                                   and isinstance(last.value.value, str)) else ''
        branches.append((_test_name(node.test), lit))
        if len(node.orelse) == 1 and isinstance(node.orelse[0], ast.If):
            node = node.orelse[0]
        else:
            break
    return _pairs('stubTypeMapBranches', branches)


@extractor
def stub_callbacks(repo):
    tree = parse(repo, 'stone/backends/python_type_stubs.py')
    fn = _func(tree, '_get_pep_484_type_mapping_callbacks')
    keys = []
    for n in ast.walk(fn):
        if isinstance(n, ast.Dict) and n.keys and all(isinstance(k, ast.Name) for k in n.keys):
            keys = [(k.id, v.id if isinstance(v, ast.Name) else ast.unparse(v)) for k, v in zip(n.keys, n.values)]
    by_name = {n.name: n for n in fn.body if isinstance(n, ast.FunctionDef)}
    fmt, regs, guards = [], [], []
    for key, cb in keys:
        f = by_name.get(cb)
        if f is None:
            continue
        ret = next((s for s in _str_consts(f.body[-1])), '')
        fmt.append((key, ret))
        for kind, what in _registered(f):
            regs.append((key, kind + ':' + what))
        for g in _guards(f):
            guards.append((key, g))
    other = []
    for name in ('_generate_typevars', '_generate_struct_or_union_class_custom_annotations',
                 '_generate_struct_class_init', '_generate_annotation_type_class_init'):
        for kind, what in _registered(_func(tree, name)):
            other.append((name, kind + ':' + what))
    lits = []
    for name in ('_generate_validator_for', '_generate_routes', '_generate_struct_class_properties',
                 '_generate_union_class_vars', '_generate_union_class_is_set',
                 '_generate_union_class_variant_creators', '_generate_union_class_get_helpers',
                 '_generate_typevars', '_generate_struct_or_union_class_custom_annotations'):
        for s in _str_consts(_func(tree, name)):
            if ('{' in s or ':' in s or '=' in s) and '\n' not in s and not s.startswith('type:'):
                lits.append((name, s))
    return '\n'.join([
        _pairs('stubOverrideCallbacks', keys),
        _pairs('stubCallbackFormats', fmt),
        _pairs('stubCallbackRegisters', regs),
        _pairs('stubCallbackGuards', guards),
        _pairs('stubOtherRegisters', other),
        _pairs('stubEmitTemplates', lits),
    ])
