"""C03 - arbitrary text ends in an API description or a spec error."""
from harness.suites import fe_fuzz, fe_rules


MANIFEST = dict(
    text='PROVED (Lean 4, Props/C03.lean), full strength, for the crash layer of two component models that follow the '
         'code with Python\'s partiality made explicit: type instantiation (_instantiate_data_type + the __init__ '
         'checks of stone/ir/data_types.py) ends in a type or in the spec error for every built-in type and every '
         'argument list (instantiate_no_crash: every comparison is guarded by an isinstance test and the constructor is '
         'never called with the wrong number of arguments); name registration (_create_* / '
         '_raise_symbol_already_defined / _check_canonical_name_available) ends in a state or in the spec error for '
         'every list of files (register_no_crash: min(existing.at_version) is never applied to an empty dictionary). '
         'Also proved, for the last sentence of the property: the format operation that the `except InvalidSpec` handler '
         'of stone.cli.main holds (copied from the handler by the translator as data: style, template, fields; '
         'interpreted by Model/CliReport.lean with the partiality of str.format and % explicit) raises nothing and '
         'yields `path:line: error: message` for EVERY value the three fields of an InvalidSpec can take - path str or '
         'None, line int or None, any message (cli_answers_spec_error, cli_answer_no_crash; the handler ends with '
         'sys.exit(1) and prints to stderr: cli_spec_error_status; str.format with {} fields never looks at the kind '
         'of a value: format_style_kind_blind, with the witness that `%d` of a missing line is a TypeError). Tied to '
         'the code by fe.format (the interpreter against Python\'s own str.format and % on random templates and '
         'arguments) and fe.report (the model\'s line against what stone.cli.main printed). '
         'The crash sites the first version of the models excluded (List(T, min_items="a"); a clash that involves an '
         'annotation; a definition named like a built-in type, a route or an annotation type) are repaired in the code; '
         'the former witnesses are kept as regression statements of the new behaviour. Both models are total '
         'functions (termination by construction). Tied to the code by the translator tables and by differential '
         'runs (fe.params, fe.names: outcome class ok / InvalidSpec / exception class compared strictly). '
         'TESTED, NOT PROVED (the statement for whole specs and arbitrary text): crash fuzzing of the real specs_to_ir '
         '- generated specs after 1-3 token-level edits, every string over a 14-token alphabet up to a length after a '
         'namespace header plus random longer ones, the code blocks of docs/lang_ref.rst, the seeds of corpus/C03, every '
         'rule-violation injection of C01, a grid of literals of every kind and of unusual size (integers of 22 to 4400 '
         'digits, floats with huge exponents, strings of up to 100,000 characters) at every place a literal is '
         'converted or checked (field defaults, example values, route attributes, annotation arguments, annotation-type '
         'parameter defaults, type arguments) for every primitive type plain / bounded / nullable / behind an alias '
         '(fe.literals), and a grid of argument shapes (0-3 positional x 0-2 keyword arguments, mixed, duplicated, '
         'unknown, bare) for every built-in annotation type and four custom ones (fe.annargs), the fixed catalogue of '
         'minimal illegal specs (one or more per reachable `raise InvalidSpec(` / parser / lexer error site, each beside its '
         'legal neighbour: fe.sites) and the grid of doc-reference texts x the docstrings that carry them (fe.docrefs) of '
         'C01, one generated spec cut '
         'before every token (with and without a final newline, alone and after whole files), every recursively followed '
         'construct nested / chained 150 and 3000 times - with the oracle "returns, or raises InvalidSpec with a non-empty str '
         'message, int|None line and a path among the inputs". The command line (stone.cli.main in-process, throw-away '
         'backend) is run on representatives of every SHAPE of spec error the fuzzing produced (line present / absent x '
         'path absent / only file / first / later file x message with %, braces, non-ASCII, backslash, several lines) '
         'and of every distinct message wording, plus a sample of freshly mutated specs: exit status 1, nothing '
         'escapes, and stderr holds `path:line: error: message` with the path, line and message of the InvalidSpec that '
         'specs_to_ir raises for the same files (what stands for an absent path or line is not judged).',
    note='Trusted: Lean kernel, translator, generators. ply (lex / yacc) is not modelled; the parser and the remaining '
         'passes of the IR generator are covered by fuzzing only. A limit of 20 s of processor time per compile '
         '(independent of machine load; a wall-clock alarm ten times as long is the backstop) stands in for termination '
         'of the real compiler; a timeout is reported only when it repeats with the case run alone under three times '
         'the limit, and its signature names the stone frame that was executing (e.g. data_types.String.check for '
         'catastrophic regex backtracking).',
    technique='Lean 4 proof of component crash layers + translator + differential correspondence; fuzzing for the '
              'end-to-end statement',
    design='5 C03')

RULE = ('C03: for any text(s), specs_to_ir returns or raises InvalidSpec(str message, int|None line, path among inputs); '
        'no other exception escapes; the command line answers a bad spec with path:line: error: message and status 1')


def run(ck):
    import time
    ck.build_and_audit()
    t0 = time.time()
    picked = fe_fuzz.suite_fuzz(ck, n_models=ck.scale(40, 400), n_mut_per_model=ck.scale(25, 50), short_len=ck.scale(3, 4),
                                n_random_short=ck.scale(1500, 50000))
    t1 = time.time()
    fe_fuzz.suite_cli(ck, ck.scale(40, 400), picked)
    fe_fuzz.suite_format(ck, ck.scale(3000, 30000))
    ck.stats['fuzz_s'], ck.stats['cli_s'] = round(t1 - t0, 1), round(time.time() - t1, 1)
    fe_rules.suite_params(ck, report='C03')
    fe_rules.suite_literals(ck, report='C03')
    fe_rules.suite_annargs(ck, report='C03')
    fe_rules.suite_names(ck, report='C03', n=ck.scale(1200, 10000))
    fe_rules.suite_violations(ck, n_models=ck.scale(10, 150), per_rule=ck.scale(2, 6), report='C03')
    fe_rules.suite_sites(ck, report='C03')
    fe_rules.suite_docrefs(ck, report='C03')
    ck.assumptions.extend([
        'type arguments reach _instantiate_data_type as literals, the null token or resolved types (what the parser builds)',
        'termination of the real compiler is observed with a processor-time limit, not proved',
    ])
    return ck.finish(rule=RULE)


def replay(ck, path):
    import json
    rec = json.load(open(path))
    case = rec.get('case', rec)
    specs = [tuple(s) for s in case['specs']]
    if case.get('via') == 'cli':
        direct, code, _text, _cmp = fe_fuzz.judge_cli(ck, fe_fuzz._Cli(), specs, case.get('origin', 'replay'))
        print('replay: frontend', {k: direct[k] for k in direct if k != 'err'}, direct.get('err'), '; command line', code)
        return ck.finish(rule=RULE)
    limit = min(20, case.get('limit_s') or (case.get('verdict') or {}).get('limit_s') or 20)
    v = fe_fuzz.confirm_timeout(specs, fe_fuzz.classify(specs, limit_s=limit))
    print('replay:', v)
    fe_fuzz.judge(ck, [list(s) for s in specs], v, case.get('origin', 'replay'), do_shrink=False)
    return ck.finish(rule=RULE)
