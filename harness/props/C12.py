"""C12 - code generation is deterministic."""
import glob
import json
import os
import time

from harness import core
from harness.suites import determinism


MANIFEST = dict(
    text='PARTIAL BY NATURE. Proved (Lean 4): the iteration order of every Python set is an adversarial parameter of '
         'the models of the places where the generators iterate unordered collections (python_types omitted-caller '
         'loops and the `_permissioned_tagmaps` line, custom-annotation processors, imported namespaces, route io '
         'types, route whitelist + normalize, stub import blocks); for each such site the emitted text is proved '
         'independent of that order (`gen_order_free`, `caller_loop_order_free`, `field_procs_order_free`, '
         '`remaining_order_free`, `imports_order_free`, `adhoc_order_free`, `whitelist_routes_order_free`, ...); the per-caller tables and the '
         'custom-annotation processor blocks need no hypothesis about ties any more (only that an annotation is identified '
         'by namespace and name), the forms these sites had before their repair are kept as regression models and proved '
         'order dependent (`tagmaps_order_dependent`, `procs_order_dependent_same_type`, '
         '`procs_order_dependent_same_name`, `caller_loop_order_dependent`), the repairs are proved to change nothing '
         'where the old sort keys decided (`caller_loop_as_before`, `emit_procs_as_before`), and '
         'the general fact behind all of them (a stable sort sees only the per-key sub-sequences: `sortBy_congr`). '
         'Coverage: an `ast` scan of stone/ir, ir_generator, backend.py, compiler.py and every backend extracts all '
         'unsorted / sorted iterations over set-derived values, class-level mutable state, ad-hoc import literals, '
         'iterations over by-name dicts and ambient sources (clock, pid, listdir, id, hash); `sites_covered`, '
         '`sort_sites_covered`, `class_state_covered`, `no_ambient_sources` (by `decide` / `rfl`) break the build when '
         'a new one appears. Class-level caches: `class_cache_history_free`, `tracker_history_free`; no class-level '
         'container is ever iterated (`class_state_never_iterated`), the frontend ones are lookup-only '
         '(`frontend_class_state_lookup_only`). Output directory that already holds files: on a model of '
         '`Backend.output_to_relative_path` (directory = path -> bytes, modes wb / ab) every file opened with wb holds '
         'exactly the promised bytes whatever the directory held (`build_meets_promise`, `build_history_free`); a '
         'write that skips files which "already hold the output" when read in text mode is proved history dependent '
         '(`skip_text_compare_history_dependent`); the places where the generators look at the file system at all '
         '(exists / isfile / getsize / stat / every open that is not a plain truncate) and the modes handed to '
         'output_to_relative_path are pinned (`fs_reads_pinned`, `output_modes_pinned`, `output_modes_modelled`). '
         'Observed by testing, NOT proved: that hash seeds, separate processes, output directories and process '
         'history change nothing -- byte comparison of all files of 14 backend invocations (option sets with several --extra-arg / --attribute-comment keyed on route attributes) across fresh interpreters '
         '(PYTHONHASHSEED 0 / random, two output directories), into output directories that already hold files (the earlier '
         'output untouched, with CR LF / CR line ends, a BOM, longer / shorter / same-size stale files with old or future '
         'time stamps, no final newline, trailing blanks, bytes that are not UTF-8, a stale file of another name) and single interpreters that ran an unrelated spec or an ABORTED build of the same backend, the '
         'same backend on it and other backends before; and that the site models are the code (differential runs on '
         'the modelled lines; the write model against the real Backend class scripted with (path, mode, text) lists '
         'on pre-filled directories).',
    note='Trusted: Lean kernel, translator (the dataflow of ex_setiter.py is function-local and by attribute name; it '
         'over-approximates but a set smuggled through an untracked container is missed and only the byte comparison '
         'can see it), CPython set/dict semantics (dicts keep insertion order; only sets and what is filled from them '
         'are unordered), specgen + the generated block, the 13 argument sets. The dependency search of the route '
         'whitelist is covered only up to "the visited set does not depend on the traversal order" '
         '(`whitelist_types_order_free_partial`). Caller names and annotation texts are modelled for strings without '
         'quotes / backslashes. Output directory: a zero-byte file is never made stale (the package marker __init__.py is '
         'opened for appending: created when missing, its content is the user\'s); stale files of other names that survive '
         'a run are not judged; `shutil.copy` of resource files and the Swift backends\' own writer are covered by the '
         'byte comparison only; paths are modelled as given (no normpath).',
    technique='Lean 4 proof (order as adversarial parameter) + translator site coverage + multi-process byte comparison '
              '(testing) + differential correspondence',
    design='5 C12')


def corpus_cases(ck):
    d = os.path.join(core.VERIF, 'corpus', ck.prop)
    out = []
    for path in sorted(glob.glob(os.path.join(d, '*.json'))):
        rec = json.load(open(path))
        case = rec.get('case', rec)
        if 'specs' in case:
            out.append({'suite': 'determinism.bytes', 'origin': 'corpus:' + os.path.basename(path),
                        'specs': case['specs'], 'whitelist': case.get('whitelist'), 'info': case.get('info', {})})
            ck.stat('corpus.cases')
    return out


def run(ck):
    t0 = time.time()
    ck.build_and_audit()
    t1 = time.time()
    cases = corpus_cases(ck) + determinism.hand_cases()
    n = ck.scale(4, 144)
    cases += [determinism.gen_case(ck.seed, i) for i in range(n)]
    if os.path.exists(core.DRIVER):
        determinism.suite_sites(ck, cases)
    determinism.suite_outdir(ck)
    t2 = time.time()
    info = determinism.suite_bytes(ck, cases)
    ck.note('wall time: build + audit %.0f s, site models %.0f s, byte comparison %.0f s' % (
        t1 - t0, t2 - t1, time.time() - t2))
    ck.assumptions.extend([
        'the frontend gives namespaces unique names and data types unique names inside a namespace (sort keys of '
        'normalize / get_imported_namespaces are injective on what they sort)',
        'omitted-caller names and custom-annotation arguments are strings without quotes, backslashes or control characters',
        'CPython: dict iteration = insertion order; set iteration order is arbitrary but fixed for one set object in one state',
    ])
    ck.note('hash seeds used: 0, 1, 2, %d, %d' % info['seeds'])
    if info['infrastructure']:
        # a worker interpreter died / timed out: not a statement about the property
        kind, label, err = info['infrastructure'][0]
        ck.note('%d worker interpreters failed (first: %s: %s)' % (len(info['infrastructure']), label, err[-300:]))
        if not ck.violations:
            raise RuntimeError('determinism worker failed (%s): %s' % (label, err[-800:]))
    ck.note('D15 (`_permissioned_tagmaps` printed a set) is repaired in /repo: the line is modelled by tagmapsLineSorted, the '
            'printed-set form stays as regression model (tagmaps_order_dependent) and as hand seed')
    ck.note('the ad-hoc import statements of a stub (import datetime, from <pkg> import <ns> for indirectly reached '
            'namespaces) are emitted sorted since the stub repair: adhocImportLines is the sorted block, order-free for any '
            'set of statements (adhoc_order_free has no hypothesis left); the set-order loop stays as regression model '
            '(adhoc_unsorted_order_dependent) and a stub with four statements as hand seed')
    ck.note('the three sort-key ties of python_types (omitted caller named None; annotation types of one name in two '
            'namespaces; two annotations of one type along an alias chain) are repaired in /repo: the models follow the new '
            'keys (callerKey, Proc.key, remaining), the former forms stay as regression models (callerLoopStr, '
            'emitProcsByName, procsOfUnsorted) and the three witnesses as hand seeds, judged like any other input')
    ck.note('testing part: a byte difference needs the interpreter to actually pick two different orders; sets of '
            'objects hashed by address are perturbed by junk allocation, an unrelated compile and other backend runs, '
            'not exhaustively')
    return ck.finish(rule=determinism.RULE)


def replay(ck, path):
    return determinism.replay(ck, path)
