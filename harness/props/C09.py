"""C09 - generated Python modules load and expose the whole API."""
import glob
import json
import os

from harness import core
from harness.suites import decl_py

MANIFEST = dict(
    text='Lean 4 theorems over a declaration-level model of stone/backends/python_types.py: every top-level statement of a '
         'generated namespace module reduced to what it binds and which generated names it evaluates at import time, in the '
         'emission order of _generate_base_namespace_module (imports, annotation types, classes, aliases, reflection '
         'attributes, defaults, routes), together with an interpreter for CPython\'s import-time semantics (partially '
         'initialised modules, NameError / AttributeError, attribute lookup along bases). Proved for ALL API descriptions: the '
         'promised module-level names, class bodies, constructor parameters, Python bases, validators and ROUTES are bound '
         '(exposes_all_*), attributes of inherited members are found along the bases, nothing is bound twice when the bound '
         'names differ (defines_once); import_safe / import_all_safe: for every description satisfying the decidable '
         'well-formedness predicate apiWF and with an acyclic import graph, importing ANY namespace module first into a fresh '
         'interpreter - and then all the others - runs every statement to completion and leaves every module completely '
         'loaded (proved through the generator section by section: classes, aliases, reflection tables per omitted caller, '
         'subtype maps, void-tag instances, defaults, routes), with acyclic_of_acyclicB tying the driver\'s executable test to '
         'the hypothesis; decided witnesses show that acyclicity, the alias order at any depth and the absence of union-tag route '
         'attributes are needed (the first two are meanwhile guaranteed by the compiler, the third is the listed finding D37), decided regression '
         'examples cover the repaired name spellings (aliases and subtype roots whose names fmt_class changes). Tied to the code by a translator (section '
         'order of _generate_base_namespace_module, the word-splitting regexes, the reserved-word table, the two raw-name '
         'sites, pinned by rfl / decide) and by parsing every generated module with Python\'s ast and comparing its reduced '
         'statement list, and the interpreter\'s verdict, with the compiled model; plus two direct oracles independent of the '
         'model: py_compile and one fresh interpreter per namespace-as-first-import, and in-process introspection of every '
         'class, field attribute (get / set / delete), constructor signature, union helper, validator tree, route object and '
         'ROUTES entry against a reading of the property text driven by the IR.',
    note='Trusted: Lean kernel, translator, the ast reduction of the harness (it defines what "evaluated at import time" '
         'means for the comparison), CPython\'s import system as the thing modelled. The model covers names, not text: a '
         'module that cannot be generated or compiled at all (string default with a blank, annotation type without '
         'parameters) is found by the direct oracle only. The runtime module names bb / bv are assumed not to be rebound '
         '(a clause of apiWF; specs that do so are judged by the direct oracles only). Field values for the attribute '
         'round trip come from the shared value generator; a field for which no value can be drawn is only checked for '
         'presence. Route attribute values of Timestamp / Bytes / union type are not compared.',
    technique='Lean 4 proof + translator + ast-level differential correspondence + fresh-interpreter and introspection oracles',
    design='5 C09')


def run_corpus(ck):
    d = os.path.join(core.VERIF, 'corpus', ck.prop)
    sources = []
    for path in sorted(glob.glob(os.path.join(d, '*.json'))):
        rec = json.load(open(path))
        case = rec.get('case', rec)
        if 'specs' in case:
            ck.stat('corpus.cases')
            sources.append(('corpus:' + os.path.basename(path), [tuple(s) for s in case['specs']]))
    if sources:
        decl_py.run_specs(ck, sources)


def run(ck):
    ck.build_and_audit()
    run_corpus(ck)
    decl_py.suite_all(ck)
    ck.assumptions.extend([
        'identifiers of the spec are not Python reserved words (the property excludes them; generated names are drawn '
        'Python-safe) and do not rebind the runtime module names bb / bv',
        'import_safe is about the model\'s interpreter; that CPython behaves like it on the generated statement lists is '
        'observed on every explored spec (decl.py.import_verdict), not proved',
        'what the compiler accepts satisfies apiWF and has an acyclic import graph: observed per spec '
        '(decl.py.wf_implies_import counts the specs where both hold and every first import succeeds); the compiler itself '
        'guarantees neither (three-namespace cycles, alias order below List / Map / ?, alias names not fixed by fmt_class)',
    ])
    return ck.finish(rule=decl_py.RULE)


def replay(ck, path):
    return decl_py.replay(ck, path)
