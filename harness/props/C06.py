"""C06 - the decoder accepts exactly valid serialisations and fails only by validation."""
from harness.suites import rt

MANIFEST = dict(
    text='Lean 4 theorems over the decoder model: no exception other than the validation error is reachable (under the '
         'well-formedness the compiler guarantees, checked on every environment), the listed rejection classes are rejected '
         'and the listed alternative forms accepted, for every document. Tied to the code by differential runs on reference '
         'encodings, classified structural mutations (must-accept / must-reject) and arbitrary small documents, strict and '
         'lenient; the direct oracle judges only the must-accept / must-reject classes plus "no crash" and "decoded value valid".',
    note='Trusted: Lean kernel; generators and the classification of mutations; json.loads as the source of documents '
         '(unique keys). Documents outside the two judged classes are only required not to crash and to decode to valid values.',
    technique='Lean 4 proof (totality / rejection lemmas over the decoder model) + differential correspondence + classified mutation oracle',
    design='5 C06')

RULE = ('reference encodings of valid values, 1-step structural mutations with a known verdict (drop required field, wrong JSON '
        'kind, out of bounds, unknown / catch-all tag, unknown field / subtype, explicit null, bare-string tags) and arbitrary '
        'small documents, at every top-level type, strict and lenient; non-trivial = object or array documents')


def run(ck):
    ck.build_and_audit()
    specs = rt.spec_source(ck, ck.scale(5, 120))
    sessions = rt.sessions(ck, specs)
    rt.suite_decode(ck, sessions, ck.scale(5, 14), ck.scale(20, 60), judge=True)
    return ck.finish(rule=RULE)


def replay(ck, path):
    return rt.replay(ck, path)
