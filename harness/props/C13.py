"""C13 - omitted fields and redacted values never leak through serialization."""
from harness.suites import rt

MANIFEST = dict(
    text='Lean 4 theorems: the per-caller field and tag tables that the generated reflection code assigns (modelled with its '
         'assignment / attribute-inheritance semantics) contain exactly the declared members visible to the caller; encoded '
         'objects only have keys from that table; omitted tags are refused; strict decoding rejects omitted members supplied by '
         'callers without the permission; a redactor on the validator object replaces the value before anything else happens. '
         'Tied to the code by comparing the real class attributes with the model tables and real encode/decode with every subset '
         'of the declared permissions x redaction on/off against the compiled model; sentinel strings at omitted / redacted '
         'positions are searched for in the real output.',
    note='Trusted: Lean kernel; generators; md5 / re.search as table-fed external calls (a regex redactor may echo its own groups: '
         'that is the documented meaning of the regex argument).',
    technique='Lean 4 proof (table refinement + key containment) + differential correspondence + sentinel oracle',
    design='5 C13')

RULE = ('specs with Omitted / RedactedBlot / RedactedHash on fields, tags, aliases (hand-written incl. a three-level chain, and '
        'generated) x values carrying unique sentinel strings x every subset of the declared permissions (encode and decode side) '
        'x redaction on/off; non-trivial = the value carries a sentinel at an omitted or redacted position')


def run(ck):
    ck.build_and_audit()
    specs = rt.spec_source(ck, ck.scale(4, 80))
    sessions = rt.sessions(ck, specs)
    rt.suite_perms(ck, sessions, ck.scale(2, 5), judge=True)
    return ck.finish(rule=RULE)


def replay(ck, path):
    return rt.replay(ck, path)
