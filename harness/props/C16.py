"""C16 - the JavaScript and TypeScript backends complete and their output is well formed."""
from harness.suites import decl_js

MANIFEST = dict(
    text='Lean 4 theorems over a declaration-level model of js_types, js_client, tsd_types and tsd_client (what each '
         'backend declares, per file and namespace, and what every declaration refers to) and of the type mappers '
         'js_helpers.fmt_type / tsd_helpers.fmt_type / fmt_type_name / fmt_polymorphic_type_reference: a mapper only '
         'mentions user types reachable from the type it formats; for a well-formed API every reference of every '
         'declaration is a builtin, declared in the output or imported into that file; every struct, union and (TypeScript) '
         'alias is declared exactly once with every field and tag at its mapped type; optional markers (JSDoc: iff '
         'nullable; TypeScript: iff nullable - also behind aliases - or defaulted); one js_client function / tsd_client method per route version with url ns/route[_vN], arg or '
         'null, attribute values in schema order. Tied to the code by a translator (type-name tables, format strings), by '
         'differential runs of the real backends (declaration scanners for .d.ts and JSDoc, node evaluation harness) '
         'against the compiled model, and by an independent reference reading of the IR as direct oracle.',
    note='Trusted: Lean kernel, translator, declaration scanners and generators, node. Proved about the model, '
         'observed by testing for the code: completion without exception, lexical well-formedness of the text '
         '(`node --check`, scanner), correspondence model == scanned output. Name injectivity (fmt_pascal(ns+name), '
         'fmt_func(ns_route, v), `XReference` / variant interface names) and the closure invariant apiWF are '
         'hypotheses; apiWF is evaluated on every generated API. Not judged: comment text (beyond staying inside its comment: '
         'marker words of every doc string must not show up outside comments and string literals), TypeScript reserved words, '
         '--extra-arg / -i / -s / -p. Inputs: every specgen preset, a grid family (every type shape x every position, '
         'the same names in two namespaces, an alias-only namespace), an attribute family (route schemas of every '
         'printable attribute type x adversarial values x order), a comment family (every doc site x doc references of every '
         'tag whose expansion begins / ends with a character of `*/`, between prose that supplies the other one) and corpus seeds.',
    technique='Lean 4 proof + translator + differential correspondence (declaration scanners) + reference oracle + node',
    design='5 C16 / 4.5 DECL')


def run(ck):
    ck.build_and_audit()
    ck.stats['time.build_audit_s'] = round(ck.elapsed(), 1)
    decl_js.suite_corpus(ck)
    ck.stats['time.corpus_s'] = round(ck.elapsed(), 1)
    decl_js.suite_names(ck)
    decl_js.suite_grid(ck)
    decl_js.suite_attrs(ck)
    decl_js.suite_comments(ck)
    ck.stats['time.families_s'] = round(ck.elapsed(), 1)
    decl_js.suite_generated(ck)
    ck.stats['time.suites_s'] = round(ck.elapsed(), 1)
    ck.assumptions.extend([
        'identifiers are ASCII (Stone lexer); str.lower / str.capitalize modelled on ASCII',
        'apiWF (closure invariant of the frontend) holds: evaluated by the model on every compiled API',
        'generated names are injective (hinj.* counts the cases where they are not; those declarations are not judged)',
        'tsd_client without --import-namespaces resolves names against the single-file tsd_types output (ambient)',
    ])
    ck.note('numbers recorded in node compare as IEEE doubles (integers above 2^53 lose precision in JavaScript)')
    return ck.finish(rule=decl_js.RULE)


def replay(ck, path):
    return decl_js.replay(ck, path)
