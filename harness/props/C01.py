"""C01 - the compiler accepts exactly the legal specs."""
import glob
import json
import os

from harness import core
from harness.suites import fe_rules


MANIFEST = dict(
    text='Two layers. PROVED (Lean 4, Props/C01.lean), full strength, about component models of the decision logic that '
         'follow stone/frontend/ir_generator.py and stone/ir/data_types.py branch by branch: (a) type instantiation '
         '(_instantiate_data_type, the Void? test of _resolve_type, the __init__ parameter checks of every primitive and '
         'of List / Map): an argument list is accepted exactly when it is legal by the "Basic Types" table of '
         'docs/lang_ref.rst, for all thirteen built-in types and every argument list (instantiate_ok_iff_legal, '
         'builtin_ref_ok_iff_legal; no excluded inputs - the holes earlier versions of the code had, `List(3)`, '
         'non-integral list lengths, `String(pattern=0)`, `Int32(min_value=2147483648)`, are repaired in the code and '
         'pinned as refused); (b) name registration (_add_data_types_and_routes_to_api, _create_*, '
         '_raise_symbol_already_defined, _check_canonical_name_available): acceptance is equivalent to the pairwise '
         'no-clash rule (register_ok_iff_noclash) and independent of declaration / file order and of how a namespace is '
         'split into files (register_perm); the keys of _get_base_name are proved unambiguous (keys_unambiguous: the '
         'separator "/" is stripped from the name part and cannot occur in a namespace name - the only hypothesis, '
         'NsLexical, is the lexer\'s guarantee that a namespace name is an identifier); the inputs on which the former '
         'separator-less key failed (`Ab` in namespace `c` against `A` in `bc`) are pinned as accepted. '
         'The component models are tied to the code by a translator (keyword / built-in / __init__ signature / width / '
         'canonical strip and separator tables, pinned by rfl / decide) and by differential runs of the real compiler '
         '(fe.params: exhaustive grid of kind x argument shape x literal around every bound; fe.names: random small '
         'name sets). '
         'TESTED, NOT PROVED (the end-to-end statement; a Lean model of the whole 1,800-line IR generator was out of '
         'reach): a by-construction oracle on the real specs_to_ir - every generated legal model under two layouts must '
         'compile, and each of ~100 rule-violation injectors (DESIGN Appendix A: S1-S10, A1-A34, B1-B26, C1-C13) applied '
         'at sampled sites of such models (through aliases, imports, patches, deeper inheritance, other files and file '
         'orders) must be refused with InvalidSpec; every rule whose violation can be reached through an alias (A12, A15, '
         'Map key, A21, A22, A23, A27, A28, B2) is injected again behind chains of two and three aliases and behind a '
         'chain that crosses an import; the argument rules of annotations (B18 / B22) are evaluated on a grid of '
         'argument shapes for every built-in annotation type and four custom ones (fe.annargs) against an independent '
         'statement of the rules; "examples that fit their types" is evaluated (fe.exvalues) on a grid of type expression '
         'x example value -- every primitive type with and without each of its bounds, as a plain field and wrapped in '
         'every combination of `?` / alias / List / Map (as value and as KEY) / union tag / inherited field up to depth '
         'two, single-line and multi-line map literals -- against an independent statement of fitting (ex_fits, written '
         'from the Basic Types table: every item, every map key and every map value, at any depth, must be of the right '
         'kind and inside every bound of the type at its position), and again by replacing one part (field value, list '
         'item, map key, map value, whole container) of the examples the generator wrote into whole models by a misfit '
         '(C3.field / item / key / value / container).',
    note='Trusted: Lean kernel, translator, generators and injectors (what they never produce is never checked), CPython re '
         '(whether a pattern compiles is an external parameter of the model). The iff for whole specs is observed by '
         'testing only. Not judged: booleans used as numeric arguments, null for an optional argument, min > max for '
         'numeric bounds, indentation of the first line of a file, which of several errors is reported, Void as a List / '
         'Map element, whether a String pattern must cover the whole example string or only a prefix, a non-string where '
         'a Timestamp is expected. Several patches of one type are legal (all are applied); only a member added twice is injected. '
         'Catalogue entries without an injector are listed in the evidence (rules_unbuilt). Exceptions other than '
         'InvalidSpec met on the way are counted here and reported by C03.',
    technique='Lean 4 proof of component models + translator + differential correspondence; by-construction / '
              'fault-injection testing for the end-to-end statement',
    design='5 C01')


def run_corpus(ck):
    d = os.path.join(core.VERIF, 'corpus', ck.prop)
    for path in sorted(glob.glob(os.path.join(d, '*.json'))):
        rec = json.load(open(path))
        case = rec.get('case', rec)
        ck.stat('corpus.cases')
        v = fe_rules.compile_one([tuple(s) for s in case['specs']])
        if case.get('expect') == 'refused' and v['k'] == 'ok':
            ck.failing_input(rec.get('what', 'C01: an illegal spec is accepted'), rec.get('signature', {'kind': 'accepted'}), case)
        elif case.get('expect') == 'accepted' and v['k'] == 'spec':
            ck.failing_input(rec.get('what', 'C01: a legal spec is refused'), rec.get('signature', {'kind': 'refused'}), case)


def run(ck):
    ck.build_and_audit()
    run_corpus(ck)
    fe_rules.suite_valid(ck)
    fe_rules.suite_violations(ck)
    fe_rules.suite_params(ck, report='C01')
    fe_rules.suite_names(ck, report='C01')
    fe_rules.suite_annargs(ck, report='C01')
    fe_rules.suite_exvalues(ck, report='C01')
    ck.assumptions.extend([
        'identifiers and namespace names are ASCII ([a-zA-Z_][a-zA-Z0-9_-]*; no "/" in a namespace name), so str.lower is Char.toLower',
        'the empty pattern compiles (re.compile("")); whether any other pattern compiles is asked of CPython',
        'argument lists come from the parser: literals, null, or type references (resolved before the outer reference)',
    ])
    ck.note('end-to-end acceptance/refusal of whole specs is evaluated by testing (generated legal models, injected '
            'violations); only the component models carry theorems')
    return ck.finish(rule=fe_rules.RULE)


def replay(ck, path):
    return fe_rules.replay(ck, path)
