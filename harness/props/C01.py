"""C01 - the compiler accepts exactly the legal specs."""
import glob
import json
import os

from harness import core
from harness.suites import fe_rules
from harness.suites import fe_compile


MANIFEST = dict(
    text='Three layers. PROVED FOR THE TYPE GRAPH (Lean 4, Props/C01Compile.lean): `compile_ok_iff_legal` - the model of the '
         'IR generator`s core (Model/FeCompile.lean `compile`: registration, imports, _populate_type_attributes with the '
         'depth-first population of parents and the alias-cycle search, the type tests of _populate_field_defaults, '
         '_populate_enumerated_subtypes, the three types and `deprecated by` of routes; tied to stone/frontend/ir_generator.py '
         'by suite comp.compile, see C02) accepts a set of spec files EXACTLY WHEN `Legal` holds, where `Legal` is a '
         'decidable conjunction of order-free rules over the declarations of all files, written from docs/lang_ref.rst and '
         'the rule catalogue: names (FeNames.NoClash), imports (not reflexive, existing, acyclic), references (a built-in '
         'type with legal arguments or a struct / union / alias without arguments, prefix = imported namespace, Void never '
         'nullable, nothing nullable that is nullable or Void once aliases are unfolded), aliases (no cycle through List / '
         'Map / Nullable), structs and unions (parent kinds, closed below open, Void / nullable-with-default / '
         'default-on-composite members, reserved `other`, no member name twice along the chain of parents - which also '
         'says the chain ends), enumerated subtypes (root without parent, each subtype known, a struct, a child of the '
         'root, listed once under a fresh tag, all children listed, leaves not extended), routes (three legal types, '
         '`deprecated by` an existing route version), patches (the definition with the canonical name of the patch is a '
         'struct / union of the same kind and closedness; no member of a patch is a declared member of the type or a '
         'member of another patch of it; the merged declaration obeys the rules for structs and unions), applied '
         'annotations (every `@name` is an annotation definition of the namespace or an imported one; on a member at most '
         'one Deprecated, one Preview - never both -, one Omitted, one redactor; on an alias only redactors - at most one - '
         'and custom annotations; a redactor goes on the alias definition, not on a member whose type is an alias; the '
         'annotated type, aliases and nullables unfolded, carries no redactor of its own and is, through lists and maps, '
         'neither a struct / union nor Void), `stone_cfg` and route attributes (`compileFull` / `LegalFull`: stone_cfg defines no route and no type but a struct named Route; every attribute a route sets is a member of Route or of an ancestor of Route; a member without default whose type is not nullable is set by every route of every other namespace; a value other than `null` for a nullable attribute is given only to attributes whose type - aliases and nullables unfolded - is a primitive type other than Void or a union, and passes the value test of that type. The theorem holds for every value test `vc`; `compile_ok_iff_legal_values` instantiates it with `attrVal` (Model/FeAttrVal.lean): C10`s model of `<Type>.check`, IrCheck.check, reached through aliases and Nullable the way check_attr_repr does - a literal of the kind of the type inside all its bounds: integers in the width and between min_value / max_value, no booleans for numbers, integers for floats only when the double is exact, strings within the lengths and matching the whole pattern, timestamps that strptime reads, for a union the name of a tag without a value; IrCheck`s external calls - float comparison, float(int), the re match, strptime - are parameters on both sides of the iff, not hypotheses). Corollaries: `legal_accepted` (a spec that violates none is never '
         'refused, and none of the model`s recursion bounds is hit), `violation_refused` (any violation, anywhere, in any '
         'order, is refused), `compile_error_sound` (every error kind is only produced on illegal input), '
         '`acceptance_by_rules`, `buildEnv_ok_iff`. The only hypothesis is `nsLexical` (namespace names contain no "/": '
         'the lexer`s ID token). `Legal` itself is tied to the REAL compiler by suite comp.legal: on every input of '
         'comp.compile inside the modelled subset (hand seeds per error site, specgen models, one-violation injections, '
         'text mutants) the driver evaluates `Legal` and the real specs_to_ir must accept exactly when it holds (a refusal '
         'with the message of an unmodelled rule is not judged); a disagreement is reported as a failing input of this '
         'property with signature kind `illegal-accepted` / `legal-refused` and the rule. '
         'PROVED FOR THE COMPONENTS (Lean 4, Props/C01.lean), full strength, about component models of the decision logic that '
         'follow stone/frontend/ir_generator.py and stone/ir/data_types.py branch by branch: (a) type instantiation '
         '(_instantiate_data_type, the Void? test of _resolve_type, the __init__ parameter checks of every primitive and '
         'of List / Map): an argument list is accepted exactly when it is legal by the "Basic Types" table of '
         'docs/lang_ref.rst, for all thirteen built-in types and every argument list (instantiate_ok_iff_legal, '
         'builtin_ref_ok_iff_legal; no excluded inputs - the holes earlier versions of the code had, `List(3)`, '
         'non-integral list lengths, `String(pattern=0)`, `Int32(min_value=2147483648)`, are repaired in the code and '
         'pinned as refused); (b) name registration (_add_data_types_and_routes_to_api, _create_*, '
         '_raise_symbol_already_defined, _check_canonical_name_available): acceptance is equivalent to the pairwise '
         'no-clash rule (register_ok_iff_noclash) and independent of declaration / file order and of how a namespace is '
         'split into files (register_perm); the keys of _get_base_name are proved unambiguous (keys_unambiguous: the '
         'separator "/" is stripped from the name part and cannot occur in a namespace name - the only hypothesis, '
         'NsLexical, is the lexer\'s guarantee that a namespace name is an identifier); the inputs on which the former '
         'separator-less key failed (`Ab` in namespace `c` against `A` in `bc`) are pinned as accepted. '
         'The component models are tied to the code by a translator (keyword / built-in / __init__ signature / width / '
         'canonical strip and separator tables, pinned by rfl / decide) and by differential runs of the real compiler '
         '(fe.params: exhaustive grid of kind x argument shape x literal around every bound; fe.names: random small '
         'name sets). '
         'TESTED, NOT PROVED (the end-to-end statement; a Lean model of the whole 1,800-line IR generator was out of '
         'reach): a by-construction oracle on the real specs_to_ir - every generated legal model under two layouts must '
         'compile, and each of ~125 rule-violation injectors (DESIGN Appendix A: S1-S13, A1-A35, B1-B26, C1-C13) applied '
         'at sampled sites of such models (through aliases, imports, patches, deeper inheritance, other files and file '
         'orders) must be refused with InvalidSpec; every rule whose violation can be reached through an alias (A12, A15, '
         'Map key, A21, A22, A23, A27, A28, B2) is injected again behind chains of two and three aliases and behind a '
         'chain that crosses an import; the argument rules of annotations (B18 / B22) are evaluated on a grid of '
         'argument shapes for every built-in annotation type and four custom ones (fe.annargs) against an independent '
         'statement of the rules; "examples that fit their types" is evaluated (fe.exvalues) on a grid of type expression '
         'x example value -- every primitive type with and without each of its bounds, as a plain field and wrapped in '
         'every combination of `?` / alias / List / Map (as value and as KEY) / union tag / inherited field up to depth '
         'two, single-line and multi-line map literals -- against an independent statement of fitting (ex_fits, written '
         'from the Basic Types table: every item, every map key and every map value, at any depth, must be of the right '
         'kind and inside every bound of the type at its position), and again by replacing one part (field value, list '
         'item, map key, map value, whole container) of the examples the generator wrote into whole models by a misfit '
         '(C3.field / item / key / value / container). Every `raise InvalidSpec(` / parser / lexer error site of the anchored '
         'files that a spec can reach is reached in every tier by a fixed catalogue of minimal illegal specs, each beside its '
         'nearest legal neighbour (fe.sites: a keyword in the place of `alias`, unhashable map keys, files cut short, unmatched '
         'parentheses, literals of thousands of digits, non-types used as types, untyped struct fields and parameters, two-type '
         'routes, route attributes of every type kind, `@` references of every wrong kind on every host, redactors on aliases, '
         'values for void members, literals for struct / union members, missing and circular example references); "well-formed '
         'doc references" is evaluated (fe.docrefs) on a grid of reference text (every tag; local, imported, not imported, '
         'non-namespace prefixes; every kind of wrong target) x the docstring that carries it (struct, field, inherited '
         'context, union, void / typed option, route, patched field, subtype tree, alias, namespace) against an independent '
         'statement of the reference rules.',
    note='Trusted: Lean kernel, translator, generators and injectors (what they never produce is never checked), CPython re '
         '(whether a pattern compiles is an external parameter of the model), the REAL parser as the producer of the '
         'compile model`s input. The iff for whole specs is PROVED for the compile model`s subset (no docs, '
         'examples, default values, arguments of annotation definitions and annotation types; type references with mixed literal / '
         'type positional arguments or a type passed by keyword are outside its input) and observed by testing beyond it. '
         'compile_ok_iff_legal does not say WHICH error kind an illegal input gets (several violations: the order of the '
         'passes decides; single violations: compared by comp.compile), and the fuel / internal answers of the model are '
         'proved unreachable on legal input only (on illegal input they would still be a refusal; the suite counts them as '
         'disagreements, none occurs). The annotation tests are modelled as one stage after the type passes (the code '
         'applies annotations while it creates each member and validates redactors in a last pass): the same verdict; '
         'when a spec breaks an annotation rule AND a type rule met later in pass 3 the code reports the former, the '
         'model the latter. Patches are taken in file order (the code groups them by canonical name first). Route attributes are checked as a last stage over the compiled types (the code does it inside the route pass, before the redactors are validated: the same verdict); the value test of a route attribute is C10`s IrCheck.check behind an adapter (compiled type -> IrTy; the bounds of float types are re-encoded to IEEE bits by `bitsOfFVal`, an unverified 10-line encoder exercised by the float seeds), its external calls are answered by the driver from tables the harness computes with CPython (float(n), float(n) == n, re with \\A(?:p)\\Z, strptime) and evaluated under both table-miss policies; a message of `<Type>.check` is judged as the value of a route attribute only when the InvalidSpec points at the line of one (defaults of fields raise the same messages: C10); a real CRASH where the model refuses (List / Map / struct attribute given a value when the `cannot be set` test is removed) is counted, not judged (C03); the validated attribute dictionary of a route is not part of the model`s output. When a spec has several violations and the model`s order of stages meets another one first than the code (applied annotation vs type rule; route attribute vs the types of a later route or a redactor rule) both refuse and comp.compile counts the pair of kinds as not judged (comp.not_judged.two_violations_other_stage_first). Not judged: booleans used as numeric arguments, null for an optional argument, min > max for '
         'numeric bounds, indentation of the first line of a file, which of several errors is reported, Void as a List / '
         'Map element, whether a String pattern must cover the whole example string or only a prefix, a non-string where '
         'a Timestamp is expected, a `:type:` / `:field:` reference through an alias of a struct, the case of a reference tag, '
         'doc references inside strings that document no API element (annotation types, their parameters, example texts), '
         'nesting beyond the recursion limit of the interpreter. Several patches of one type are legal (all are applied); only a member added twice is injected. '
         'Catalogue entries without an injector are listed in the evidence (rules_unbuilt). Exceptions other than '
         'InvalidSpec met on the way are counted here and reported by C03.',
    technique='Lean 4 proof (accepted = legal for the compile model; component models) + translator + differential '
              'correspondence (model and rule set against the real compiler); by-construction / fault-injection testing '
              'for the end-to-end statement beyond the modelled subset',
    design='5 C01')


def run_corpus(ck):
    d = os.path.join(core.VERIF, 'corpus', ck.prop)
    for path in sorted(glob.glob(os.path.join(d, '*.json'))):
        rec = json.load(open(path))
        case = rec.get('case', rec)
        ck.stat('corpus.cases')
        v = fe_rules.compile_one([tuple(s) for s in case['specs']])
        if case.get('expect') == 'refused' and v['k'] == 'ok':
            ck.failing_input(rec.get('what', 'C01: an illegal spec is accepted'), rec.get('signature', {'kind': 'accepted'}), case)
        elif case.get('expect') == 'accepted' and v['k'] == 'spec':
            ck.failing_input(rec.get('what', 'C01: a legal spec is refused'), rec.get('signature', {'kind': 'refused'}), case)


def run(ck):
    ck.build_and_audit(extra_props=['C01Compile'])
    run_corpus(ck)
    # `Legal` (the order-free rule set of the compile model) against the real compiler's accept / refuse
    try:
        fe_compile.suite_compile(ck, legal_report=True)
    except RuntimeError as e:
        ck.broken.append({'kind': 'correspondence', 'name': 'comp.legal', 'detail': str(e)[:600]})
    fe_rules.suite_valid(ck)
    fe_rules.suite_violations(ck)
    fe_rules.suite_params(ck, report='C01')
    fe_rules.suite_names(ck, report='C01')
    fe_rules.suite_annargs(ck, report='C01')
    fe_rules.suite_exvalues(ck, report='C01')
    fe_rules.suite_sites(ck, report='C01')
    fe_rules.suite_docrefs(ck, report='C01')
    ck.assumptions.extend([
        'identifiers and namespace names are ASCII ([a-zA-Z_][a-zA-Z0-9_-]*; no "/" in a namespace name), so str.lower is Char.toLower',
        'the empty pattern compiles (re.compile("")); whether any other pattern compiles is asked of CPython',
        'argument lists come from the parser: literals, null, or type references (resolved before the outer reference)',
    ])
    ck.note('accepted = legal is PROVED for the compile model (type graph) and its rule set is compared with the real '
            'compiler (comp.legal); for everything the model leaves out (docs, examples, '
            'default values) acceptance / refusal of whole specs is evaluated by testing')
    return ck.finish(rule=fe_rules.RULE)


def replay(ck, path):
    rec = json.load(open(path))
    case = rec.get('case') or {}
    if case.get('suite') == 'comp.legal':
        return fe_compile.replay_legal(ck, case)
    return fe_rules.replay(ck, path)
