"""C10 - accepted defaults and computed examples are valid for the generated classes."""
from harness.suites import defaults_examples as de

MANIFEST = dict(
    text='Lean 4 model of the compile-time side (ir_generator._create_struct_field / _populate_field_defaults, data_types.<Type>.check '
         'and .check_example, the reference-free part of Struct._add_example_helper / _compute_example_flat_helper and of '
         'Union._add_example / _compute_example, python_types._generate_python_value and the class tables python_types generates) next '
         'to the committed model of the Python runtime. Proved for all inputs: (default_valid_partial, default_valid_nopattern) a '
         'default the compile-time check accepts is accepted by the validator the generated class has for the field and comes back '
         'unchanged (a number in a float position as that float); (default_tag_valid) a tag default is the ready instance of the class '
         'declaring the tag and passes validate_type_only of the field\'s union validator, also when the tag is inherited; '
         '(default_read, default_read_generated) an unset defaulted field reads as exactly that value and the generated attribute is '
         'never nullable; (default_assign_partial) assigning it back is accepted; (default_float_coerced) literal Float fields store a '
         'float; (default_bounds_agree) compile-time and runtime width tables, both extracted by the translator, coincide; '
         '(checkDefault_no_crash, example_check_no_crash) since the frontend repairs the compile-time checks of a default and of '
         'an example end in acceptance or in a spec error for every type, literal and example value, '
         '(default_refused_composite, default_union_literal_refused, default_type_shape) a default on a List / Map / struct field, '
         'on an alias of Void or of a nullable type, and a literal on a union field being spec errors; '
         '(example_roundtrip_partial, example_roundtrip_wire_partial, example_union_roundtrip_partial) the document computed for a '
         'reference-free example over scalar members decodes strictly (json_compat_obj_decode) and json_compat_obj_encode gives its '
         'members back; (example_union_null_struct_roundtrip) a union example `t = null` for a member of nullable struct type is '
         'accepted, is the tag alone, and round-trips. The full statements are FALSE of the code for Timestamp / Bytes defaults; the excluded '
         'cases are proved as witnesses on the model (default_timestamp_witness / default_bytes_witness: the default stays text) and '
         're-found on the real code by the direct oracle. Since the repairs of String.check (fullmatch), _BoundedInteger / '
         '_BoundedFloat.check (no booleans, integers only when they convert to a double exactly) and Bytes.check_example (canonical '
         'base64) the model asks the runtime\'s own pattern test, default_valid_partial no longer assumes a pattern law, and '
         'default_pattern_witness / example_bool_for_int_witness are regression statements: the compiler refuses those inputs. Tied to the code by differential runs (real compiler, real generated classes, real '
         'serializer vs the compiled model) on a fixed grid of one-field / one-member specs (types x literals around every bound), '
         'random struct chains, hand-written seeds and generated specs; the direct oracle evaluates the property itself on the real '
         'artefacts for every defaulted field (read on an instance of the declaring class and of every class that inherits it) '
         'and every example label (nested references, lists / maps of references, subtypes, '
         'unions of structs, inherited fields are covered by the oracle only: reference grid = shape of the referenced type x '
         'container x position of the member x declaration order; shape grid = number of members / tags / references of '
         'union and subtype-tree examples against the documented verdict); the compact form of every example '
         '(get_examples(compact=True)) must decode strictly and encode to the full form, and get_examples() read again after the '
         'compact form has been read (twice) in the same process must hand out the same document, which must still decode '
         'strictly and encode back to itself (observed by testing: readings of a stored example are not modelled); a default '
         'is compared with the value of the IR and with the literal the parser read from the spec (numbers by exact value, so '
         'an integer literal on a float field that no double holds cannot pass as its rounded neighbour).',
    note='Trusted: Lean kernel, translator, correspondence generators, CPython re / float() / strptime / base64 as external calls '
         '(tables computed by the harness with the reference libraries). Hypotheses the proofs need and the driver evaluates on every '
         'real environment: unionsAgree / envWF / envWFX / tyKnown. Not judged: the implicit example of a catch-all tag and, by '
         'the same token, an example document that embeds a catch-all tag because the spec writes it explicitly (`f = other`): '
         'it is what a receiver may meet from a newer sender, never what a sender of this spec produces, and the strict decoder '
         'refuses it by design (counted in example.embeds_catch_all_not_judged, seed corpus/C10/example-embeds-catch-all.json); '
         'specs for which '
         'python_types cannot produce an importable module for reasons unrelated to defaults (counted); key order of example '
         'documents (JSON objects). Examples of types with members omitted for a caller class are decoded and encoded with every '
         'declared caller permission. An example whose text is a non-canonical spelling of its value (`true` for a number, an '
         'integer that is not a float, "2020-1-5" for %Y-%m-%d, base64 with stray bits) IS judged: the statement says "encodes '
         'back to the same document". corpus/C10/*.json (one minimal spec per listed finding plus the inputs the frontend '
         'repairs made legal) is evaluated with the direct oracle before the random part of every run. What the grids take for '
         'granted of the compiler (the fixed prelude compiles, every grid type is / is not a legal struct field type, the seed '
         'specs build) is itself compared (suites decl.ircheck.grid_prelude / grid_types / flat_base / seed_specs): a tree whose '
         'compiler refuses it shows as a disagreement, not as an infrastructure failure.',
    technique='Lean 4 proof + translator-extracted tables + differential correspondence + direct oracle on generated classes',
    design='5 C10')


def run(ck):
    import time
    timings = {}

    def timed(name, f, *a):
        t0, c0 = time.time(), time.process_time()
        r = f(*a)
        timings[name] = [round(time.time() - t0, 1), round(time.process_time() - c0, 1)]      # wall, cpu of this process
        return r
    timed('build_and_audit', ck.build_and_audit)
    timed('corpus', de.suite_corpus, ck)
    timed('default_grid', de.suite_default_grid, ck)
    timed('example_grid', de.suite_example_grid, ck)
    timed('example_shapes', de.suite_example_shapes, ck)
    timed('reference_grid', de.suite_reference_grid, ck)
    timed('flat_examples', de.suite_flat_examples, ck, ck.scale(150, 2500))
    builts = timed('build_generated', de.build_generated, ck,
                   [('rt', ck.scale(25, 200)), ("default", ck.scale(25, 200)), ("fe", ck.scale(30, 300))])
    timed('spec_defaults', de.suite_spec_defaults, ck, builts)
    timed('spec_examples', de.suite_spec_examples, ck, builts)
    for k, n in de.REREAD_STATS.items():
        ck.stat('example.' + k, n)
    ck.assumptions.extend([
        'the compile-time description sent to the model (CApi) is read from the IR objects by the harness (field order, defaults, '
        'tag types); the class tables the model derives from it (envOfC) are compared with the real classes only through behaviour '
        '(default values, validator verdicts, decoding and encoding of examples)',
        'string lengths are counted in code points on both sides; inputs of the grid are BMP text without surrogates',
    ])
    ck.note('the former crash sites of the compiler on defaults / examples (NotImplementedError, TypeError / OverflowError from '
            'float(), AssertionError in Union.check, ValueError in Map.check_example, TypeError in Union._compute_example) are '
            'spec errors or accepted inputs since the repairs of notes/c03_fix_notes.md; the model follows and any exception other '
            'than InvalidSpec escaping the compiler now shows as a correspondence disagreement (the model never answers crash)')
    return ck.finish(rule=de.RULE, extra_cov={'suite_seconds_wall_cpu': timings})


def replay(ck, path):
    return de.replay(ck, path)
