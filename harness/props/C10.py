"""C10 - accepted defaults and computed examples are valid for the generated classes."""
from harness.suites import defaults_examples as de

MANIFEST = dict(
    text='Lean 4 model of the compile-time side (ir_generator._create_struct_field / _populate_field_defaults, data_types.<Type>.check '
         'and .check_example, the reference-free part of Struct._compute_example_flat_helper / Union._compute_example, '
         'python_types._generate_python_value) next to the committed model of the Python runtime. Proved for all inputs: a default the '
         'compile-time check accepts is accepted unchanged by the validator the generated class gets for the field (numbers in float '
         'positions come back as floats), by validate_type_only for tag defaults (also when the tag is inherited from a parent union), '
         'and by assignment; reading an unset defaulted field gives the declared default; the compile-time and runtime width tables '
         '(extracted from both modules by the translator) coincide. The theorem needs two explicit hypotheses that are FALSE of the '
         'real code and are proved false on concrete witnesses: the compile-time pattern test (re.match: prefix) implies the runtime '
         'one (whole string), and the type is not Timestamp / Bytes (their defaults stay text). For examples: the flat example '
         'document of a struct over scalar fields decodes strictly and its wire form is a permutation of the document '
         '(example_roundtrip_partial); nested references, lists / maps of references, subtypes and unions of structs are covered by '
         'the direct oracle only. Tied to the code by differential runs (real compiler and real generated classes vs the compiled '
         'model) on a fixed grid of one-field specs, random struct chains and generated specs; the direct oracle evaluates the '
         'property on the real artefacts for every defaulted field and every example label.',
    note='Trusted: Lean kernel, translator, correspondence generators, CPython re / float() / strptime / base64 as external calls '
         '(tables computed by the harness with the reference libraries). Not judged: the implicit example of a catch-all tag; specs '
         'for which python_types cannot produce an importable module for reasons unrelated to defaults (counted). Examples of types '
         'with members omitted for a caller class are decoded and encoded with every declared caller permission.',
    technique='Lean 4 proof + translator-extracted tables + differential correspondence + direct oracle on generated classes',
    design='5 C10')


def run(ck):
    ck.build_and_audit()
    de.suite_default_grid(ck)
    de.suite_example_grid(ck)
    de.suite_flat_examples(ck, ck.scale(150, 2500))
    builts = de.build_generated(ck, [('rt', ck.scale(25, 200)), ("default", ck.scale(25, 200)), ("fe", ck.scale(30, 300))])
    de.suite_spec_defaults(ck, builts)
    de.suite_spec_examples(ck, builts)
    ck.assumptions.extend([
        'the compile-time description sent to the model (CApi) is read from the IR objects by the harness (field order, defaults, '
        'tag types); the class tables the model derives from it (envOfC) are compared with the real classes only through behaviour '
        '(default values, validator verdicts, decoding and encoding of examples)',
        'string lengths are counted in code points on both sides; inputs of the grid are BMP text without surrogates',
    ])
    ck.note('crash outcomes of the compiler (NotImplementedError for defaults on List / Map / struct fields, TypeError / OverflowError '
            'from float(), AssertionError in Union.check, ValueError in Map.check_example) are reproduced by the model as they are '
            'in /repo today; they are judged by C03, not here')
    return ck.finish(rule=de.RULE)


def replay(ck, path):
    return de.replay(ck, path)
