"""C20 - a route whitelist yields a dependency-closed, minimal API."""
import time

from harness.suites import graph


MANIFEST = dict(
    text='Lean 4 theorems over a graph model of a compiled Api (nodes = data types, aliases, routes): the reference closure '
         '(written from the property text: field types through lists / maps / nullables / aliases, parents, enumerated '
         'subtypes, unions of tag defaults, doc references, route signatures) is closed, least, monotone and reached within '
         '|nodes| rounds; a code-following model of IRGenerator._filter_namespaces_by_route_whitelist / '
         '_find_dependencies_recursive / parse_data_types_and_routes_from_doc_ref (same calls in the same order, the seen set, '
         '"*" expansion, name:version syntax, namespace docs and the datatype whitelist as starting points) retains exactly the '
         'data types and the routes of that closure (filter_eq_closure, filter_routes_eq_closure; side conditions refsOk / docsAgree / '
         'tagDefaultsOk, which the driver evaluates on every dump and which every dump of a compiled Api satisfies), never retains a '
         'data type outside it, keeps every whitelisted route and data type, keeps exactly the aliases whose '
         'whole target is retained and leaves no dangling reference (data types, routes and aliases). The former side conditions '
         'routeDocsClosed / seedDocRoutesKept and the failures of docsAgree named edge kinds the code did not follow (docs of routes kept '
         'because a doc mentions them, routes mentioned in route / namespace docs, inherited member docs read in the child namespace, '
         ':field: references through a namespace or an alias); the walk is repaired, the model follows it, the witnesses are kept as '
         'regression examples of the now-correct behaviour. Tied '
         'to the code by differential runs of specs_to_ir(..., route_whitelist_filter=wl) against the compiled model on a dump of '
         'the unfiltered Api, an independent Python reference closure on the unfiltered Api as direct oracle (whitelisted kept, '
         'closed, nothing outside, dangling-reference scan of the filtered Api incl. what get_route_io_data_types reports) and a '
         'fresh-interpreter import of python_types output for the filtered Api; inputs: hand-written specs, generated specs and '
         'an edge grid (every edge kind x written shape x holder x namespace, one root route per case whitelisted alone); the '
         'hand-written specs also through stone.cli.main --route-whitelist-filter FILE with a capturing backend.',
    note='Trusted: Lean kernel, correspondence generators (specgen + whitelist planner), the dump of the Api into the graph, '
         're (doc_ref_re) as an external component. The work bound of the dependency walk is not proved sufficient (the model '
         'reports exhaustion as an error; never observed). Route attributes, `deprecated by` routes, annotations and examples are '
         'outside the edge relation of the property and are not followed by either side. The import check is judged only when '
         'the module generated from the full Api imports.',
    technique='Lean 4 proof + differential correspondence + reference oracle + import of generated code',
    design='5 C20')


def run(ck):
    ck.build_and_audit()
    ck.assumptions.extend([
        'the unfiltered Api comes from the frontend: ids "ns.Name" / "ns.route:version" are unique, every reference names an '
        'item of the Api (refsOk, evaluated on every dump), parents and aliases are acyclic',
        'doc references are those found by doc_ref_re; whitelists are JSON objects of string lists',
    ])
    timings = {}
    t0 = time.time()
    graph.run_corpus(ck)
    sources = graph.hand_specs() + graph.generated_specs(ck, ck.scale(10, 90))
    graph.suite_filter(ck, sources)
    timings['filter'] = round(time.time() - t0, 2)
    t0 = time.time()
    graph.suite_edge_grid(ck)
    timings['edge_grid'] = round(time.time() - t0, 2)
    t0 = time.time()
    graph.suite_cli_whitelist(ck, sources)
    timings['cli'] = round(time.time() - t0, 2)
    t0 = time.time()
    graph.suite_linearize(ck, sources)
    timings['linearize'] = round(time.time() - t0, 2)
    ck.note('graph.linearize / graph.allfields / graph.normalize serve C02: their oracle failures are counted under '
            'stats graph.linearize.oracle_failure.* and are not violations of C20')
    return ck.finish(rule=graph.RULE, extra_cov={'suite_seconds': timings})


def replay(ck, path):
    return graph.replay(ck, path)
