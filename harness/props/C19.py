"""C19 - backends see exactly the routes and attributes the command line selects."""
import glob
import json
import os

from harness import core
from harness.suites import cli


MANIFEST = dict(
    text='Lean 4 theorems over a model of the filter-expression lexer / parser / evaluator (stone/cli_helpers.py), '
         'of the -w / -b / -f / -a blocks of stone.cli.main and of ApiNamespace.add_route: printed expression '
         'trees parse back to the reference meaning, `and` binds tighter than `or`, an absent attribute is null, '
         'every token sequence outside the grammar and every illegal character is reported, pruning keeps exactly '
         'the selected routes / attributes and keeps the by-name tables equal to the index of the route lists. '
         'Tied to the code by a translator (token regexes, KEYWORDS, precedence tuple, grammar docstrings, pinned by '
         '`rfl`) and by differential runs of the real parser and of stone.cli.main (capturing backend) against the '
         'compiled model, plus an independent Python reference evaluator / recogniser / pruner as direct oracle.',
    note='Trusted: Lean kernel, translator, correspondence generators, ply (lex/yacc) and argparse as external '
         'components reproduced by the model and compared on every run. The model is claimed for ASCII input outside '
         'string literals and for numbers where IEEE rounding is not observable (<= 15 significant digits, '
         'integers < 2^53); comparisons across literal kinds and string literals with backslashes are not judged. '
         'malformed_reported is relative to the lexer model (tokenisation is tied by correspondence only). '
         'The model has one spelling of the command line; that the selection does not depend on HOW it is written '
         '(short / long / --opt=value options, before or after the positionals, spec as files / stdin / --recursive '
         'folder, -v, arguments for the backend behind `--`, a name given twice) is observed by testing: every run '
         'draws these and is compared with the same model answer and the same reference. Not exercised: -vv (turns on '
         'ply debug files written next to the package), -r (C20), built-in backends.',
    technique='Lean 4 proof + translator + differential correspondence + reference oracle',
    design='5 C19')


def run_corpus(ck):
    """minimised past failures / hand seeds (corpus/C19/*.json, the `case` format of replay files) first"""
    d = os.path.join(core.VERIF, 'corpus', ck.prop)
    for path in sorted(glob.glob(os.path.join(d, '*.json'))):
        rec = json.load(open(path))
        case = rec.get('case', rec)
        ck.stat('corpus.cases')
        if case.get('suite') == 'cli.prune':
            root = core.scratch('stone-verif-c19-corpus-')
            env = cli.PruneEnv(os.path.join(root, 's'), case['files'])
            ftree = cli._tree_of_json(case['filter_tree']) if case.get('filter_tree') else None
            res = env.run_main(case['opts'])
            for what, sig, detail in cli.judge_prune(env, case['opts'], ftree, case.get('filter_wellformed', True), res):
                ck.failing_input(what, sig, dict(case, detail=detail))
        elif case.get('suite') == 'cli.filter' and case.get('tree'):
            tree = cli._tree_of_json(case['tree'])
            attrs = {k: cli._dec(v) for k, v in case.get('attrs', [])}
            problems, _info = cli.judge_filter_case(case['text'], tree, [attrs])
            for what, sig, detail in problems:
                ck.failing_input(what, sig, dict(case, **detail))


def run(ck):
    import time
    phases = {}

    def timed(name, f):
        t = time.time()
        f()
        phases[name] = round(time.time() - t, 1)
    timed('build+audit (incl. waiting for the shared build lock)', ck.build_and_audit)
    timed('corpus', lambda: run_corpus(ck))
    timed('cli.filter', lambda: cli.suite_filter(ck))
    timed('cli.malformed', lambda: cli.suite_malformed(ck))
    timed('cli.lex', lambda: cli.suite_lex(ck))
    timed('cli.prune', lambda: cli.suite_prune(ck))
    ck.dist['phase_seconds'] = phases
    ck.assumptions.extend([
        'input of the filter lexer is ASCII outside string literals (Python regexes are Unicode aware)',
        'numeric literals and attribute values stay where IEEE rounding is not observable by == '
        '(<= 15 significant digits, |exponent| <= 200, integers < 2^53)',
        'the unpruned Api comes from the frontend: (name, version) unique per namespace, by-name tables built by add_route, '
        'route schema field names distinct',
    ])
    ck.note('not judged by the oracle: comparisons across literal kinds, string literals containing a backslash, '
            '`-f ""` (empty option value = no filter in cli.main)')
    return ck.finish(rule=cli.RULE)


def replay(ck, path):
    return cli.replay(ck, path)
