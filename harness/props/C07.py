"""C07 - backwards-compatible changes keep peers interoperable."""
from harness.suites import compat

MANIFEST = dict(
    text='Lean 4 theorems over the model of the Python JSON decoder (Model/Rt) and a specification-level model of '
         'docs/evolve_spec.rst (Model/Rt/Compat.lean: a one-to-one correspondence rho between the class references of an older '
         'spec A and a newer spec B; subB = every related pair of classes differs only by listed compatible changes - added '
         'optional / defaulted fields, tags added to open unions, Void tags given a type, subtypes added under catch-all roots, '
         'renamings; aliases are invisible in validator trees). Proved for ALL environments, types, nestings and documents: '
         '(forward_compat_msg) every document B\'s decoder accepts - in particular everything B\'s encoder writes - is accepted by '
         'A\'s lenient decoder as the A-view of the decoded value (unknown fields dropped, unknown tags read as the catch-all, '
         'unknown subtypes read as the base struct, payloads of tags that are Void in A ignored); (strict_rejects_iff) for '
         'documents without repeated keys A\'s strict decoder fails, and then by the validation error only, exactly when the '
         'document contains something A does not know (knownDoc); (backward_compat_msg) every document in A\'s encoder form that A\'s decoder accepts and that uses '
         'no Void-to-required tag is accepted by B\'s decoder in both modes as the same value with the new fields unset '
         '(reads give None / the declared default). Wire-form corollaries (*_partial) take the sender\'s own round trip (C04/C05) '
         'as a hypothesis. Tied to the code by pairs (A, B = A + 1-4 random compatible edits, also at sites reached only through '
         'nesting) compiled, generated and imported by the real toolchain: the hypotheses (envWF, inherited descriptors, '
         'compatEnv, tySub) are evaluated by the compiled model on every pair, and real decode_A(encode_B(v)), '
         'decode_B(encode_A(v)) in both modes are compared with the model\'s decode / view / lift / mentionsUnknown / knownDoc / '
         'tightDoc / nvrDoc, and judged by an independent Python reading of the property (A-view, lift, unknown content of '
         'the message, read-back of every field including defaults).',
    note='Trusted: Lean kernel; correspondence generators (pair generator + value generators); the independent oracle of the '
         'harness. Not proved (observed by testing on every case): the step from a value to its wire form (round trip of the '
         'sender, C04; encoder form of the sender\'s output; value-level mentionsUnknown / noVoidToRequired = message-level '
         'knownDoc / nvrDoc of the encoding). sub_refl and sub_trans are proved (multi-edit pairs are additionally checked by evaluating '
         'compatEnv on the whole pair). strict_rejects_iff uses C06\'s decode_no_crash. Alias edits are generated only at sites '
         'where the generated bb.Attribute(nullable=, user_defined=) flags do not change (union tag types, route types, '
         'below List / Map, non-nullable non-user field types). Values containing the documented ambiguity D7 (nullable '
         'all-optional struct member with nothing set, C04 finding) and Void-to-required tags (not promised by the guide) are '
         'counted, not judged.',
    technique='Lean 4 proof (simulation between the two decoders, induction over the document) + differential correspondence '
              'on spec pairs + direct oracle',
    design='5 C07')


def run(ck):
    ck.build_and_audit()
    compat.suite_pairs(ck, ck.scale(32, 90), ck.scale(6, 8), ck.scale(10, 20))
    ck.assumptions.extend([
        'class references of the two specs correspond one to one (rho); every pair is a listed compatible change (compatEnv)',
        'both environments: envWF (accepted specs), envWFX / envWFU (subclasses inherit their ancestors\' attribute descriptors)',
        'wire-form corollaries: the sender reads its own message back (C04 round trip), caller without special permissions',
    ])
    return ck.finish(rule=compat.RULE)


def replay(ck, path):
    return compat.replay(ck, path)
