"""C07 - backwards-compatible changes keep peers interoperable."""
from harness.suites import compat

MANIFEST = dict(
    text='Lean 4 theorems over the model of the Python JSON decoder (Model/Rt) and a specification-level model of '
         'docs/evolve_spec.rst (Model/Rt/Compat.lean: a one-to-one correspondence rho between the class references of an older '
         'spec A and a newer spec B; subB = every related pair of classes differs only by listed compatible changes - added '
         'optional / defaulted fields, tags added to open unions, Void tags given a type, subtypes added under catch-all roots, '
         'renamings; aliases are invisible in validator trees). Proved for ALL environments, types, nestings and values, in the '
         'wire form of the property: (forward_compat) for every valid value v of B, A\'s lenient decoder accepts the message B '
         'writes for v and builds the A-view of the value B itself reads back (equal to v under ==; forward_compat_eq) - unknown '
         'fields dropped, unknown tags read as the catch-all, unknown subtypes read as the base struct, payloads of tags that are '
         'Void in A ignored; (strict_accepts_known_wire, strict_rejects_iff) A\'s strict decoder accepts that message when it '
         'contains nothing A does not know, and for documents without repeated keys fails, by the validation error only, exactly '
         'when it does (knownDoc); (backward_compat) for every valid value v of A that uses no tag that is Void in A and '
         'non-nullable in B (noVoidToRequired), B\'s decoder accepts, in both modes, the message A writes for v and builds the '
         'same value with the new fields unset (reads give None / the declared default; backward_compat_eq). They rest on the '
         'message-level theorems forward_compat_msg / backward_compat_msg (every document the other decoder accepts, no '
         'hypothesis on values), on C04\'s round-trip theorem for the sender, and on wire_tight / wire_nvr (the sender\'s own '
         'message is in encoder form, and the message-level nvrDoc of it equals the value-level noVoidToRequired: an induction '
         'over the wire form). void_to_required_witness shows the noVoidToRequired hypothesis is necessary. '
         'Tied to the code by pairs (A, B = A + 1-4 random compatible edits, also at sites reached only through '
         'nesting) compiled, generated and imported by the real toolchain: every decidable hypothesis (envWF, inherited '
         'descriptors, compatEnv, tySub; envRT, valid, normal, valWF, ambiguousEmpty, noVoidToRequired) is evaluated by the '
         'compiled model on every pair / value and the share of cases inside the theorems\' domain is recorded; inside the '
         'domain the REAL decode_A(encode_B(v)) (lenient) and decode_B(encode_A(v)) (both modes) are compared with the theorems\' '
         'right-hand sides view(canon v) / lift(canon v) as the model evaluates them (compat.theorem.forward / .backward); on all '
         'cases real decoding in both modes is compared with the model\'s decode / view / lift / mentionsUnknown / knownDoc / '
         'tightDoc / nvrDoc / ambiguousEmpty, and judged by an independent Python reading of the property (A-view, lift, unknown '
         'content of the message, read-back of every field including defaults).',
    note='Trusted: Lean kernel; correspondence generators (pair generator + value generators); the independent oracle of the '
         'harness. Assumed by the wire-form theorems (decidable ones evaluated on every case, see the '
         'compat.theorem.*.domain histograms): the domain conditions of C04\'s round trip on the sender\'s side - envRT (excludes '
         'the C04 finding "explicit default on a field whose validator has an implicit one"), valid and stored-normal value, '
         'valWF (unique slot / key names, exact class at Struct positions, no catch-all tag, representable timestamps), not the '
         'documented ambiguity D7 (nullable all-optional struct member with nothing set) - and ExtLaws (base64 round trip, '
         'irreflexive float <, == reflexive on declared defaults: the last one is decidable and evaluated, the first two are '
         'facts about CPython); for backward_compat additionally noVoidToRequired, the documented limit of "giving a Void tag a '
         'type" (the guide does not promise that direction; witness proved). Not proved (observed by testing on every case): '
         'that the real encoder writes `wire` (C05 proves it for the model\'s encoder); value-level mentionsUnknown = '
         'message-level knownDoc of the encoding (so strict_rejects_iff stays in message form). forward_compat_partial / '
         'backward_compat_partial are the earlier forms with the sender\'s round trip as a hypothesis; they are kept (no '
         'hypothesis on the value) and are subsumed on C04\'s domain. sub_refl and sub_trans are proved (multi-edit pairs are additionally '
         'checked by evaluating compatEnv on the whole pair). strict_rejects_iff uses C06\'s decode_no_crash. Alias edits are '
         'generated only at sites where the generated bb.Attribute(nullable=, user_defined=) flags do not change (union tag '
         'types, route types, below List / Map, non-nullable non-user field types). Values outside the domain (D7, '
         'Void-to-required tags, values not in stored form) are counted, not judged against the theorems.',
    technique='Lean 4 proof (simulation between the two decoders, induction over the document; induction over the wire form of '
              'good values; composition with C04\'s round trip) + differential correspondence on spec pairs, including the '
              'theorems\' conclusions against the real decoders inside their domain + direct oracle',
    design='5 C07')


def run(ck):
    ck.build_and_audit()
    compat.suite_pairs(ck, ck.scale(32, 90), ck.scale(6, 8), ck.scale(10, 20))
    ck.assumptions.extend([
        'class references of the two specs correspond one to one (rho); every pair is a listed compatible change (compatEnv)',
        'both environments: envWF (accepted specs), envWFX / envWFU (subclasses inherit their ancestors\' attribute descriptors)',
        'wire-form theorems (forward_compat, backward_compat): the domain of C04\'s round trip on the sender\'s side (envRT, valid, '
        'stored-normal, valWF, not the documented ambiguity D7, ExtLaws), caller without special permissions',
        'backward_compat: noVoidToRequired (a tag that is Void in A and non-nullable in B is the documented limit, not promised)',
    ])
    return ck.finish(rule=compat.RULE)


def replay(ck, path):
    return compat.replay(ck, path)
