"""C07 - backwards-compatible changes keep peers interoperable."""
from harness.suites import compat

MANIFEST = dict(
    text='(in progress)',
    note='(in progress)',
    technique='Lean 4 proof + differential correspondence on spec pairs + direct oracle',
    design='5 C07')


def run(ck):
    ck.build_and_audit()
    compat.suite_pairs(ck, ck.scale(24, 700), ck.scale(6, 10), ck.scale(10, 24))
    return ck.finish(rule=compat.RULE)


def replay(ck, path):
    return compat.replay(ck, path)
