"""C02 - the API description is a faithful, closed image."""
import glob
import json
import os
import time

from harness import core
from harness.suites import faithful
from harness.suites import fe_compile


MANIFEST = dict(
    text='Three techniques, labelled. (PROVED, ordering) Lean 4 theorems over a model of the ordering algorithms of '
         'stone/ir/api.py and stone/ir/data_types.py - `linearize_data_types` / `linearize_aliases` (depth-first with a seen '
         'set), `Api.normalize` / `ApiNamespace.normalize`, `Struct.all_fields` / `all_required_fields` / '
         '`all_optional_fields`, `Union.all_fields`: a linearization is a permutation of the namespace`s list and puts every '
         'same-namespace parent before its child and every alias that IS the target of another alias before it (nothing is '
         'proved - and a Lean witness shows nothing holds - for an alias mentioned inside List / Map / Nullable), `normalize` '
         'leaves namespaces, routes (name, then version), data types and aliases sorted, `all_fields` is the required fields '
         'of the ancestors-then-own followed by the optional ones. Tied to the code by differential runs of the REAL '
         'functions against the compiled model (graph.linearize / graph.normalize / graph.allfields). '
         '(PROVED, the type graph) Lean 4 theorems (Props/C02Compile.lean) over `compile`, a model of the core of '
         'stone/frontend/ir_generator.py that follows `generate_IR` pass by pass - registration with '
         '`_check_canonical_name_available`, `_add_imports_to_env`, `_populate_type_attributes` (aliases, then the '
         'depth-first on-demand population of parents with `_resolution_in_progress`, `_resolve_type` / `_resolve_args` / '
         '`_instantiate_data_type`, `UserDefined.set_attributes`, `Alias.set_attributes`, the implicit `other`), `_merge_patches` (the members of a patch are appended to the declaration with its canonical name), the type '
         'tests of `_populate_field_defaults`, `_populate_enumerated_subtypes` / `set_enumerated_subtypes`, the three types '
         'and `deprecated by` of routes - with one explicit error kind per `InvalidSpec` site. For every input on which '
         'the model succeeds: `compile_eq_denote` (the Api equals `denote`, a specification-level reading of the '
         'declarations written from docs/lang_ref.rst that knows nothing of passes, forward references or file order), '
         '`fields_faithful` (namespace by namespace, type by type, member by member in declaration order: exactly the '
         'declared members with the type their declared expression denotes, plus only the implicit `other` of unions '
         'declared open; aliases likewise), `api_closed` (every (namespace, name) mentioned by a member / alias / route '
         'type through List / Map / Nullable, by a parent link or an enumerated-subtype link is a data type resp. alias '
         'the Api holds in that namespace), `api_acyclic` (no type is its own ancestor; no alias is reached from its own '
         'target through aliases / List / Map / Nullable), `compile_order_independent_partial` (two accepted inputs with '
         'the same declarations per namespace - other files, other order - give every (namespace, name) the same type '
         'and alias). The model is tied to the code by suite comp.compile: spec texts '
         '(generated models, one-violation injections of harness/inject.py, one hand-written seed per modelled error site, '
         'text mutants) are parsed by the REAL parser, the partial ASTs - what IRGenerator is constructed with - are '
         'reduced to the model`s input and compiled by the model; the same texts go through the real specs_to_ir; accepted: '
         'the two Apis (types, parents, members with full type expressions and arguments, catch-all, aliases, routes, '
         'enumerated subtypes) must be equal; refused: the kind of the real InvalidSpec (message-template table) must be '
         'the model`s, when the real message belongs to a modelled site. The hypothesis of the theorems (`compile = ok`) '
         'and their decidable conclusions (closed, = denote) are evaluated by the driver on every case. '
         '(TESTED, not proved) Everything the compile model leaves out - docs, defaults` values, annotations, examples, '
         'the examples of patches, the validated attribute dictionaries of routes, versions` bookkeeping, the implicit members other than `other` - is decided by '
         'differential testing against a second implementation: harness/expected.py computes an independent reference image '
         'from the generating model (never from stone), harness/apisig.py dumps the real Api, and the two are compared '
         'field by field for every generated model under the reference layout, a random layout and with the namespace doc '
         'spread over the files. Closure (THE object registered under its name), acyclic inheritance and aliasing, the '
         'all_fields listings and the orders are also evaluated as invariants on the real objects of every accepted Api '
         '(generated models, seeds, accepted text mutants, every accepted case of comp.compile), and the declared members / '
         'parents / alias targets of the parsed AST are compared with the real objects directly (judge_members), as is the attribute dictionary of every route (one entry per member of stone_cfg.Route, inherited ones included: the declared value - tag reference, encoded Bytes, parsed Timestamp -, else the default, else None).',
    note='Trusted: Lean kernel, the correspondence harness, the REAL lexer / parser as the producer of the compile model`s '
         'input (the model starts where IRGenerator starts; what the parser drops is caught by the reference-image '
         'comparison, C11 / C03 are about the parser), harness/specgen.py (model -> text renderer), harness/apisig.py, '
         'harness/expected.py (the reference reading). The compile model leaves out, and its theorems say nothing about: '
         'docs and doc references, the effect of applied annotations on the image (deprecated / preview / omitted / '
         'redactor flags and the injected doc texts; their legality IS modelled, see C01), '
         'examples (also those a patch adds), the validated attribute dictionary of a route (the legality of route attributes and '
         'of stone_cfg IS modelled, see C01; stone_cfg leaves the Api and is dropped from both dumps), the value of a default (C10), `Api.normalize` (covered by the '
         'ordering theorems). Type references with mixed literal / type positional arguments or a type passed by keyword '
         'are outside its input (counted, skipped). The arguments of the built-in types are C01`s model '
         '(FeParams.instantiate), used as given by both `compile` and `denote`; `ns.List(T)` reads its arguments in `ns` in '
         'both (the code re-binds the environment; the language reference is silent). The alias-cycle search is modelled '
         'without Python`s visited set and the recursions run on explicit fuel; running out is an explicit error, never a '
         'verdict: for the depth-first population (`outOfFuel`, fuel = number of type declarations + 1) '
         '`populate_fuel_sufficient` proves it does not occur; for the walks along alias chains, ancestors and imports '
         '(`fuelAlias` / `fuelAncestors` / `fuelImports`) and the impossible states (`internal`) it is observed by the '
         'correspondence suite (a model answer of that kind is a disagreement), not proved. Error kinds are '
         'compared, never messages; `Namespace .. is not imported` / `.. is not a namespace` are also raised by unmodelled '
         'annotation sites and are not judged when the model disagrees. compile_error_iff (a decidable Legal) and order '
         'independence of acceptance are not proved; order independence of the RESULT follows from compile_eq_denote only '
         'up to the listing order. Not judged by the reference-image comparison: the wording of the warnings injected into '
         'docs of Deprecated / Preview / Omitted members, example values and texts (C10), the order of annotation types and '
         'of Struct.subtypes, recursive_custom_annotations, key order of route.attrs and of CustomAnnotation.kwargs, '
         'int-vs-float kind of annotation arguments and attribute values, the text / bytes / datetime representation of '
         'Bytes and Timestamp attribute values, whether a tag reference names the union or the alias the member was '
         'declared with, imported-namespace views other than `must_have_imported_data_type`.',
    technique='Lean 4 proof + differential correspondence (ordering algorithms; the IR generator`s type graph: faithfulness, '
              'closure, acyclicity); differential testing against an independent reference implementation + invariant '
              'checking on the real compiler (everything else)',
    design='5 C02, 10.4')

RULE = ('proof: every theorem of Props/C02.lean and Props/C02Compile.lean accepted with allowed axioms and 0 disagreements in '
        'graph.linearize / graph.normalize / graph.allfields / comp.compile / comp.theorem_instances. testing: for every compiled rendering the apisig signature equals the reference '
        'image of its model on every key the image fixes (first differing path = failing input); on every accepted Api '
        '(generated, seeds, accepted text mutants) the closure, acyclicity, all_fields and ordering invariants hold.')


def _timed(ck, name, f, *a, **kw):
    t = time.time()
    try:
        return f(*a, **kw)
    finally:
        ck.stats['seconds.%s' % name] = round(time.time() - t, 1)


def run_corpus(ck):
    """minimised past failures / hand seeds (corpus/C02/*.json, the `case` format of replay files) first"""
    d = os.path.join(core.VERIF, 'corpus', ck.prop)
    for path in sorted(glob.glob(os.path.join(d, '*.json'))):
        rec = json.load(open(path))
        case = rec.get('case', rec)
        ck.stat('corpus.cases')
        _quiet(faithful.replay_case, ck, case)


def _quiet(f, *a):
    import contextlib
    import io
    with contextlib.redirect_stdout(io.StringIO()):
        return f(*a)


def _invariant_signature(sig):
    """signature of a graph.linearize oracle failure in the vocabulary of faithful.judge_invariants"""
    k = sig.get('kind')
    if k == 'alias-target-after-alias':
        return {'kind': 'invariant', 'inv': 'linearize', 'list': 'aliases', 'problem': 'target-after-alias',
                'through': sig.get('through', 'direct')}
    if k == 'parent-after-child':
        return {'kind': 'invariant', 'inv': 'linearize', 'list': 'data_types', 'problem': 'parent-after-child'}
    if k == 'linearize-types-not-permutation':
        return {'kind': 'invariant', 'inv': 'linearize', 'list': 'data_types', 'problem': 'not-permutation'}
    if k == 'linearize-aliases-not-permutation':
        return {'kind': 'invariant', 'inv': 'linearize', 'list': 'aliases', 'problem': 'not-permutation'}
    if k == 'unsorted':
        return {'kind': 'invariant', 'inv': 'sorted', 'list': sig.get('list')}
    if k == 'all-fields-order':
        lst = sig.get('list')
        return {'kind': 'invariant', 'inv': 'all-fields', 'list': 'all_fields' if lst == 'all_fields' else 'required/optional'}
    s = dict(sig)
    s['suite'] = 'graph.linearize'
    return s


def run(ck):
    _timed(ck, 'build_and_audit', ck.build_and_audit, extra_props=['C02Compile'])
    _timed(ck, 'corpus', run_corpus, ck)

    # ordering algorithms: correspondence of the real functions with the Lean model (the colleague's suite); its direct
    # oracles report into this property
    try:
        from harness.suites import graph
        suite_linearize = getattr(graph, 'suite_linearize', None)
    except Exception as e:      # noqa: BLE001
        suite_linearize = None
        ck.note('harness.suites.graph cannot be imported (%s): graph.linearize correspondence skipped' % type(e).__name__)
    if suite_linearize is None:
        ck.note('graph.suite_linearize is not available: the tie of the Lean ordering model to the code was not run')
    else:
        def judge(what, sig, case):
            # the same failure found by suite_invariants carries the same signature (one finding, not two)
            ck.stat('graph.linearize.oracle_failure.' + str(sig.get('kind', '?')))
            ck.failing_input('C02: ' + what, _invariant_signature(sig), case)
        try:
            _timed(ck, 'graph.linearize', suite_linearize, ck, None, judge)
        except RuntimeError as e:
            # driver missing / op unknown: an infrastructure gap of the Lean side, not a verdict on stone
            ck.broken.append({'kind': 'correspondence', 'name': 'graph.linearize', 'detail': str(e)[:600]})

    # the Lean model of the IR generator's core against the real IRGenerator (+ direct oracles on the real objects)
    try:
        _timed(ck, 'comp.compile', fe_compile.suite_compile, ck)
    except RuntimeError as e:
        ck.broken.append({'kind': 'correspondence', 'name': 'comp.compile', 'detail': str(e)[:600]})

    apis = _timed(ck, 'faithful', faithful.suite_faithful, ck, ck.scale(40, 400))
    _timed(ck, 'invariants', faithful.suite_invariants, ck, apis, n_mut_models=ck.scale(80, 400), n_mut=ck.scale(15, 20))
    ck.assumptions.extend([
        'the inputs are the renderings of harness/specgen.py models (legal by construction), hand-made seed models and '
        'hand-written texts; for accepted text mutants only the invariants are evaluated (no model to compare with)',
        'the generator keeps the namespace doc in one file; the several-files case is derived by inserting docs into the '
        'other files of the reference rendering',
        'gaps of the generator (see harness/specgen.py): identifiers with `-`, `= null` defaults, nested definitions deeper '
        'than one level, import cycles, `@other_ns.Custom` annotations, two positional custom-annotation arguments',
    ])
    ck.note('the type graph (members, parents, aliases, routes` types, enumerated subtypes: faithfulness, closure, acyclicity) is '
            'PROVED for the compile model and tied to the code by comp.compile; docs, defaults, annotations, examples, '
            'and the attribute dictionaries of routes are DIFFERENTIAL / INVARIANT TESTING against harness/expected.py, not a proof')
    nj = {k[len('faithful.not_judged.'):]: v for k, v in ck.stats.items() if k.startswith('faithful.not_judged.')}
    if nj:
        ck.note('observed and not judged (renderings affected): %s' % json.dumps(nj, sort_keys=True))
    return ck.finish(level='proof+testing', rule=RULE)


def replay(ck, path):
    rec = json.load(open(path))
    print('replay of %s: %s' % (path, rec.get('what', rec.get('broken', ''))))
    if rec.get('no_failing_input_found'):
        print(json.dumps(rec.get('broken'), indent=1)[:3000])
        print('(no failing input recorded: re-run ./check C02 to re-evaluate the broken obligation)')
        return 1
    case = rec.get('case') or {}
    if case.get('suite') == 'comp.members':
        still = fe_compile.replay_case(ck, case)
        print(' => the recorded failure %s' % ('still shows' if still else 'no longer shows'))
        return 1 if still else 0
    if case.get('suite') == 'graph.linearize':
        case = dict(case, suite='invariants')
    still = faithful.replay_case(ck, case)
    print(' => the recorded failure %s' % ('still shows' if still else 'no longer shows'))
    return 1 if still else 0
