"""C15 - type stubs describe exactly what the modules define."""
import glob
import json
import os

from harness import core
from harness.suites import decl_stub

MANIFEST = dict(
    text='Lean 4 theorems over a declaration-level model of python_type_stubs.py (what the .pyi of a namespace declares: classes '
         'with base / __init__ parameters / annotated members, module-level names, and the import list produced by the '
         'ImportTracker placeholder mechanism), of the same view of python_types.py, and of map_stone_type_to_python_type with '
         'the stub backend\'s overrides, for every API description and every identifier formatting: the judged names of stub '
         'and runtime module coincide (stub_eq_runtime_names; exact relation stub_names_exact / runtime_names_exact), bases '
         'and constructor parameter names coincide with inheritance resolved (stub_bases_eq, stub_ctor_params_eq), members '
         'coincide with inheritance resolved on both sides (stub_members_eq), every annotation is the independent PEP 484 '
         'type of its Stone type (stub_annotation_ok, stub_annotation_placement), every name used in an annotation is imported '
         'or defined (stub_imports_closed). Tied to the code by a translator (reserved words, branches of the type mapping, '
         'callback table, emitted templates, pinned by rfl) and by differential runs: ast of every generated .pyi and the '
         'introspected runtime module against the compiled model, plus a direct oracle on the real artefacts.',
    note='stub_imports_closed needs only a well-formedness the frontend establishes (a reference into the namespace itself is to a '
         'type it defines, checked on every dumped description): since the repair of C15-stub-indirect-namespace-import the '
         'callback for user-defined types imports the namespace module of every class an annotation mentions, also one the spec '
         'text of the namespace never names (the stub resolves aliases and repeats inherited fields; regression theorem '
         'imports_regression + hand seeds). stub_eq_runtime_names has no hypothesis since the repair of D20 (both generators name the '
         'validator of an alias after fmt_class(alias.name); regression example + seed). Syntactic validity of the .pyi and '
         'resolution of attribute references are observed by testing, not proved. Trusted: Lean kernel, translator, '
         'generators, CPython ast / inspect / typing. typing.Text is read as str. Names of generated specs are Python safe (a '
         'void tag or field called like a Python keyword makes BOTH generators emit invalid Python: C09 territory, not judged).',
    technique='Lean 4 proof + translator + differential correspondence + direct oracle on generated artefacts',
    design='5 C15')


def run_corpus(ck):
    d = os.path.join(core.VERIF, 'corpus', ck.prop)
    for path in sorted(glob.glob(os.path.join(d, '*.json'))):
        rec = json.load(open(path))
        case = rec.get('case', rec)
        if 'specs' not in case:
            continue
        ck.stat('corpus.cases')
        decl_stub.report(ck, decl_stub.run_case(ck, [tuple(s) for s in case['specs']], 'corpus:' + os.path.basename(path)))


def run(ck):
    ck.build_and_audit()
    run_corpus(ck)
    decl_stub.suite_seeds(ck)
    decl_stub.suite_sparse_matrix(ck)
    decl_stub.suite_fmt(ck, decl_stub.spec_identifiers(ck.scale(3, 40), ck.rng))
    decl_stub.suite_sparse_random(ck, ck.scale(40, 600))
    decl_stub.suite_generated(ck, ck.scale(60, 1500))
    ck.assumptions.extend([
        'identifiers of the generated specs are Python safe (presets rt / py_safe / routes); hand seeds add names that need '
        'formatting and reserved words the backends rename',
        'the runtime package of the spec imports (otherwise only the stub-vs-model correspondence is checked: C09 territory)',
        'typing.Text is str (asserted)',
    ])
    ck.note('recorded, not judged: type variables T/U, ROUTES, annotation-type classes and their base, private members, typing '
            'imports the stub does not need (an ImportTracker that is not cleared between namespaces only adds such imports)')
    ck.note('constructor parameters: P and Optional[P] are both accepted as the type of a field with Stone type T (P = PEP 484 type '
            'of T); the model pins the exact form (Optional exactly when the field has a default)')
    return ck.finish(rule=decl_stub.RULE)


def replay(ck, path):
    return decl_stub.replay(ck, path)
