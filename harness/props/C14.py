"""C14 - generated Python client methods send the right route and argument."""
from harness.suites import decl_pyclient as dp

MANIFEST = dict(
    text='Lean 4 theorems over a declaration-level model of stone/backends/python_client.py (which methods the client class '
         'gets, their parameter lists with defaults, the body as data: constructor call with positional parameters, warning, '
         'request, return), of Struct.all_fields under remove_aliases_from_api, of the __init__ parameter list python_types '
         'generates, of the naming helpers (split_words / fmt_underscores / fmt_func) and of Python call binding and name '
         'resolution: every call that binds issues exactly the request the property describes (route object, namespace name, '
         'struct equal field by field to the one built directly, upload body), warns iff deprecated, returns the result or None; '
         'the two walks over all_fields line up; parameters are required-then-optional in declaration order with the spec '
         'defaults; method names are injective. Tied to the code by differential runs: inspect.signature of every generated '
         'method and __init__, real calls on a recording subclass, naming helpers, against the compiled model; plus a direct '
         'oracle computed from the pristine IR that judges the property on the real artefacts.',
    note='The theorems carry explicit hypotheses that the real generator does not establish (each has a reachable '
         'counterexample; the signature families they produce on the real code are listed in KNOWN_FINDINGS.jsonl (ids c14-*), '
         'each re-confirmed first on every run by a hand seed harness/specs/c14_<set>_*.stone): parameters distinct and no Python keywords, no module name '
         'used by the body hidden by a parameter, no field type that is an alias of a nullable type, namespace '
         'prefixes not prefixes of each other. Three former hypotheses are gone with repairs of the generator (string defaults '
         'that pprint wraps, tag defaults declared through an alias of another namespace, route namespaces without data types: '
         'regression examples in Props/C14.lean, seeds c14_blankdefault / c14_foreignalias* / c14_noimport judged like any other input). Trusted: Lean kernel, translator, generators, CPython (call binding and scoping are '
         'modelled and compared on every run), python_types for everything but the parameter order of __init__ and the route '
         'object names. Docstrings, -w/--auth-type and the _to_file twin of download routes are not judged (the twin is compared '
         'with the model only).',
    technique='Lean 4 proof + translator pins + differential correspondence (signatures, recorded calls) + direct oracle',
    design='5 C14')


def run(ck):
    ck.build_and_audit()
    dp.suite_fmt(ck)
    sessions = dp.open_sessions(ck, dp.spec_sources(ck, ck.scale(30, 400)))
    dp.suite_module(ck, sessions)
    dp.suite_calls(ck, sessions, ck.scale(8, 16))
    ck.assumptions.extend([
        'identifiers are ASCII (the character classes of the naming helpers are modelled with ASCII semantics)',
        'python_types output is importable and defines one class per user-defined type and one Route object per route version '
        '(C09 / C15); generated struct classes accept valid values (C08)',
        'struct chains are acyclic and field names are distinct along a chain (frontend, C01/C02)',
    ])
    ck.note('not judged: specs python_types cannot generate or import (union-tag route attributes of a namespace the route module '
            'does not import), a route ERROR type without fields (docstring generation crashes), specs python_client '
            'refuses loudly (route argument of another kind, fmt_func name conflict inside a namespace), the _to_file twin; '
            'names python_types itself cannot carry (fields with a leading underscore, fields / routes spelled like a capitalised '
            'Python keyword, union tags that are not lower_snake_case) are kept out of the seeds; nested struct values the '
            'generated classes refuse as field values (any struct with a field name that is not lower_snake_case) are not passed')
    return ck.finish(rule=dp.RULE)


def replay(ck, path):
    return dp.replay(ck, path)
