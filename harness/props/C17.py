"""C17 - Swift and Objective-C output is well formed and covers the whole API."""
import glob
import json
import os

from harness import core
from harness.suites import decl_swift


MANIFEST = dict(
    text='Lean 4 theorems over a declaration-level model of swift_types, swift_types --objc, swift_client, '
         'swift_client --objc, obj_c_types and obj_c_client (naming functions, the nine type mappers of swift_helpers.py / '
         'swift.py / obj_c_helpers.py as functions from IR types to expressions with references, the declarations each '
         'jinja template / emitter writes per IR item and the user-level names each mentions): every mapper names only '
         'user types of the type it formats (induction on the type expression); every user-type reference of every '
         'declaration names a type the API mentions and, under the closure invariant ApiWF, is declared by the type '
         'backends of the same language (refs_closed); every namespace, struct, union, field, tag, serializer and route '
         'object has its declaration, exactly one when the naming scheme is injective on the API (covers, decl_once; '
         'nameInjective is a decidable hypothesis with counter-examples for names differing in case / underscores, '
         'flat DBX names and union-tag classes). Tied to the code by a translator (type / serializer / validator / '
         'reserved-word tables, split_words regexes, the format strings of every modelled function, pinned by decide) '
         'and by differential runs: naming functions and mappers on random identifiers / type expressions, the '
         'declaration lists of the six invocations on generated specs (declaration scanners for Swift and Objective-C). '
         'Observed by testing, not proved: completion without exception, lexical well-formedness of every emitted '
         'file (Swift and Objective-C lexers: nested comments, strings with escapes and interpolation, character '
         'literals, balanced brackets, conditional directives closed), exactly-once / coverage / closure on the real '
         'output against an independent reading of the IR, agreement of header and implementation selectors of every '
         'Objective-C class, every generated class an Objective-C header names declared (@class / @interface) or '
         'imported by that header (classes named only below a map, and in obj_c_types below a nullable list element, '
         'are counted and not judged: open findings), each top-level Swift type declared once over the user and the '
         '--auth-type app pass of swift_client into one folder; inputs: random specs, hand seeds, and a deterministic grid of every type shape in every '
         'position under an option grid (auth types, obj_c_types -e, three sets of client tables).',
    note='Trusted: Lean kernel, translator, the scanners and generators of harness/suites/decl_swift.py, jinja2. Not '
         'modelled: bodies of Objective-C .m files (names only), documentation comments, validators, literal default '
         'values, --documentation (needs the caller\'s ../Format/jazzy.json). Names that collide under the backend\'s '
         'own naming scheme are counted and not judged. No Swift / Objective-C compiler is installed: "well formed" is '
         'the lexical notion of the property text.',
    technique='Lean 4 proof + translator + differential correspondence + scanner oracles',
    design='5 C16 / C17')


def run_corpus(ck):
    """corpus/C17/*.json first: one entry per listed finding (`seed_file` names a hand seed under harness/specs, or the
    entry carries `specs` itself), so that every finding is re-confirmed -- or seen to be gone -- on every run"""
    d = os.path.join(core.VERIF, 'corpus', ck.prop)
    seeds = {}
    for c in decl_swift.seed_cases():
        seeds.setdefault(c['origin'].split(':', 1)[1], c)
    for path in sorted(glob.glob(os.path.join(d, '*.json'))):
        rec = json.load(open(path))
        case = dict(rec.get('case', rec))
        if 'seed_file' in case:
            base = seeds.get(case['seed_file'])
            if base is None:
                ck.broken.append({'kind': 'harness', 'name': 'corpus', 'detail': 'missing seed %s' % case['seed_file']})
                continue
            case = {'specs': base['specs'], 'opts': case.get('opts') or base['opts'], 'seed_file': case['seed_file']}
        ck.stat('corpus.cases')
        res = decl_swift.eval_case({'origin': 'corpus:' + os.path.basename(path), 'specs': case['specs'],
                                    'opts': case.get('opts')})
        if 'compile_error' in res:
            ck.note('corpus %s: the spec is no longer accepted (%s)' % (os.path.basename(path), res['compile_error'][:80]))
            ck.stat('corpus.no_longer_accepted')
            continue
        expect = rec.get('expect')
        hit = False
        for what, sig, detail in res.get('problems', []):
            if expect and all(sig.get(k) == v for k, v in expect.items()):
                hit = True
            ck.failing_input(what, sig, {'suite': 'decl.swift.spec', 'origin': 'corpus:' + os.path.basename(path),
                                         'specs': case['specs'], 'opts': case.get('opts'), 'detail': detail})
        ck.case(('corpus', os.path.basename(path)), True)
        if expect:
            ck.stat('corpus.reconfirmed' if hit else 'corpus.not_reproduced')
            if not hit:
                ck.note('corpus %s: finding %s did not reproduce' % (os.path.basename(path), rec.get('finding')))


def run(ck):
    ck.build_and_audit()
    run_corpus(ck)
    decl_swift.suite_names(ck)
    decl_swift.suite_mappers(ck)
    decl_swift.suite_specs(ck)
    ck.assumptions.extend([
        'identifiers of the spec language are ASCII (the naming functions use ASCII case mapping in the model)',
        'the API description comes from the frontend: names unique per namespace, (route name, version) unique, '
        'every referenced user type registered in its namespace (ApiWF, evaluated by the model on every case)',
        'client backends are given the option shapes of the SDK build scripts (client-args per style with an upload / '
        'download_file entry, the type of the last extra argument of a variant an identifier, style-to-request for '
        'every key, -w for obj_c_client)',
    ])
    ck.note('not judged: names that collide under the backend\'s own naming scheme (precondition nameInjective); '
            'whether the output compiles; --documentation')
    return ck.finish(rule=decl_swift.RULE)


def replay(ck, path):
    return decl_swift.replay(ck, path)
