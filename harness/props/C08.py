"""C08 - generated classes accept a value exactly when it satisfies the declared type."""
from harness.suites import rt

MANIFEST = dict(
    text='Lean 4 theorems over the validator / attribute / union-constructor model: validation succeeds iff a specification-level '
         'predicate holds, never fails by anything but the validation error, returns the documented normalisation, assignment '
         'reads back; the numeric limit tables of the runtime and of the compiler are extracted from the source by the translator '
         'and proved equal to each other and to the declared widths. Tied to the code by an exhaustive fixed grid (every primitive x '
         'extreme parameters x bound-1/bound/bound+1 x wrong Python types) and random composite cases through setattr, union '
         'constructors and primitive decode, real vs compiled model, judged by an independent reference predicate.',
    note='Trusted: Lean kernel; translator; reference predicate of the harness; float comparison / float(int) / re as external calls. '
         'bool is accepted for integer and float types (Python: bool is an int; documented in encode_primitive).',
    technique='Lean 4 proof + translator-extracted tables + exhaustive grid correspondence',
    design='5 C08')

RULE = ('fixed grid: every primitive type x parameter combinations at the extremes x values at bound-1 / bound / bound+1 and wrong '
        'Python types (exhaustive, seed independent); plus random composite field / tag types of generated specs x valid and '
        'one-step-invalid values through setattr and union constructors')


def run(ck):
    ck.build_and_audit()
    rt.suite_prim_grid(ck, judge=True)
    specs = rt.spec_source(ck, ck.scale(5, 120))
    sessions = rt.sessions(ck, specs)
    rt.suite_vdump(ck, sessions)
    rt.suite_assign(ck, sessions, ck.scale(3, 6), judge=True)
    return ck.finish(rule=RULE, extra_cov={'exhaustive_grid': True})


def replay(ck, path):
    return rt.replay(ck, path)
