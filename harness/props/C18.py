"""C18 - backends write only inside the output folder, verbatim, as the manifest says."""
import time

from harness import core
from harness.suites import be


MANIFEST = dict(
    text='Lean 4 theorems over import-free models of stone/backend.py: POSIX join/normpath/abspath/relpath and '
         '_relative_output_path (containment as an iff on normalised component lists, accepted names are proper '
         'descending paths), brace escaping vs the str.format subset (raw segments and placeholder fields), the emit machine '
         '(emit/emit_raw/emit_wrapped_text/placeholders/indent/block/generate_multiline_list) equal to an independent reference '
         'pretty-printer for every script with indentation restored, textwrap.fill keeping every word in order behind its '
         'prefixes, OutputManifest and a small file-system model (refusal before any effect, manifest run = sorted set of the '
         'files the real run writes, manifest run writes nothing). Tied to the code by translator tables (replace chain, '
         'three-way containment test, call order of validate/record/write, indent step, wrap defaults) and by differential runs '
         'of the real Backend / CodeBackend / SwiftBaseBackend / Compiler against the compiled model, plus direct oracles on '
         'the real file system and an independent Python pretty-printer.',
    note='Trusted: Lean kernel, translator, correspondence generators, str.format / textwrap / os.path / os.makedirs / '
         'shutil.copy as external calls (re-implemented in the model and compared on every run). File-system effects of '
         'the built-in backends are observed (every backend x 4 hand-written spec families + generated specs x option '
         'sets, at the Compiler level and through stone.cli.main with --output-manifest / --expected-output-manifest / '
         '--clean-build), not proved; the file-system model '
         'abstracts directory creation and does not model symlinks. Placeholder names are restricted to identifiers. '
         'manifest_eq_real assumes copy_to_path destinations are pre-existing directories (as in all built-in backends). '
         'Observed by testing only (no model): emit_wrapped_text with break_long_words / break_on_hyphens set (against '
         'textwrap.fill and a word-level oracle; where a prefix leaves no room textwrap itself does not return and the '
         'case is left out), filter_out_none_valued_keys (against its docstring), the command-line layer (exit status of '
         'the manifest comparison, printed manifest). Not judged: a manifest run with --clean-build removes the existing '
         'output folder like a real run does; SwiftBaseBackend creates a missing output folder before it refuses a file '
         'name.',
    technique='Lean 4 proof + translator + differential correspondence + direct oracles',
    design='5 C18')


def run(ck):
    ck.build_and_audit()
    ck.assumptions.extend([
        'emit_placeholder names are identifiers ([A-Za-z_][A-Za-z0-9_]*) or empty; other names use str.format syntax that '
        'is outside the modelled subset',
        'os.getcwd() is absolute and normalised; no symlinks inside the scratch tree; POSIX (os.sep == "/")',
        'manifest_eq_real: every copy_to_path destination is a directory that exists before the run',
        'paths contain no NUL character',
    ])
    be.run_corpus(ck)
    timings = {}
    for name, suite in [('format', be.suite_format), ('path', be.suite_path), ('emit', be.suite_emit),
                        ('wrap', be.suite_wrap), ('filter_none', be.suite_filter_none),
                        ('manifest_api', be.suite_manifest_api), ('manifest_cli', be.suite_manifest_cli),
                        ('manifest_backends', be.suite_manifest_backends)]:
        t0 = time.time()
        suite(ck)
        timings[name] = round(time.time() - t0, 2)
    return ck.finish(rule=be.RULE, extra_cov={'suite_seconds': timings})


def replay(ck, path):
    return be.replay(ck, path)
