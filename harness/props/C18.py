"""C18 - backends write only inside the output folder, verbatim, as the manifest says."""
from harness import core
from harness.suites import be


def run(ck):
    ck.build_and_audit()
    be.suite_format(ck)
    return ck.finish(rule=be.RULE)


def replay(ck, path):
    return be.replay(ck, path)
