"""C18 - backends write only inside the output folder, verbatim, as the manifest says."""
from harness import core
from harness.suites import be


MANIFEST = dict(
    text='Lean 4 theorems over a model of stone/backend.py (brace escaping vs the str.format subset, emit/indent/block '
         'semantics, POSIX path containment as an iff, manifest) tied to the code by a translator for the '
         'replace-chain and by differential runs of the real Backend against the compiled model.',
    note='Trusted: Lean kernel, translator, correspondence generators, str.format / textwrap / os.path as external '
         'calls (re-implemented in the model and compared on every run). File-system effects are observed, not proved.',
    technique='Lean 4 proof + translator + differential correspondence',
    design='5 C18')


def run(ck):
    ck.build_and_audit()
    be.suite_format(ck)
    return ck.finish(rule=be.RULE)


def replay(ck, path):
    return be.replay(ck, path)
