"""C05 - encoded JSON is exactly the documented wire format."""
from harness.suites import rt

MANIFEST = dict(
    text='Lean 4 theorem encode_eq_wire: on every valid stored-normal value the code-following encoder model equals `wire`, '
         'a function written from docs/json_serializer.rst and driven by the API description (not by the generated reflection '
         'tables); shape corollaries for structs, unions, enumerated subtypes and primitives. Tied to the code by running the '
         'real encoder and `wire` (compiled from the Lean definition) on the same values.',
    note='Trusted: Lean kernel; generators; base64/strftime as table-fed external calls. Compared as parsed JSON (a float and '
         'an int of equal value are the same JSON number).',
    technique='Lean 4 proof (encoder refines the wire specification) + differential correspondence',
    design='5 C05')

RULE = ('top-level types of hand-written and generated specs x valid values; the real encoding is compared with the '
        'specification function `wire` evaluated by the model driver; non-trivial = struct / union / list / map valued')


def run(ck):
    ck.build_and_audit()
    specs = rt.spec_source(ck, ck.scale(6, 150))
    sessions = rt.sessions(ck, specs)
    rt.suite_vdump(ck, sessions)
    rt.suite_wire(ck, sessions, ck.scale(15, 50), judge=True)
    rt.suite_encdec(ck, sessions, ck.scale(4, 10), judge=())
    return ck.finish(rule=RULE)


def replay(ck, path):
    return rt.replay(ck, path)
