"""C11 - the meaning of a specification does not depend on order, layout or delivery."""
import glob
import json
import os

from harness import core
from harness.suites import fe_lex, layout


MANIFEST = dict(
    text='Three parts, two techniques. (A, PROVED) A line-level model of stone/frontend/lexer.py (how lines become NEWLINE / '
         'INDENT / DEDENT tokens and the three layout errors; WSIGNORE state inside parentheses; string literals spanning '
         'lines) with Lean 4 theorems: blank, space-only and comment-only lines inserted at any boundary outside string '
         'literals - inside parenthesised groups included - leave the token stream unchanged up to runs of NEWLINE, which '
         'the grammar reads as one NL (dent_canonical, dent_insensitive*; the one hypothesis, an unindented first significant '
         'line, is shown necessary: head_indent_needed); trailing blanks / comments change nothing (trailing_ws); a '
         'parenthesised group may be broken after any token that leaves a parenthesis open when every continuation line sits '
         'exactly one level above the current block level (paren_break); INDENT / DEDENT are balanced on every input '
         '(dent_balanced*). (C, PROVED) A model of the stdin branch of stone.cli.main (a new spec starts at every line that begins '
         'with `namespace` and a word boundary): cutting the concatenation of texts that each begin with such a line, have '
         'no other such line and end with a newline gives the texts back, a preamble stays with the first spec '
         '(stdin_split*); the witness of defect D14 (the substring inside an identifier or a doc) is kept in one piece by the '
         'repaired code (stdin_split_regression); a doc-string line beginning with the word still cuts a text '
         '(stdin_split_witness). (D, PROVED) A model of the parser`s rule for documentation strings (`docstring : STRING`: '
         'split at newlines, rstrip every line, join; `isSpace` = what str.rstrip removes): white space that is not a line '
         'break appended to ANY lines of ANY doc text is not seen (doc_trailing_ws, doc_trailing_ws_text); the result`s lines '
         'are the stripped lines, none ends in white space, the rule is idempotent (doc_clean_lines, doc_clean_no_trailing, '
         'doc_clean_idem); trimming only the end of the text is a different function (doc_last_line_only_witness). '
         'The models are tied '
         'to the code by a translator (indent unit, continuation rule, lexer states and rules, the grammar`s NEWLINE '
         'productions, the split pattern, the statement of the docstring rule: pinned by `decide`) and by differential runs of the '
         'REAL lexer, of the REAL stdin branch of cli.main and of the REAL p_docstring_string against the compiled models '
         '(suites fe.lex: generated specs under reference and noisy layouts, damaged indentation, line soup; fe.stdin: '
         'keyword-heavy line soup and generated specs; fe.doctrim: random doc texts with 23 kinds of white space and '
         'look-alikes, every code point below U+3100; the proved statement is also evaluated on the real rule). '
         '(B, TESTED, not proved) File order, definition order, splitting a namespace over files, comment / blank-line / '
         'trailing-whitespace insertion at every line boundary, white space at the end of the lines INSIDE multi-line '
         'documentation strings (one line at a time and all at once, empty paragraph-separator lines included), '
         'continuation-line variants and stdin delivery are exercised on '
         'the real compiler: the canonical signature of the Api (harness/apisig.py) and the bytes every built-in backend '
         'writes are compared between a reference layout and the variants (suite layout).',
    note='Trusted: Lean kernel, translator, the Python scanner that abstracts a text into line records (compared with the real '
         'lexer on every input), the spec generator and its renderer, apisig (what it does not dump is not compared: AST '
         'paths / line numbers). Part B is differential testing: it can only find layout dependences in the models it '
         'generates. Inside documentation strings only blanks and tabs are appended by part B (the lexer cuts string '
         'values with str.splitlines, for which form feed etc. are line breaks: not judged); the lexer`s removal of the '
         'block indentation from doc lines is not modelled (tested through part B only). '
         'Character-level tokenisation is not modelled (tokens are opaque except parentheses). `norm` (runs of '
         'NEWLINE collapse, a leading run is dropped) is a statement about the grammar, pinned to the two NL productions and '
         'the two spec productions, not derived from the LALR tables.',
    technique='Lean 4 proof + translator + differential correspondence (parts A, C); differential testing of the real '
              'compiler and backends across layouts (part B)',
    design='5 C11')

RULE = ('A (proof): lexer model theorems + fe.lex correspondence (0 disagreements required). '
        'B (testing): Api signature and backend bytes of every layout variant equal those of the reference layout. '
        'C (proof + testing): stdin split theorems; Api received through stdin equals the Api received from files. '
        'D (proof + testing): doc-string rule theorems + fe.doctrim correspondence; the real rule gives the same text with '
        'and without white space at the end of doc lines.')


def run_corpus(ck):
    """minimised past failures / hand seeds (corpus/C11/*.json, the `case` format of replay files) first"""
    d = os.path.join(core.VERIF, 'corpus', ck.prop)
    for path in sorted(glob.glob(os.path.join(d, '*.json'))):
        rec = json.load(open(path))
        case = rec.get('case', rec)
        ck.stat('corpus.cases')
        _replay_case(ck, case)


def _replay_case(ck, case):
    if case.get('suite') == 'fe.lex.layout':
        fe_lex.replay_case(ck, case)
    elif case.get('suite') == 'layout':
        layout.replay_case(ck, case)
    elif case.get('suite') == 'fe.doctrim':
        fe_lex.replay_doctrim(ck, case)


def _timed(ck, name, f, *a, **kw):
    import time
    t = time.time()
    try:
        return f(*a, **kw)
    finally:
        ck.stats['seconds.%s' % name] = round(time.time() - t, 1)


def run(ck):
    _timed(ck, 'build_and_audit', ck.build_and_audit)
    _timed(ck, 'corpus', run_corpus, ck)
    # part A: model correspondence + the proved statements evaluated on the real lexer
    _timed(ck, 'fe.lex', fe_lex.suite_fe_lex, ck)
    _timed(ck, 'fe.lex.layout', fe_lex.suite_lex_layout, ck)
    # part D: the parser's rule for documentation strings (model correspondence + the proved statement on the real rule)
    _timed(ck, 'fe.doctrim', fe_lex.suite_doctrim, ck)
    # part B: the layout / order oracle on the real compiler and backends (testing)
    _timed(ck, 'layout.seeds', layout.suite_seeds, ck)
    _timed(ck, 'layout', layout.suite_layout, ck, n_models=ck.scale(20, 150), n_layouts=ck.scale(12, 40), backends=None)
    # part C: stdin delivery on the real CLI
    _timed(ck, 'fe.stdin', layout.suite_stdin_split, ck)
    _timed(ck, 'layout.stdin', layout.suite_stdin, ck, n_models=ck.scale(10, 120))
    ck.assumptions.extend([
        'the tokens of a line are opaque to the lexer model except `(` and `)`; a string literal is one token',
        'the parser reads a run of NEWLINE tokens as one NL and accepts a leading run (pinned to the grammar productions)',
        'namespace docs are kept in one file by the layouts (docs of several files concatenate in file order: documented)',
        'stdin: every file ends with a newline before concatenation',
    ])
    ck.note('parts A, C and D are theorems about models tied to the code by correspondence; part B (suite layout) is '
            'differential testing of the real toolchain, not a proof')
    return ck.finish(level='proof+testing', rule=RULE)


def replay(ck, path):
    rec = json.load(open(path))
    if rec.get('no_failing_input_found'):
        print('replay names broken obligations, no failing input: %s' % json.dumps(rec.get('broken'))[:600])
        ck.build_and_audit()
        fe_lex.suite_fe_lex(ck)
        return ck.finish(level='proof+testing', rule=RULE)
    _replay_case(ck, rec['case'])
    return ck.finish(level='proof+testing', rule=RULE)
