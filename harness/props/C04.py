"""C04 - encoding then decoding any valid value returns the same value."""
from harness.suites import rt

MANIFEST = dict(
    text='Lean 4 theorems over a model of the Python JSON runtime (validators, attributes, encoder, decoder, class tables): '
         'decoding the specification-level wire form of every valid value returns an equal value (with C05: the encoder '
         'produces that wire form), for all environments, types and values. The model is tied to the code by differential '
         'runs of the real generated classes against the compiled model on generated specs x boundary-biased values x '
         '{strict, lenient} x both entry-point pairs, and the round trip itself is evaluated on the real code.',
    note='Trusted: Lean kernel; correspondence generators; json/base64/strftime/strptime/re as external calls (laws taken as '
         'explicit hypotheses, results table-fed from CPython). Known documented exception D7 (nullable all-optional struct '
         'member) is a listed finding.',
    technique='Lean 4 proof (round trip over the wire specification) + differential correspondence + direct round-trip oracle',
    design='5 C04')

RULE = ('every top-level type (structs, unions, aliases, route arg/result/error) of hand-written and generated specs x values '
        'valid by construction with boundary bias; non-trivial = struct / union / list / map valued; distinct by (type, value)')


def run(ck):
    ck.build_and_audit(extra_props=('C05',))
    specs = rt.spec_source(ck, ck.scale(6, 150))
    sessions = rt.sessions(ck, specs)
    rt.suite_encdec(ck, sessions, ck.scale(12, 40), judge=('C04',))
    return ck.finish(rule=RULE)


def replay(ck, path):
    return rt.replay(ck, path)
