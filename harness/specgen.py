"""specgen -- generator of *legal* Stone specifications (models), their renderings and layout variants.

Everything is deterministic from the ``random.Random`` passed in; there is no global state.

    m = gen_model(rng, 'default')          # Model, legal by construction ('small' 'default' 'rt' 'fe' 'routes' 'py_safe'
                                           #   or a dict of overrides, see _BASE / PRESETS / get_profile)
    files = render(m)                      # [(path, text)] under the reference layout
    lay = gen_layout(rng, m)               # a meaning-preserving layout variant (C11), see class Layout
    files2 = render(m, lay)
    render_def(d)                          # text of one definition
    features(m)                            # {feature: count} -- what the model exercises
    model_to_json(m) / model_from_json(j), clone(m), iter_defs(m, kinds), iter_types(m), find_def(m, ns, name),
    find_patch, own_fields (patch merged), all_fields_decl (inherited first), parent_of, inheritance_depth

Model classes mirror stone/frontend/ast.py.  Literals are plain Python values (bool/int/float/str, None = null),
``TagRef`` is a union-tag reference, ``ExampleRef`` an example label reference.  A struct's enumerated subtypes are
``([(tag, TypeRef)], catch_all)``: catch_all True is written `union`, False `union_closed` (the parser has no `*`).

Rules of the language the generator relies on are cited in comments as (A10), (B7) ... = DESIGN.md Appendix A.
Places where the generator steers away from an input because the *real compiler crashes* on it (or because the
result would depend on file order) are marked STEER with the reason.

Not generated (gaps): identifiers with '-'; the two-type route form; `= null` defaults; map literals inside list
literals (not in the grammar: List(Map(..)) examples are empty lists); references below an alias of a container;
examples in union patches; example labels equal to tag names; nested definitions deeper than one level; more than
one patch per type; import cycles; subtype trees deeper than root + leaves or across namespaces (language rules);
`@other_ns.CustomAnnotation`; custom annotations on members of types that are extended from another namespace;
custom annotations with two or more positional arguments; a namespace doc spread over several files; the substring
`namespace` in identifiers and comments (D14).  Rule-violation injectors / text mutators live elsewhere.
"""
import builtins as _builtins
import copy as _copy
import keyword as _keyword
from dataclasses import dataclass, field as _f, fields as _dc_fields, is_dataclass as _is_dc

# --------------------------------------------------------------------------------------------------------------
# constants of the language

KEYWORDS = frozenset('alias annotation annotation_type attrs by deprecated doc example error extends import '
                     'namespace patch route struct union union_closed'.split())
LITERAL_WORDS = frozenset(['true', 'false', 'null'])
PRIMITIVES = ('Bytes', 'Boolean', 'Float32', 'Float64', 'Int32', 'Int64', 'UInt32', 'UInt64', 'String',
              'Timestamp')
BUILTIN_TYPES = frozenset(PRIMITIVES + ('List', 'Map', 'Void'))
BUILTIN_ANNOTATIONS = ('Deprecated', 'Omitted', 'Preview', 'RedactedBlot', 'RedactedHash')
INT_BOUNDS = {'Int32': (-2 ** 31, 2 ** 31 - 1), 'UInt32': (0, 2 ** 32 - 1),
              'Int64': (-2 ** 63, 2 ** 63 - 1), 'UInt64': (0, 2 ** 64 - 1)}
F32_MAX = 3.40282e38
PY_RESERVED = frozenset(_keyword.kwlist) | frozenset(dir(_builtins)) | frozenset(
    ['self', 'f', 'cls', 'mro', 'download_path', 'other', 'async', 'await', 'match', 'case'])
BRK = '\x00'   # marks a legal continuation-line break point inside parentheses in rendered lines


def canonical(name, ns):
    """ir_generator._get_base_name (A10)."""
    return name.replace('_', '').replace('/', '').lower() + ns.replace('_', '').lower()


# --------------------------------------------------------------------------------------------------------------
# the model

@dataclass
class TagRef:
    tag: str


@dataclass
class ExampleRef:
    label: str


@dataclass
class AnnotationRef:
    name: str
    ns: object = None


@dataclass
class TypeRef:
    name: str
    ns: object = None
    args: list = _f(default_factory=list)      # positional: TypeRef or literal
    kwargs: dict = _f(default_factory=dict)    # keyword: literal
    nullable: bool = False


@dataclass
class Field:
    """struct field, union tag (type None = void tag) or annotation-type parameter"""
    name: str
    type: object = None
    default: object = None                     # literal or TagRef; None = no default
    doc: object = None
    annotations: list = _f(default_factory=list)


@dataclass
class Example:
    label: str
    text: object = None
    fields: dict = _f(default_factory=dict)    # name -> literal | ExampleRef | list | dict | None(null)


@dataclass
class Alias:
    name: str
    type: TypeRef = None
    doc: object = None
    annotations: list = _f(default_factory=list)
    kind = 'alias'


@dataclass
class Struct:
    name: str
    parent: object = None                      # TypeRef
    fields: list = _f(default_factory=list)
    subtypes: object = None                    # ([(tag, TypeRef)], catch_all) ; catch_all True = `union`, False = `union_closed`
    examples: list = _f(default_factory=list)
    doc: object = None
    kind = 'struct'


@dataclass
class Union:
    name: str
    parent: object = None
    closed: bool = False
    tags: list = _f(default_factory=list)
    examples: list = _f(default_factory=list)
    doc: object = None
    kind = 'union'


@dataclass
class Route:
    name: str
    version: int = 1
    arg: TypeRef = None
    result: TypeRef = None
    error: TypeRef = None
    deprecated: object = None                  # None | True | (name, version)
    attrs: dict = _f(default_factory=dict)     # name -> literal | TagRef
    doc: object = None
    kind = 'route'


@dataclass
class Annotation:
    """annotation name = [type_ns.]type_name(args | kwargs)"""
    name: str
    type_name: str = 'Deprecated'
    type_ns: object = None
    args: list = _f(default_factory=list)
    kwargs: dict = _f(default_factory=dict)
    doc: object = None                         # always None (the language has no doc here); kept for uniformity
    kind = 'annotation'


@dataclass
class AnnotationType:
    name: str
    doc: object = None
    params: list = _f(default_factory=list)    # Field
    kind = 'annotation_type'


@dataclass
class StructPatch:
    name: str
    fields: list = _f(default_factory=list)
    examples: list = _f(default_factory=list)
    doc: object = None                         # always None
    kind = 'struct_patch'


@dataclass
class UnionPatch:
    name: str
    closed: bool = False
    tags: list = _f(default_factory=list)
    examples: list = _f(default_factory=list)
    doc: object = None                         # always None
    kind = 'union_patch'


@dataclass
class Namespace:
    name: str
    doc: object = None
    imports: list = _f(default_factory=list)
    defs: list = _f(default_factory=list)
    files: list = _f(default_factory=list)     # partition of range(len(defs)) into 1..6 lists (reference layout)
    doc_file: int = 0                          # the ONE file that carries the namespace doc


@dataclass
class Model:
    namespaces: list = _f(default_factory=list)
    profile: object = None


_CLASSES = {c.__name__: c for c in (TagRef, ExampleRef, AnnotationRef, TypeRef, Field, Example, Alias, Struct, Union,
                                    Route, Annotation, AnnotationType, StructPatch, UnionPatch, Namespace, Model)}


# --------------------------------------------------------------------------------------------------------------
# small helpers used by other checks

def clone(model):
    return _copy.deepcopy(model)


def model_to_json(x):
    """plain dict/list dump (JSON-serialisable) of a model or any part of it; inverse: model_from_json"""
    if _is_dc(x):
        d = {'_': type(x).__name__}
        for fl in _dc_fields(x):
            d[fl.name] = model_to_json(getattr(x, fl.name))
        return d
    if isinstance(x, dict):
        return {'_': 'dict', 'items': [[model_to_json(k), model_to_json(v)] for k, v in x.items()]}
    if isinstance(x, tuple):
        return {'_': 'tuple', 'items': [model_to_json(v) for v in x]}
    if isinstance(x, list):
        return [model_to_json(v) for v in x]
    if isinstance(x, float):
        return {'_': 'float', 'hex': x.hex()}
    return x


def model_from_json(j):
    if isinstance(j, list):
        return [model_from_json(v) for v in j]
    if isinstance(j, dict):
        k = j['_']
        if k == 'dict':
            return {model_from_json(a): model_from_json(b) for a, b in j['items']}
        if k == 'tuple':
            return tuple(model_from_json(v) for v in j['items'])
        if k == 'float':
            return float.fromhex(j['hex'])
        return _CLASSES[k](**{a: model_from_json(b) for a, b in j.items() if a != '_'})
    return j


def find_ns(model, ns):
    for n in model.namespaces:
        if n.name == ns:
            return n
    return None


def find_def(model, ns, name, kinds=None):
    """first definition called `name` in namespace `ns` (patches are only returned when asked for by `kinds`)"""
    n = find_ns(model, ns)
    if n is None:
        return None
    for d in n.defs:
        if d.name == name:
            if kinds is None:
                if d.kind in ('struct_patch', 'union_patch'):
                    continue
            elif d.kind not in kinds:
                continue
            return d
    return None


def iter_defs(model, kinds=None):
    for n in model.namespaces:
        for d in n.defs:
            if kinds is None or d.kind in kinds:
                yield n, d


def iter_types(model):
    """(namespace, Struct|Union) for every user-defined type"""
    return iter_defs(model, ('struct', 'union'))


def find_patch(model, ns, name):
    n = find_ns(model, ns)
    for d in n.defs:
        if d.name == name and d.kind in ('struct_patch', 'union_patch'):
            return d
    return None


def own_fields(model, ns, d):
    """fields/tags of a struct/union after patch merging (patch fields are appended)"""
    base = d.fields if d.kind == 'struct' else d.tags
    p = find_patch(model, ns, d.name)
    if p is None:
        return list(base)
    return list(base) + list(p.fields if p.kind == 'struct_patch' else p.tags)


def parent_of(model, ns, d):
    """(ns_name, def) of the parent or None"""
    if d.parent is None:
        return None
    pns = d.parent.ns or ns
    return pns, find_def(model, pns, d.parent.name, ('struct', 'union'))


def all_fields_decl(model, ns, d):
    """inherited-first list of (owner_ns, owner_def, Field), declaration order (NOT the IR's required-first order)"""
    out = []
    p = parent_of(model, ns, d)
    if p is not None:
        out.extend(all_fields_decl(model, p[0], p[1]))
    out.extend((ns, d, fl) for fl in own_fields(model, ns, d))
    return out


def union_is_open(d):
    return not d.closed


def inheritance_depth(model, ns, d):
    k = 0
    p = parent_of(model, ns, d)
    while p is not None:
        k += 1
        p = parent_of(model, p[0], p[1])
    return k


# --------------------------------------------------------------------------------------------------------------
# rendering

def fmt_float(x):
    """float literal accepted by the lexer: -?\\d+(\\.\\d*(e-?\\d+)?|e-?\\d+) and read back exactly"""
    r = repr(float(x))
    if 'inf' in r or 'nan' in r:
        raise ValueError('no literal for %r' % x)
    if 'e' in r:
        m, e = r.split('e')
        e = e.replace('+', '')
        r = m + 'e' + e
    return r


def quote_str(s):
    return '"' + s.replace('\\', '\\\\').replace('"', '\\"').replace('\n', '\\n').replace('\t', '\\t') + '"'


def lit(v):
    """literal / tag ref / example value on one line"""
    if v is None:
        return 'null'
    if v is True:
        return 'true'
    if v is False:
        return 'false'
    if isinstance(v, int):
        return str(v)
    if isinstance(v, float):
        return fmt_float(v)
    if isinstance(v, str):
        return quote_str(v)
    if isinstance(v, TagRef):
        return v.tag
    if isinstance(v, ExampleRef):
        return v.label
    if isinstance(v, TypeRef):
        return r_type(v)
    if isinstance(v, (list, tuple)):
        return '[' + ', '.join(lit(x) for x in v) + ']'
    if isinstance(v, dict):
        return '{' + ', '.join(lit(k) + ': ' + lit(x) for k, x in v.items()) + '}'
    raise TypeError('no rendering for %r' % (v,))


class _RC:
    """render context: syntax-variant decisions (None rng = reference rendering)"""
    def __init__(self, rng=None, p=0.0):
        self.rng = rng
        self.p = p

    def flip(self, scale=1.0):
        return self.rng is not None and self.rng.random() < self.p * scale


_REF = _RC()


def r_type(t, rc=_REF):
    s = (t.ns + '.' if t.ns else '') + t.name
    items = [r_type(a, rc) if isinstance(a, TypeRef) else lit(a) for a in t.args]
    items += [k + '=' + (r_type(v, rc) if isinstance(v, TypeRef) else lit(v)) for k, v in t.kwargs.items()]
    if items:
        s += '(' + BRK + (',' + BRK + ' ').join(items) + BRK + ')'
    elif t.ns is None and t.name in BUILTIN_TYPES and t.name != 'Timestamp' and rc.flip(0.3):
        s += '()'            # `String()` == `String`
    if t.nullable:
        s += '?'
    return s


def r_args(args, kwargs):
    items = [lit(a) for a in args] + [k + '=' + lit(v) for k, v in kwargs.items()]
    if not items:
        return '()'
    return '(' + BRK + (',' + BRK + ' ').join(items) + BRK + ')'


class _Em:
    def __init__(self, rc=_REF):
        self.lines = []          # [level, text, ends_inside_string]
        self.rc = rc

    def line(self, level, text):
        self.lines.append([level, text, False])

    def blank(self):
        self.lines.append([0, '', False])

    def doc(self, level, doc):
        if doc is None:
            return
        esc = doc.replace('\\', '\\\\').replace('"', '\\"').replace('\t', '\\t')
        if '\n' in esc and self.rc.flip(0.5):
            self.lines.append([level, '"' + esc.replace('\n', '\\n') + '"', False])
            return
        parts = esc.split('\n')
        n = len(parts)
        for i, p in enumerate(parts):
            txt = ('"' if i == 0 else '') + p + ('"' if i == n - 1 else '')
            # continuation lines are indented to the block level (the lexer strips exactly that); an empty
            # doc line stays empty
            if i > 0 and p == '' and i < n - 1:
                self.lines.append([-1, '', True])
            else:
                self.lines.append([level, txt, i < n - 1])


def _r_annos(em, lvl, annos):
    for a in annos:
        em.line(lvl, '@' + (a.ns + '.' if a.ns else '') + a.name)


def _r_field(em, lvl, fl, inline=None):
    rc = em.rc
    if fl.type is None:
        em.line(lvl, fl.name)
    else:
        s = fl.name + ' ' + r_type(fl.type, rc)
        if fl.default is not None:
            s += ' = ' + lit(fl.default)
        em.line(lvl, s)
    _r_annos(em, lvl + 1, fl.annotations)
    em.doc(lvl + 1, fl.doc)
    if inline is not None:
        _r_body(em, lvl + 1, inline, anonymous=True)


def _ml_map(em, lvl, prefix, d, suffix):
    em.line(lvl, prefix + '{')
    items = list(d.items())
    for i, (k, v) in enumerate(items):
        comma = '' if i == len(items) - 1 else ','
        if isinstance(v, dict) and v and em.rc.flip(2.0):
            _ml_map(em, lvl + 1, lit(k) + ': ', v, comma)
        else:
            em.line(lvl + 1, lit(k) + ': ' + lit(v) + comma)
    em.line(lvl, '}' + suffix)


def _r_examples(em, lvl, examples):
    for ex in examples:
        em.line(lvl, 'example ' + ex.label)
        if not ex.fields:
            continue                     # `example x` alone; a text needs at least one field (grammar)
        em.doc(lvl + 1, ex.text)
        for k, v in ex.fields.items():
            if isinstance(v, dict) and v and em.rc.flip(2.0):
                if em.rc.flip(1.0):
                    em.line(lvl + 1, k + ' =')
                    em.line(lvl + 2, lit(v))
                else:
                    _ml_map(em, lvl + 1, k + ' = ', v, '')
            else:
                em.line(lvl + 1, k + ' = ' + lit(v))


def _r_body(em, lvl, d, anonymous=False, inline_map=None):
    """struct/union (or patch) header + body starting at `lvl`"""
    rc = em.rc
    k = d.kind
    inline_map = inline_map or {}
    if k in ('struct', 'struct_patch'):
        head = 'struct' if k == 'struct' else 'patch struct'
    else:
        head = ('union_closed' if d.closed else 'union')
        if k == 'union_patch':
            head = 'patch ' + head
    if not anonymous:
        head += ' ' + d.name
    if k in ('struct', 'union') and d.parent is not None:
        head += ' extends ' + r_type(d.parent, rc)
    em.line(lvl, head)
    n0 = len(em.lines)
    if k in ('struct', 'union'):
        em.doc(lvl + 1, d.doc)
    if k == 'struct' and d.subtypes is not None:
        em.line(lvl + 1, 'union' if d.subtypes[1] else 'union_closed')
        for tag, tr in d.subtypes[0]:
            em.line(lvl + 2, tag + ' ' + r_type(tr, rc))
    for fl in (d.fields if k in ('struct', 'struct_patch') else d.tags):
        _r_field(em, lvl + 1, fl, inline_map.get(id(fl)))
    _r_examples(em, lvl + 1, d.examples)
    if len(em.lines) == n0:
        raise ValueError('%s %s has an empty body: not expressible (needs a doc)' % (k, d.name))


def _r_def(em, d, inline_map=None):
    rc = em.rc
    k = d.kind
    if k in ('struct', 'union', 'struct_patch', 'union_patch'):
        _r_body(em, 0, d, inline_map=inline_map)
    elif k == 'alias':
        em.line(0, 'alias ' + d.name + ' = ' + r_type(d.type, rc))
        _r_annos(em, 1, d.annotations)
        em.doc(1, d.doc)
    elif k == 'annotation':
        s = 'annotation ' + d.name + ' = ' + (d.type_ns + '.' if d.type_ns else '') + d.type_name
        if d.args or d.kwargs or not rc.flip(1.0):
            s += r_args(d.args, d.kwargs)       # `Deprecated` == `Deprecated()`
        em.line(0, s)
    elif k == 'annotation_type':
        em.line(0, 'annotation_type ' + d.name)
        if d.doc is None and not d.params:
            raise ValueError('annotation_type %s needs a doc or a parameter' % d.name)
        em.doc(1, d.doc)
        for p in d.params:
            _r_field(em, 1, p)
    elif k == 'route':
        s = 'route ' + d.name
        if d.version != 1 or rc.flip(1.0):
            s += ':%d' % d.version
        # STEER: the two-type form `route r(A, R)` (grammar: error type optional) crashes the real compiler
        # (AttributeError on the missing error type ref), so all three types are always written.
        s += '(' + BRK + r_type(d.arg, rc) + ',' + BRK + ' ' + r_type(d.result, rc) + ',' + BRK + ' ' + \
             r_type(d.error, rc) + BRK + ')'
        if d.deprecated is True:
            s += ' deprecated'
        elif d.deprecated:
            s += ' deprecated by ' + d.deprecated[0]
            if d.deprecated[1] != 1 or rc.flip(1.0):
                s += ':%d' % d.deprecated[1]
        em.line(0, s)
        em.doc(1, d.doc)
        if d.attrs:
            em.line(1, 'attrs')
            for a, v in d.attrs.items():
                em.line(2, a + ' = ' + lit(v))
    else:
        raise TypeError(k)


def _plain(lines):
    out = []
    for lvl, txt, _ in lines:
        out.append(('    ' * lvl + txt.replace(BRK, '')) if lvl >= 0 else '')
    return '\n'.join(out) + '\n'


def render_def(d):
    """text of one definition under the reference layout"""
    em = _Em()
    _r_def(em, d)
    return _plain(em.lines)


@dataclass
class Layout:
    """A presentation of a model.  None of its choices may change the meaning (C11):
    files       ns -> list of 1..6 lists of def indices (= split and def order per file)
    doc_file    ns -> index of the ONE file carrying the namespace doc (docs of several files would be
                concatenated in file order, so the doc is never split)
    import_files ns -> per import (aligned with Namespace.imports) the file indices that repeat the import line
    file_order  [(ns, file index)] order of the files in the list handed to the compiler
    noise       None or dict(seed, blank, comment, trail_ws, trail_comment, brk, syntax): rates of blank /
                comment-only / space-only line insertion at every line boundary outside string literals,
                trailing blanks, trailing comments, continuation-line breaks inside parentheses and
                equivalent-syntax variants (`:1`, `String()`, `Deprecated`, multi-line maps, escaped docs)
    inline      [(ns, name)] struct/union definitions to write as nested (anonymous) definitions under the
                first field of that bare type in the same file (best effort)
    fields, tags and examples always keep declaration order."""
    files: dict = _f(default_factory=dict)
    doc_file: dict = _f(default_factory=dict)
    import_files: dict = _f(default_factory=dict)
    file_order: list = _f(default_factory=list)
    noise: object = None
    inline: list = _f(default_factory=list)


_CLASSES['Layout'] = Layout


def reference_layout(model):
    lay = Layout()
    for ns in model.namespaces:
        files = [list(f) for f in ns.files] or [list(range(len(ns.defs)))]
        lay.files[ns.name] = files
        lay.doc_file[ns.name] = ns.doc_file if ns.doc_file < len(files) else 0
        lay.import_files[ns.name] = [[0] for _ in ns.imports]
        lay.file_order.extend((ns.name, i) for i in range(len(files)))
    return lay


_COMMENT_WORDS = ('todo', 'note', 'struct', 'union', 'route', 'x = 1', '"quoted"', "it's", '(paren', 'List(', '#',
                  'alias a = b', 'import', '\\', 'see below', '::', '{', ']', 'ünï', 'example default', '    ', '?')


def _comment(rng):
    return '#' + ' ' * rng.randrange(3) + ' '.join(rng.choice(_COMMENT_WORDS) for _ in range(rng.randrange(4)))


def _apply_noise(lines, rng, nz):
    """lines: [level, text, ends_inside_string] -> text"""
    out = []
    p_blank, p_com = nz.get('blank', 0), nz.get('comment', 0)
    p_tw, p_tc, p_brk = nz.get('trail_ws', 0), nz.get('trail_comment', 0), nz.get('brk', 0)

    def filler():
        while True:
            r = rng.random()
            if r < p_blank:
                out.append(rng.choice(('', '', ' ' * rng.randrange(1, 9))))
            elif r < p_blank + p_com:
                out.append(' ' * rng.randrange(0, 13) + _comment(rng))
            else:
                return

    in_str = False
    for lvl, txt, ends_in in lines:
        if not in_str:
            filler()
        ind = '    ' * lvl if lvl >= 0 else ''
        if BRK in txt:
            pieces = txt.split(BRK)
            cur = ind + pieces[0]
            for pc in pieces[1:]:
                if rng.random() < p_brk:
                    out.append(_tail(cur.rstrip(' '), rng, p_tw, p_tc))
                    if rng.random() < p_com:
                        out.append(' ' * rng.randrange(0, 13) + _comment(rng))   # comment inside parentheses
                    if rng.random() < p_blank:
                        out.append('')
                    cur = '    ' * (lvl + 1) + pc.lstrip(' ')
                else:
                    cur += pc
            out.append(_tail(cur, rng, p_tw, p_tc))
        elif ends_in:
            out.append(ind + txt)
        else:
            out.append(_tail(ind + txt, rng, p_tw, p_tc))
        in_str = ends_in
    filler()
    return '\n'.join(out) + ('\n' if rng.random() < 0.8 else '')


def _tail(s, rng, p_tw, p_tc):
    r = rng.random()
    if r < p_tc:
        return s + ' ' * rng.randrange(1, 3) + _comment(rng)
    if r < p_tc + p_tw:
        return s + ' ' * rng.randrange(1, 5)
    return s


def _inline_plan(ns, idxs, wanted):
    """which defs of this file are written nested: {id(field): def}, set(indices consumed)"""
    by_name = {}
    for i in idxs:
        d = ns.defs[i]
        if d.kind in ('struct', 'union') and d.name in wanted:
            by_name[d.name] = i
    if not by_name:
        return {}, set()
    plan, consumed, hosts = {}, set(), set()
    for i in idxs:
        d = ns.defs[i]
        if d.kind not in ('struct', 'union', 'struct_patch', 'union_patch') or i in consumed:
            continue
        for fl in (d.fields if d.kind in ('struct', 'struct_patch') else d.tags):
            t = fl.type
            if t is None or t.ns is not None or t.args or t.kwargs:
                continue
            j = by_name.get(t.name)
            if j is None or j == i or j in consumed or j in hosts:
                continue
            plan[id(fl)] = ns.defs[j]
            consumed.add(j)
            hosts.add(i)
    return plan, consumed


def file_name(ns_name, idx, nfiles):
    return '%s.stone' % ns_name if nfiles == 1 else '%s_%d.stone' % (ns_name, idx)


def render(model, layout=None):
    """-> [(path, text)]; `layout` None = reference layout"""
    lay = layout or reference_layout(model)
    nz = lay.noise
    import random as _random
    nrng = _random.Random(nz['seed']) if nz else None
    rc = _RC(nrng, nz.get('syntax', 0.0)) if nz else _REF
    by_name = {ns.name: ns for ns in model.namespaces}
    inline = {}
    for nsn, dn in lay.inline:
        inline.setdefault(nsn, set()).add(dn)
    out = []
    for nsn, fi in lay.file_order:
        ns = by_name[nsn]
        files = lay.files[nsn]
        idxs = files[fi]
        em = _Em(rc)
        em.line(0, 'namespace ' + nsn)
        if lay.doc_file.get(nsn, 0) == fi:
            em.doc(1, ns.doc)
        first = True
        for imp, where in zip(ns.imports, lay.import_files.get(nsn) or [[0]] * len(ns.imports)):
            if fi in where:
                if first:
                    em.blank()
                    first = False
                em.line(0, 'import ' + imp)
        plan, consumed = _inline_plan(ns, idxs, inline[nsn]) if nsn in inline else ({}, ())
        for i in idxs:
            if i in consumed:
                continue
            em.blank()
            _r_def(em, ns.defs[i], plan)
        text = _apply_noise(em.lines, nrng, nz) if nz else _plain(em.lines)
        out.append((file_name(nsn, fi, len(files)), text))
    return out


# --------------------------------------------------------------------------------------------------------------
# profiles

_BASE = dict(
    py_safe=False, py_loadable=False,
    n_namespaces=(1, 4), n_defs=(8, 18), p_import=0.65,
    w_kind=dict(struct=5.0, union=3.0, alias=2.2, route=2.5, annotation=2.4, annotation_type=0.9),
    p_parent=0.45, p_chain=0.3, p_subtypes=0.16, p_closed=0.3, p_union_parent=0.35,
    n_fields=(0, 5), n_tags=(1, 5),
    p_nullable=0.2, p_container=0.25, p_user=0.3, p_alias_use=0.18, p_foreign=0.5,
    p_params=0.5, p_boundary=0.5, p_default=0.3,
    p_annotate=0.28, p_alias_annotate=0.45, p_patch=0.12,
    p_examples=0.55, max_examples=3,
    p_route_version=0.45, p_deprecated=0.35, p_stone_cfg=0.55, p_attr=0.7, p_route_exotic=0.12,
    p_doc=0.4, p_doc_ref=0.5, p_unicode=0.25, p_multiline=0.3,
    max_files=6, p_multifile=0.45, p_weird_name=0.15, p_route_path=0.1,
)

PRESETS = {
    'default': {},
    'small': dict(n_namespaces=(1, 2), n_defs=(3, 8), n_fields=(0, 3), n_tags=(1, 3), max_examples=2, max_files=2,
                  p_subtypes=0.1),
    'rt': dict(py_safe=True, py_loadable=True, n_defs=(8, 16),
               w_kind=dict(struct=6.0, union=4.0, alias=2.0, route=0.6, annotation=2.0, annotation_type=0.2),
               p_parent=0.45, p_subtypes=0.3, p_container=0.35, p_nullable=0.25, p_default=0.45, p_annotate=0.35,
               p_doc=0.1, p_examples=0.25, p_stone_cfg=0.0, p_patch=0.08, p_route_exotic=0.0, p_multifile=0.2,
               p_weird_name=0.0, p_route_path=0.0, w_anno=dict(Omitted=4, RedactedBlot=3, RedactedHash=3, Deprecated=1,
                                                                Preview=1, custom=0.6)),
    'fe': dict(n_defs=(10, 22), p_doc=0.75, p_doc_ref=0.7, p_unicode=0.4, p_multiline=0.5, p_patch=0.3,
               p_examples=0.8, max_examples=4, p_annotate=0.35, p_alias_annotate=0.45, p_multifile=0.8,
               w_kind=dict(struct=5.0, union=3.0, alias=2.5, route=2.0, annotation=2.2, annotation_type=1.2),
               p_weird_name=0.3, p_route_path=0.2),
    'routes': dict(py_safe=True, n_namespaces=(2, 4), n_defs=(10, 20),
                   w_kind=dict(struct=3.0, union=2.0, alias=1.0, route=7.0, annotation=0.5, annotation_type=0.1),
                   p_stone_cfg=0.85, p_route_version=0.45, p_deprecated=0.45, p_attr=0.8, p_import=0.8,
                   p_examples=0.2, p_doc=0.3, p_weird_name=0.0, p_route_path=0.0, p_route_exotic=0.05),
    'py_safe': dict(py_safe=True, p_weird_name=0.0, p_route_path=0.0, p_route_exotic=0.04),
}
_DEF_W_ANNO = dict(Omitted=2, RedactedBlot=2.1, RedactedHash=2.1, Deprecated=1.5, Preview=1.5, custom=3.5)


def get_profile(profile):
    """dict of feature weights/sizes: a preset name, or a dict of overrides (optional key 'base': preset name)"""
    p = dict(_BASE)
    p['w_anno'] = dict(_DEF_W_ANNO)
    if profile is None:
        profile = 'default'
    if isinstance(profile, str):
        over = PRESETS[profile]
        p['name'] = profile
    else:
        over = dict(PRESETS[profile.get('base', 'default')])
        over.update(profile)
        p['name'] = profile.get('name', 'custom')
    p.update(over)
    return p


# --------------------------------------------------------------------------------------------------------------
# word pools

_NS_POOL = ('files users sharing team common auth paper account contacts check props team_log file_requests '
            'seen_state openid cloud_docs jobs devices billing search_v2 media events').split()
_NS_WEIRD = ('Core ns_x V2api a x1 CamelNs under_score_').split()
_ADJ = ('File Folder User Team Member Shared Link Upload Session Account Group Paper Device Token Space Photo Media '
        'Search Sync Quota Policy Access Audit Batch Cursor Thumb Export Lock Tag Prop Video Note Poll Job').split()
_NOUN = ('Info Metadata Arg Result Error Entry Status Mode Settings Details Level Action Reason Spec Options Range '
         'Key Name Ref Data State Config Event Log Item Value Kind Filter Rule Scope Plan Batch').split()
_FIELDS = ('path name size rev cursor limit offset mode owner email created modified is_deleted count title status '
           'token hash_value parent_id locale note color width height ratio score enabled visible flags tags_list '
           'items entries members props meta expires url query kind level quota used region code reason_text '
           'details source target client_ts server_ts blob payload checksum label comment index_no start_pos '
           'end_pos shared_with display_name account_id team_id is_admin has_more total pending_count').split()
_TAGS = ('pending active done failed unknown_tag basic pro business read_only editor viewer small medium large add '
         'update remove none_set all_items custom ok not_found no_access too_large conflict in_progress complete '
         'success expired locked invalid_arg path_error lookup_failed reset rate_limited disabled hidden public '
         'team_only password personal work').split()
_VERBS = 'get list create delete update move copy search upload download share revoke check restore lock count'.split()
_OBJS = 'file folder metadata user team link session batch status thumbnail revisions members tags job'.split()
_LABELS = 'default basic full minimal alt edge second sample_one big tiny other_case v2_style'.split()
_ANNO_NAMES = ('InternalOnly AdminOnly NameRedactor IdRedactor HashIt BlotIt OldField BetaField Sensitive Noteworthy '
               'Pii Secret Legacy Upcoming TeamOnly Masked Important Tracked').split()
_ANNOT_TYPE_NAMES = 'Importance Sensitivity Ownership Tracking Labelled Checked Source Tier'.split()
_CALLERS = 'internal admin team partner mobile'.split()
_WEIRD_TYPE = ('HTTPCode AS snake_type T1 _Hidden camelCase URLSpec X IOError2 class None lambda self type id '
               'list Dict_ ABCDef file_info_t __dunder True_ ').split()
_WEIRD_FIELD = ('class for self f type id list lambda None True from global pass while async await yield def del '
                'not or and in is if else camelCase Upper x1 _x __y URL http2 download_path print len').split()
_DOC_WORDS = ('the a this value file folder returns set when if user of for with is not and list path shared '
              'maximum number items size time unique identifier whether only used team').split()
_DOC_ODD = ('"quoted"', "it's", 'back\\slash', 'C:\\dir', '#hash', '100%', 'a/b', 'x=y', '(paren)', '[br]', '{x}',
            'semi;colon', 'colon: here', '`tick`', '<tag>', '@at', '$5', '&amp;', '\\"', 'tab\there')
_DOC_UNI = ('café', 'naïve', 'Ünïcödé', 'λx', 'Москва', '日本語', '中文', '🙂', 'ß', '—', '“curly”', '≤', 'ñandú')
_STR_CH = 'abcdefghijklmnopqrstuvwxyzABCXYZ0123456789_-.,:;/!?@#$%&*()[]{}<>+=~^|`\'"\\ '
_STR_UNI = 'éüßλЖ中日ñøş€—🙂'

_PATTERNS = (   # (pattern, generator of FULL matches, min len, max len)
    ('[a-z]{2,4}', lambda r: ''.join(r.choice('abcxyz') for _ in range(r.randint(2, 4))), 2, 4),
    ('\\d{3}', lambda r: '%03d' % r.randrange(1000), 3, 3),
    ('[A-Z][a-z]+', lambda r: r.choice('ABZ') + ''.join(r.choice('aez') for _ in range(r.randint(1, 4))), 2, 5),
    ('(ab)+', lambda r: 'ab' * r.randint(1, 3), 2, 6),
    ('[^@]+@[^@]+\\.[a-z]{2,3}', lambda r: r.choice(('a', 'bob', 'x.y')) + '@' + r.choice(('b', 'mail')) + '.' +
     r.choice(('io', 'com')), 6, 12),
    ('[0-9a-f]{8}', lambda r: '%08x' % r.randrange(16 ** 8), 8, 8),
    ('id:[0-9]+', lambda r: 'id:%d' % r.randrange(100000), 4, 8),
    ('.*', lambda r: r.choice(('', 'x', 'any thing', 'é"q\\')), 0, 9),
    ('[a-z_]*', lambda r: ''.join(r.choice('ab_') for _ in range(r.randint(0, 5))), 0, 5),
    ('\\w+-\\w+', lambda r: r.choice(('a', 'foo', 'X1')) + '-' + r.choice(('b', 'bar_2')), 3, 9),
    ('(/(.|[\\r\\n])*)?', lambda r: r.choice(('', '/', '/a/b', '/x y')), 0, 4),
)
_PAT_BY = {p[0]: p for p in _PATTERNS}
_TS_FORMATS = ('%Y-%m-%dT%H:%M:%SZ', '%Y-%m-%d', '%a, %d %b %Y %H:%M:%S +0000', '%H:%M', '%Y%m%d', '%d/%m/%y %H.%M')
_B64 = ('', 'AA==', 'aGVsbG8=', 'c3RvbmU=', '/+8=', 'AAECAwQF', 'Zm9vYmFy')
_NICE_FLOATS = (0.0, 1.5, -2.25, 1e-07, 12345.678, 3, -7, 1e16, 0.1, 2.0, -0.5, 100)


def _rand_string(rng, lo, hi, uni):
    if hi is None:
        hi = (lo or 0) + 8
    lo = lo or 0
    r = rng.random()
    n = lo if r < 0.3 else (hi if r < 0.5 and hi <= lo + 12 else rng.randint(lo, min(hi, lo + 6)))
    out = []
    prev_sp = False
    for _ in range(n):
        c = rng.choice(_STR_UNI) if uni and rng.random() < 0.2 else rng.choice(_STR_CH)
        if c == ' ' and prev_sp:
            c = 'x'            # never two blanks in a row: the lexer removes a run of 4*indent blanks from strings
        prev_sp = c == ' '
        out.append(c)
    if n and uni and r > 0.85:
        out[int(r * 1000) % n] = '"\\'[int(r * 100) % 2]
    return ''.join(out)


def _rand_ts(rng, fmt):
    import datetime
    d = datetime.datetime(rng.randint(1970, 2037), rng.randint(1, 12), rng.randint(1, 28), rng.randint(0, 23),
                          rng.randint(0, 59), rng.randint(0, 59))
    return d.strftime(fmt)


def prim_value(rng, t, boundary=0.5, uni=True):
    """a literal valid for the primitive TypeRef `t` (ignores t.nullable)"""
    n = t.name
    kw = t.kwargs
    if n == 'Boolean':
        return rng.random() < 0.5
    if n in INT_BOUNDS:
        lo, hi = INT_BOUNDS[n]
        lo = kw.get('min_value', lo)
        hi = kw.get('max_value', hi)
        if rng.random() < boundary:
            return rng.choice((lo, hi))
        if lo <= 0 <= hi and rng.random() < 0.2:
            return 0
        return rng.randint(lo, min(hi, lo + 1000)) if rng.random() < 0.7 else rng.randint(lo, hi)
    if n in ('Float32', 'Float64'):
        lo, hi = kw.get('min_value'), kw.get('max_value')
        tlo, thi = (-F32_MAX, F32_MAX) if n == 'Float32' else (None, None)
        elo = lo if lo is not None else tlo
        ehi = hi if hi is not None else thi
        cands = [x for x in _NICE_FLOATS if (elo is None or x >= elo) and (ehi is None or x <= ehi)]
        if rng.random() < boundary or not cands:
            b = [x for x in (elo, ehi) if x is not None]
            if b:
                return rng.choice(b)
            if not cands:
                return 0.0
        return rng.choice(cands)
    if n == 'String':
        pat = kw.get('pattern')
        if pat is not None:
            return _PAT_BY[pat][1](rng)
        return _rand_string(rng, kw.get('min_length'), kw.get('max_length'), uni)
    if n == 'Bytes':
        return rng.choice(_B64)
    if n == 'Timestamp':
        return _rand_ts(rng, t.args[0])
    raise ValueError(n)


def prim_type(rng, name, P):
    """TypeRef of primitive `name` with (boundary-biased) parameters"""
    t = TypeRef(name)
    if name == 'Timestamp':
        t.args = [rng.choice(_TS_FORMATS)]
        return t
    if rng.random() >= P['p_params']:
        return t
    bnd = rng.random() < P['p_boundary']
    if name in INT_BOUNDS:
        lo, hi = INT_BOUNDS[name]
        if bnd:
            a, b = rng.choice(((lo, hi), (lo, None), (None, hi), (lo, lo + 1), (hi - 1, hi), (0, 0)))
        else:
            a = rng.choice((None, 0, 1, -5 if lo < 0 else 2, 100))
            b = rng.choice((None, 10, 120, 65535, 1000000))
            if a is not None and b is not None and a > b:
                a, b = b, a
        if a is not None:
            t.kwargs['min_value'] = a
        if b is not None:
            t.kwargs['max_value'] = b
    elif name in ('Float32', 'Float64'):
        if bnd and name == 'Float32':
            a, b = rng.choice(((-F32_MAX, F32_MAX), (None, F32_MAX), (-F32_MAX, None), (0, F32_MAX)))
        else:
            a = rng.choice((None, 0, 0.0, -1.5, 1e-07, -100))
            b = rng.choice((None, 1, 1.0, 99.5, 1e16, 100))
            if a is not None and b is not None and a > b:
                a, b = b, a
        if a is not None:
            t.kwargs['min_value'] = a
        if b is not None:
            t.kwargs['max_value'] = b
    elif name == 'String':
        r = rng.random()
        if r < 0.45:
            pat = rng.choice(_PATTERNS)
            if rng.random() < 0.4:
                t.kwargs['min_length'] = pat[2] if bnd else rng.randint(0, pat[2])
            if rng.random() < 0.4:
                t.kwargs['max_length'] = max(1, pat[3] if bnd else pat[3] + rng.randint(0, 5))
            t.kwargs['pattern'] = pat[0]
        else:
            a = rng.choice((None, 0, 1, 2, 5))
            b = rng.choice((None, 1, 3, 10, 255))
            if a is not None and b is not None and b < a:
                b = a
            if a is not None:
                t.kwargs['min_length'] = a
            if b is not None:
                t.kwargs['max_length'] = b
        if len(t.kwargs) > 1 and rng.random() < 0.5:       # keyword order is free
            ks = list(t.kwargs.items())
            rng.shuffle(ks)
            t.kwargs = dict(ks)
    return t


# --------------------------------------------------------------------------------------------------------------
# the generator

_BUILTIN_CANON = frozenset(x.lower() for x in BUILTIN_TYPES) | frozenset(x.lower() for x in BUILTIN_ANNOTATIONS)


class _NoEx(Exception):
    """no example value can be written for this type here"""


_REDACT_PRIMS = frozenset(['String', 'Int32', 'Int64', 'UInt32', 'UInt64', 'Float32', 'Float64'])
_REGEXES = ('[0-9]+', 'a.c', '\\d{4}', '.+@', '^x', '(secret)')


def _wchoice(rng, weights):
    tot = sum(weights.values())
    x = rng.random() * tot
    for k, w in weights.items():
        x -= w
        if x < 0:
            return k
    return k


class _G:
    def __init__(self, rng, P):
        self.rng = rng
        self.P = P
        self.safe = P['py_safe']
        # py_loadable (preset 'rt'): additionally stay away from legal specs for which the python_types backend
        # emits modules that do not import (all observed with the unmodified backend): a string default
        # containing a blank (fmt_obj = pprint.pformat(width=1) wraps it -> emit() assertion), an annotation type without parameters (empty __init__ body),
        # an alias target that mentions another alias below List/Map/`?` (validators emitted out of order),
        # union-tag / Timestamp route attributes (`TagRef(...)` / `datetime` in the generated ROUTES table).
        self.loadable = P['py_loadable']
        self.in_alias = False
        self.canon = set()
        self.nsnames = set()
        self.nss = []
        self.nsby = {}
        self.vis = {}          # ns -> [ns itself] + imports
        self.D = {}            # (ns, name) -> def
        self.idx = {}          # (ns, name) -> creation index of a user type
        self.family = {}       # (ns, name) -> shared set of member names of the inheritance family
        self.depth = {}        # (ns, name) -> inheritance depth
        self.role = {}         # (ns, name) -> 'root' | 'leaf' (enumerated-subtype trees)
        self.types = []        # [(ns, def)] creation order
        self.aliases = {}      # ns -> [Alias]
        self.ares = {}         # (ns, name) -> resolved target of the alias
        self.atref = {}        # (ns, name) -> TypeRef of the alias target
        self.alias_red = {}    # (ns, name) -> alias carries a redactor
        self.annos = {}        # ns -> [(name, kind)]
        self.annot_types = {}  # ns -> [AnnotationType]
        self.counts = {}       # ns -> dict kind -> number still to create
        self.need_doc = set()  # id(def) that cannot be rendered without a doc
        self.labels = {}       # (ns, name) -> example labels that may be referenced (set when finalised)
        self.patch = {}        # (ns, name) -> patch def
        self.routes = {}       # ns -> [Route]
        self.counter = 0

    # ---- names ------------------------------------------------------------------------------------------
    def _ok_name(self, n):
        if n in KEYWORDS or n in LITERAL_WORDS or n in self.nsnames or '-' in n:
            return False           # STEER: '-' in identifiers makes quote() assert in every error path (D23)
        if 'namespace' in n:
            return False           # D14: stdin delivery splits on the substring
        c = n.replace('_', '').lower()
        if not c or c in _BUILTIN_CANON:
            return False
        if self.safe and (n in PY_RESERVED or n.lower() in PY_RESERVED):
            return False
        return True

    def fresh(self, ns, maker):
        """a definition name whose canonical key is unused in the whole model (A8, A10)"""
        for _ in range(40):
            n = maker()
            if not self._ok_name(n):
                continue
            key = canonical(n, ns)
            if key in self.canon:
                continue
            self.canon.add(key)
            return n
        while True:
            self.counter += 1
            n = maker()
            n = (n if self._ok_name(n) else 'Gen') + str(self.counter)
            key = canonical(n, ns)
            if key not in self.canon and self._ok_name(n):
                self.canon.add(key)
                return n

    def type_name(self):
        rng = self.rng
        if not self.safe and rng.random() < self.P['p_weird_name']:
            n = rng.choice(_WEIRD_TYPE)
            return n if rng.random() < 0.6 else n + rng.choice(('X', '_t', '2', 'Type'))
        n = rng.choice(_ADJ) + rng.choice(_NOUN)
        if rng.random() < 0.1:
            n += rng.choice(('V2', 'Base', 'Ex'))
        return n

    def member_name(self, fam, pool, weird):
        rng = self.rng
        for _ in range(40):
            if not self.safe and rng.random() < self.P['p_weird_name']:
                n = rng.choice(weird)
            else:
                n = rng.choice(pool)
                if rng.random() < 0.25:
                    n = n + '_' + rng.choice(pool)
            if n in fam or n in KEYWORDS or n in LITERAL_WORDS or n == 'other' or 'namespace' in n:
                continue
            if self.safe and n in PY_RESERVED:
                continue
            fam.add(n)
            return n
        while True:
            self.counter += 1
            n = '%s_%d' % (rng.choice(pool), self.counter)
            if n not in fam:
                fam.add(n)
                return n

    # ---- phase 1: namespaces --------------------------------------------------------------------------------
    def namespaces(self):
        rng, P = self.rng, self.P
        n = rng.randint(*P['n_namespaces'])
        pool = list(_NS_POOL)
        if not self.safe and rng.random() < P['p_weird_name']:
            pool += list(_NS_WEIRD)
        names = rng.sample(pool, n)
        self.want_cfg = rng.random() < P['p_stone_cfg']
        for nm in names:
            self.nsnames.add(nm)
        self.nsnames.add('stone_cfg')
        for nm in names:
            ns = Namespace(nm)
            self.nss.append(ns)
            self.nsby[nm] = ns
            self.canon.add(canonical(nm, nm))
        for i in range(n):
            for j in range(i):
                if rng.random() < P['p_import']:
                    # only "later imports earlier": no import cycle of any length (A5; longer cycles are not
                    # even detected by the compiler, D3)
                    self.nss[i].imports.append(names[j])
            if i > 0 and not self.nss[i].imports and rng.random() < 0.5:
                self.nss[i].imports.append(names[rng.randrange(i)])
            rng.shuffle(self.nss[i].imports)
        for ns in self.nss:
            self.vis[ns.name] = [ns.name] + list(ns.imports)
            self.aliases[ns.name] = []
            self.annos[ns.name] = []
            self.annot_types[ns.name] = []
            self.routes[ns.name] = []
            self.counts[ns.name] = dict(alias=0, route=0, annotation=0, annotation_type=0)

    # ---- phase 2: type skeletons ------------------------------------------------------------------------
    def _new_type(self, ns, d):
        key = (ns.name, d.name)
        self.D[key] = d
        self.idx[key] = len(self.types)
        self.types.append((ns.name, d))
        ns.defs.append(d)
        return key

    def _tref(self, ns_name, tns, name, nullable=False):
        return TypeRef(name, None if tns == ns_name else tns, nullable=nullable)

    def skeleton(self):
        rng, P = self.rng, self.P
        total = rng.randint(*P['n_defs'])
        per = [0] * len(self.nss)
        for _ in range(total):
            per[rng.randrange(len(per))] += 1
        for ns, cnt in zip(self.nss, per):
            k = 0
            while k < cnt:
                kind = _wchoice(rng, P['w_kind'])
                k += 1
                if kind == 'struct':
                    if rng.random() < P['p_subtypes']:
                        k += self._subtype_group(ns)
                    else:
                        key = self._plain_struct(ns)
                        while rng.random() < P['p_chain'] and self.depth[key] < 4:
                            key = self._plain_struct(ns, key)       # inheritance chain (depth <= 4)
                            k += 1
                elif kind == 'union':
                    self._union(ns)
                else:
                    self.counts[ns.name][kind] += 1

    def _plain_struct(self, ns, parent=None):
        rng, P = self.rng, self.P
        d = Struct(self.fresh(ns.name, self.type_name))
        key = (ns.name, d.name)
        cands = []
        if parent is not None:
            cands = [parent]
        elif rng.random() < P['p_parent']:
            for tns, t in self.types:
                tk = (tns, t.name)
                if t.kind == 'struct' and tns in self.vis[ns.name] and tk not in self.role and self.depth[tk] < 4:
                    cands.append(tk)
        if cands:
            # prefer deep parents so that depth 3-4 chains are reached
            w = [1 + 2 * self.depth[c] + (2 if c[0] != ns.name else 0) for c in cands]
            pk = rng.choices(cands, w)[0]
            d.parent = self._tref(ns.name, pk[0], pk[1])
            self.depth[key] = self.depth[pk] + 1
            self.family[key] = self.family[pk]
        else:
            self.depth[key] = 0
            self.family[key] = set()
        return self._new_type(ns, d)

    def _subtype_group(self, ns):
        """root enumerating 1-3 leaf subtypes, all in one namespace (B3, B5, B7, B8: the tree is two levels)"""
        rng = self.rng
        root = Struct(self.fresh(ns.name, self.type_name))
        rk = (ns.name, root.name)
        fam = set()
        self.depth[rk] = 0
        self.family[rk] = fam
        self.role[rk] = 'root'
        self._new_type(ns, root)
        subs = []
        n = rng.randint(1, 3)
        for _ in range(n):
            leaf = Struct(self.fresh(ns.name, self.type_name), parent=TypeRef(root.name))
            lk = (ns.name, leaf.name)
            self.depth[lk] = 1
            self.family[lk] = fam
            self.role[lk] = 'leaf'
            self._new_type(ns, leaf)
            subs.append((self.member_name(fam, _TAGS, _WEIRD_FIELD), TypeRef(leaf.name)))
        rng.shuffle(subs)
        root.subtypes = (subs, rng.random() < 0.6)
        return n

    def _union(self, ns):
        rng, P = self.rng, self.P
        d = Union(self.fresh(ns.name, self.type_name))
        key = (ns.name, d.name)
        cands = []
        if rng.random() < P['p_union_parent']:
            for tns, t in self.types:
                tk = (tns, t.name)
                if t.kind == 'union' and tns in self.vis[ns.name] and self.depth[tk] < 3:
                    cands.append(tk)
        want_closed = rng.random() < P['p_closed']
        if cands:
            pk = rng.choices(cands, [3 if c[0] != ns.name else 1 for c in cands])[0]
            par = self.D[pk]
            d.parent = self._tref(ns.name, pk[0], pk[1])
            d.closed = want_closed and par.closed          # A31: a closed union cannot extend an open one
            self.depth[key] = self.depth[pk] + 1
            self.family[key] = self.family[pk]
        else:
            d.closed = want_closed
            self.depth[key] = 0
            self.family[key] = set()
        self._new_type(ns, d)

    def finish_skeleton(self):
        self.vtypes = {}
        # STEER: a type that is (an ancestor of) the parent of a type in ANOTHER namespace is populated on demand
        # while the child's namespace is processed; if the parent's file comes later its custom annotations have
        # no annotation_type yet and record_custom_annotation_imports raises AttributeError (file-order
        # dependent).  Members of such types never carry custom annotations.
        self.xparent = set()
        for tns, t in self.types:
            if t.parent is not None and t.parent.ns is not None:
                k = (t.parent.ns, t.parent.name)
                while k is not None:
                    self.xparent.add(k)
                    pd = self.D[k].parent
                    k = (pd.ns or k[0], pd.name) if pd is not None else None
        for ns in self.nss:
            own, foreign = [], []
            for tns, t in self.types:
                if tns == ns.name:
                    own.append((tns, t))
                elif tns in self.vis[ns.name]:
                    foreign.append((tns, t))
            self.vtypes[ns.name] = (own, foreign)

    # ---- resolution ---------------------------------------------------------------------------------------
    def res(self, ns, t):
        """resolved shape of TypeRef t seen from namespace ns"""
        n = t.name
        if t.ns is None and n in BUILTIN_TYPES:
            if n == 'List':
                r = ('l', self.res(ns, t.args[0]), t)
            elif n == 'Map':
                r = ('m', self.res(ns, t.args[0]), self.res(ns, t.args[1]), t)
            elif n == 'Void':
                r = ('v',)
            else:
                r = ('p', n, t)
        else:
            tns = t.ns or ns
            d = self.D[(tns, n)]
            r = ({'alias': 'a', 'struct': 's', 'union': 'u'}[d.kind], tns, n)
        if t.nullable:
            r = ('n', r)
        return r

    def core(self, r):
        """follow aliases and nullables: (core, nullable_seen, alias_seen)"""
        nul = ali = False
        while r[0] in ('a', 'n'):
            if r[0] == 'a':
                ali = True
                r = self.ares[(r[1], r[2])]
            else:
                nul = True
                r = r[1]
        return r, nul, ali

    def nest(self, r):
        k = r[0]
        if k == 'n':
            return 1 + self.nest(r[1])
        if k == 'l':
            return 1 + self.nest(r[1])
        if k == 'm':
            return 1 + self.nest(r[2])
        if k == 'a':
            return self.nest(self.ares[(r[1], r[2])])
        return 0

    def redactable(self, ns, t, for_alias=False):
        """B26, conservatively: no alias reference at the top of a field type, no redacted alias anywhere on the
        way down, and a String / numeric leaf (the documented eligible types)"""
        r = self.res(ns, t)
        if not for_alias and r[0] == 'a':
            return False
        while True:
            k = r[0]
            if k == 'a':
                if self.alias_red.get((r[1], r[2])):
                    return False
                r = self.ares[(r[1], r[2])]
            elif k in ('n', 'l'):
                r = r[1]
            elif k == 'm':
                r = r[2]
            else:
                return k == 'p' and r[1] in _REDACT_PRIMS

    # ---- type expressions ---------------------------------------------------------------------------------
    def gen_type(self, ns, cur=None, depth=0, inside=False):
        """TypeRef for a field / tag / alias target / element.  `cur` = creation index of the type being filled:
        a *direct* (required) reference may only go to an earlier type, so every type has a finite value.
        List / Map / `?` wrappers of the written expression never nest deeper than 3."""
        rng, P = self.rng, self.P
        nul = depth < 3 and rng.random() < P['p_nullable']
        d = depth + (1 if nul else 0)
        r = rng.random()
        t = None
        if d < 3 and r < P['p_container']:
            if rng.random() < 0.62:
                el = self.gen_type(ns, cur, d + 1, True)
                t = TypeRef('List', None, [el])
                if rng.random() < P['p_params']:
                    el_r = self.core(self.res(ns, el))
                    lo = rng.choice((None, 0, 1, 2)) if el_r[0][0] == 'p' and not el_r[1] else rng.choice((None, 0))
                    hi = rng.choice((None, 1, 3, 10))
                    if lo and hi and hi < lo:
                        hi = lo
                    if lo is not None:
                        t.kwargs['min_items'] = lo
                    if hi is not None:
                        t.kwargs['max_items'] = hi
            else:
                key = TypeRef('String')
                if rng.random() < 0.3:
                    key = prim_type(rng, 'String', P)      # A20: the key must be a String *type*, not an alias
                t = TypeRef('Map', None, [key, self.gen_type(ns, cur, d + 1, True)])
        elif r < P['p_container'] + P['p_user']:
            own, foreign = self.vtypes[ns]
            pool = foreign if foreign and (not own or rng.random() < P['p_foreign']) else own
            if pool:
                tns, td = rng.choice(pool)
                t = self._tref(ns, tns, td.name)
                if not inside and cur is not None and self.idx[(tns, td.name)] >= cur and not nul:
                    if depth < 3:
                        nul = True
                    else:
                        t = None
        elif r < P['p_container'] + P['p_user'] + P['p_alias_use']:
            cands = [a for vn in self.vis[ns] for a in self.aliases.get(vn, ())]
            if self.loadable and self.in_alias:
                cands = []
            if cands:
                ans, a = rng.choice(cands)
                ar = ('a', ans, a.name)
                c, anul, _ = self.core(ar)
                t = self._tref(ns, ans, a.name)
                if self.nest(ar) + d > 5:
                    t = None
                elif not inside and cur is not None and c[0] in ('s', 'u') and not anul and not nul \
                        and self.idx[(c[1], c[2])] >= cur:
                    if depth < 3:
                        nul = True
                    else:
                        t = None
        if t is None:
            t = prim_type(rng, rng.choice(PRIMITIVES), P)
        if nul and not self.core(self.res(ns, t))[1]:
            t.nullable = True                  # A15: never a nullable of an (aliased) nullable
        return t

    # ---- phase 3: annotation types and annotations -----------------------------------------------------------
    def make_annotations(self):
        rng, P = self.rng, self.P
        prims = ('String', 'Int64', 'Int32', 'UInt32', 'Float64', 'Boolean')
        if not self.safe:
            prims += ('UInt64', 'Float32', 'Bytes', 'Timestamp')
        for ns in self.nss:
            for _ in range(self.counts[ns.name]['annotation_type']):
                self._annotation_type(ns, prims)
        for ns in self.nss:
            for _ in range(self.counts[ns.name]['annotation']):
                kind = _wchoice(rng, P['w_anno'])
                an = Annotation(self.fresh(ns.name, lambda: rng.choice(_ANNO_NAMES) + rng.choice(('', '', '2', 'X'))))
                if kind == 'custom':
                    cands = [(vn, at) for vn in self.vis[ns.name] for at in self.annot_types[vn]]
                    if not cands:
                        cands = [(ns.name, self._annotation_type(ns, prims))]
                    foreign = [c for c in cands if c[0] != ns.name]
                    if not foreign and ns.imports and rng.random() < 0.6:
                        imp = rng.choice(ns.imports)        # an annotation type living in an imported namespace
                        foreign = [(imp, self._annotation_type(self.nsby[imp], prims))]
                    vn, at = rng.choice(foreign if foreign and rng.random() < 0.6 else cands)
                    an.type_name = at.name
                    an.type_ns = None if vn == ns.name else vn       # B21: the namespace is imported
                    self._custom_args(an, at)
                else:
                    an.type_name = kind
                    kw = not self.safe and rng.random() < 0.2
                    if kind == 'Omitted':
                        c = rng.choice(_CALLERS)
                        if kw:
                            an.kwargs = {'omitted_caller': c}
                        else:
                            an.args = [c]
                    elif kind.startswith('Redacted') and rng.random() < 0.55:
                        rx = rng.choice(_REGEXES)
                        if kw:
                            an.kwargs = {'regex': rx}
                        else:
                            an.args = [rx]
                self.D[(ns.name, an.name)] = an
                self.annos[ns.name].append((an.name, kind))
                ns.defs.append(an)

    def _annotation_type(self, ns, prims):
        rng, P = self.rng, self.P
        at = AnnotationType(self.fresh(ns.name, lambda: rng.choice(_ANNOT_TYPE_NAMES) +
                                       rng.choice(('', '', 'Mark', 'Note'))))       # B19: never a built-in name
        fam = set()
        for _ in range(rng.choice((1, 1, 2, 3) if self.loadable else (0, 1, 1, 2, 3))):
            # B20: parameters are primitives (possibly nullable), not Void, not annotated; they are resolved
            # while the file is scanned, so only builtin type names are used
            pt = prim_type(rng, rng.choice(prims), P)
            p = Field(self.member_name(fam, _FIELDS, _WEIRD_FIELD), pt)
            r = rng.random()
            if r < 0.25:
                pt.nullable = True
            elif r < 0.7:
                p.default = prim_value(rng, pt, P['p_boundary'])
            at.params.append(p)
        if not at.params:
            self.need_doc.add(id(at))
        self.D[(ns.name, at.name)] = at
        self.annot_types[ns.name].append(at)
        ns.defs.append(at)
        return at

    def _custom_args(self, an, at):
        rng, P = self.rng, self.P
        required = [p for p in at.params if p.default is None and not p.type.nullable]
        style = rng.random()
        if at.params and style < 0.45 and not any(p in required for p in at.params[1:]):
            # STEER: two or more positional arguments make CustomAnnotation.set_attributes raise KeyError
            # (it fills self.kwargs while iterating and then indexes it for the next positional parameter),
            # so at most ONE positional argument is ever written.
            an.args = [prim_value(rng, at.params[0].type, P['p_boundary'])]
        elif at.params and (required or style < 0.8):
            ps = [p for p in at.params if p in required or rng.random() < 0.6]
            rng.shuffle(ps)
            # B18: never positional and keyword arguments together; `null` is never passed (it reaches the
            # type check as the lexer's NullToken object)
            an.kwargs = {p.name: prim_value(rng, p.type, P['p_boundary']) for p in ps}

    def pick_annos(self, ns, t, alias=False, no_custom=False):
        rng = self.rng
        cands = []
        for vn in self.vis[ns]:
            for name, kind in self.annos[vn]:
                if no_custom and kind == 'custom':
                    continue
                # STEER: `@other_ns.Custom` raises AttributeError (annotation_type is None) when the file of the
                # importing namespace is handed to the compiler before the imported one; built-in kinds are fine.
                if vn != ns and kind == 'custom':
                    continue
                cands.append((vn, name, kind))
        if not cands:
            return [], []
        red_ok = t is not None and self.redactable(ns, t, alias)
        groups = {}
        for c in cands:
            kind = c[2]
            if kind.startswith('Redacted'):
                if not red_ok:
                    continue                               # B26
                grp = 'red'
            elif kind == 'Omitted':
                grp = 'om'
            elif kind in ('Deprecated', 'Preview'):
                grp = 'dp'
            else:
                grp = 'c:' + c[1]
            if alias and grp in ('om', 'dp'):
                continue                                   # B25
            groups.setdefault(grp, []).append(c)
        if not groups:
            return [], []
        k = 1 + (rng.random() < 0.35) + (rng.random() < 0.15)
        keys = list(groups)
        rng.shuffle(keys)
        if 'red' in groups and rng.random() < 0.85:
            keys.remove('red')
            keys.insert(0, 'red')
        out, kinds = [], []
        for g in keys[:k]:                                 # B24: one of each conflicting group at most
            vn, name, kind = rng.choice(groups[g])
            out.append(AnnotationRef(name, None if vn == ns else vn))
            kinds.append(kind)
        return out, kinds

    # ---- phase 4: aliases -----------------------------------------------------------------------------------
    def make_aliases(self):
        rng, P = self.rng, self.P
        for ns in self.nss:
            for _ in range(self.counts[ns.name]['alias']):
                name = self.fresh(ns.name, lambda: self.type_name() if rng.random() < 0.6 else
                                  rng.choice(_ADJ) + rng.choice(('Id', 'Path', 'Rev', 'Ts', 'Ids', 'Map', 'Alias')))
                cands = [a for vn in self.vis[ns.name] for a in self.aliases[vn]]
                t = None
                if cands and rng.random() < 0.35:           # alias chain; targets are older aliases: no cycle (A32)
                    ans, a = rng.choice(cands)
                    t = self._tref(ns.name, ans, a.name)
                    if rng.random() < 0.25 and not self.core(('a', ans, a.name))[1] and not self.loadable:
                        t.nullable = True
                self.in_alias = True
                reds = [x for vn in self.vis[ns.name] for x in self.annos[vn] if x[1].startswith('Redacted')]
                force = False
                if t is None and reds and rng.random() < 0.3:
                    # an alias meant to carry a redactor: String / numeric target, possibly in a list or nullable
                    t = prim_type(rng, rng.choice(sorted(_REDACT_PRIMS)), P)
                    r = rng.random()
                    if r < 0.2:
                        t = TypeRef('List', None, [t])
                    elif r < 0.4:
                        t.nullable = True
                    force = True
                if t is None and rng.random() < 0.2:
                    el = self.gen_type(ns.name, None, 1, True)
                    t = TypeRef('Map', None, [TypeRef('String'), el]) if rng.random() < 0.55 else \
                        TypeRef('List', None, [el])
                if t is None:
                    t = self.gen_type(ns.name, None, 0, False)
                    # STEER (D2): `alias X = List(X)` is accepted and then loops; targets never mention X.
                al = Alias(name, t)
                key = (ns.name, name)
                self.D[key] = al
                self.ares[key] = self.res(ns.name, t)
                self.atref[key] = t
                if force or rng.random() < P['p_alias_annotate']:
                    al.annotations, kinds = self.pick_annos(ns.name, t, alias=True)
                    self.alias_red[key] = any(k.startswith('Redacted') for k in kinds)
                self.aliases[ns.name].append((ns.name, al))
                ns.defs.append(al)
                self.in_alias = False

    # ---- phase 5: members -------------------------------------------------------------------------------------
    def members_of(self, key, with_patch=True):
        """inherited-first [(owner_key, Field)] of a struct/union incl. patch fields"""
        d = self.D[key]
        out = []
        if d.parent is not None:
            out = self.members_of((d.parent.ns or key[0], d.parent.name), with_patch)
        own = d.fields if d.kind == 'struct' else d.tags
        out = out + [(key, fl) for fl in own]
        p = self.patch.get(key) if with_patch else None
        if p is not None:
            out = out + [(key, fl) for fl in (p.fields if p.kind == 'struct_patch' else p.tags)]
        return out

    def void_tags(self, key):
        d = self.D[key]
        tags = [fl.name for _, fl in self.members_of(key) if fl.type is None]
        if not d.closed:
            tags.append('other')       # every open union has the catch-all in all_fields (Appendix C 17)
        return tags

    def default_for(self, ns, t):
        """literal / TagRef default or None.  STEER (D6): never a default on List/Map/struct-typed fields
        (NotImplementedError in the compiler); A23: never on nullable fields."""
        rng = self.rng
        c, nul, _ = self.core(self.res(ns, t))
        if nul:
            return None
        if c[0] == 'p':
            v = prim_value(rng, c[2], self.P['p_boundary'])
            if self.loadable and isinstance(v, str):
                for _ in range(4):
                    if ' ' not in v and '\n' not in v and '\t' not in v:
                        break
                    v = prim_value(rng, c[2], self.P['p_boundary'])
                else:
                    return None
            if isinstance(v, float) and v.is_integer() and abs(v) < 1e15 and rng.random() < 0.5:
                v = int(v)                 # an integer literal is a legal default of a float field (Appendix C 19)
            return v
        if c[0] == 'u':
            tags = self.void_tags((c[1], c[2]))
            if tags[-1:] == ['other'] and rng.random() < 0.25:
                return TagRef('other')     # the implicit catch-all tag is a void tag too
            if tags[:-1] and tags[-1] == 'other' and rng.random() < 0.45:
                tags = tags[:-1]
            if tags:
                return TagRef(rng.choice(tags))
        return None

    def make_field(self, ns, key, struct):
        rng, P = self.rng, self.P
        fam = self.family[key]
        name = self.member_name(fam, _FIELDS if struct else _TAGS, _WEIRD_FIELD)
        if not struct and rng.random() < 0.5:
            fl = Field(name)                                  # void tag (A29: Void is never written)
        else:
            fl = Field(name, self.gen_type(ns, self.idx[key]))
            pdef = P['p_default'] * (2.5 if 'pattern' in fl.type.kwargs else 1.0)
            if struct and not fl.type.nullable and rng.random() < pdef:
                fl.default = self.default_for(ns, fl.type)
        if rng.random() < P['p_annotate']:
            fl.annotations, _ = self.pick_annos(ns, fl.type, no_custom=key in self.xparent)
        return fl

    def fill_members(self):
        rng, P = self.rng, self.P
        for ns, d in self.types:
            key = (ns, d.name)
            if d.kind == 'struct':
                lo, hi = P['n_fields']
                n = rng.randint(lo, hi)
                d.fields = [self.make_field(ns, key, True) for _ in range(n)]
                if not d.fields and d.subtypes is None:
                    self.need_doc.add(id(d))
            else:
                lo, hi = P['n_tags']
                n = rng.randint(lo, hi) if rng.random() > 0.06 else 0
                d.tags = [self.make_field(ns, key, False) for _ in range(n)]
                if not d.tags:
                    self.need_doc.add(id(d))

    # ---- phase 6: patches -------------------------------------------------------------------------------------
    def make_patches(self):
        rng, P = self.rng, self.P
        for ns, d in list(self.types):
            if rng.random() >= P['p_patch']:
                continue
            key = (ns, d.name)
            # STEER (D4): at most one patch per type -- a second one silently replaces the first.
            n = rng.randint(1, 2)
            if d.kind == 'struct':
                p = StructPatch(d.name, [self.make_field(ns, key, True) for _ in range(n)])
            else:
                p = UnionPatch(d.name, d.closed, [self.make_field(ns, key, False) for _ in range(n)])   # B10
            self.patch[key] = p
            self.nsby[ns].defs.append(p)


    # ---- phase 7: stone_cfg and routes --------------------------------------------------------------------------
    def make_cfg(self):
        """namespace stone_cfg with `struct Route` (B13-B17): the schema of route attributes"""
        rng, P = self.rng, self.P
        ns = Namespace('stone_cfg')
        self.canon.add(canonical('stone_cfg', 'stone_cfg'))
        self.canon.add(canonical('Route', 'stone_cfg'))
        self.vis['stone_cfg'] = ['stone_cfg']
        self.aliases['stone_cfg'] = []
        self.annos['stone_cfg'] = []
        self.annot_types['stone_cfg'] = []
        route = Struct('Route')
        self.D[('stone_cfg', 'Route')] = route
        unions = [(tns, d) for tns, d in self.types if d.kind == 'union' and
                  [f for _, f in self.members_of((tns, d.name)) if f.type is None]]
        names = ['host', 'style', 'auth', 'is_preview', 'allow_app_folder_app', 'select_admin_mode', 'scope', 'rate',
                 'weight', 'timeout_ms', 'owner_team', 'since', 'blob_key']
        rng.shuffle(names)
        host_alias = None
        for i in range(rng.randint(2, 7)):
            kind = rng.choice(('str', 'int', 'float', 'bool', 'bytes', 'ts', 'union', 'union', 'alias'))
            if kind == 'union' and unions:
                tns, d = rng.choice(unions)
                if tns not in ns.imports:
                    ns.imports.append(tns)
                    self.vis['stone_cfg'].append(tns)
                t = TypeRef(d.name, tns)
            elif kind == 'alias':
                if host_alias is None:
                    host_alias = Alias('AttrText', prim_type(rng, 'String', P))
                    self.canon.add(canonical('AttrText', 'stone_cfg'))
                    self.D[('stone_cfg', 'AttrText')] = host_alias
                    self.ares[('stone_cfg', 'AttrText')] = self.res('stone_cfg', host_alias.type)
                    self.atref[('stone_cfg', 'AttrText')] = host_alias.type
                    ns.defs.append(host_alias)
                t = TypeRef('AttrText')
            else:
                pn = {'str': 'String', 'int': rng.choice(('Int64', 'UInt32', 'Int32', 'UInt64')),
                      'float': rng.choice(('Float64', 'Float32')), 'bool': 'Boolean', 'bytes': 'Bytes',
                      'ts': 'Timestamp', 'union': 'Boolean'}[kind]
                t = prim_type(rng, pn, P)
            fl = Field(names[i], t)
            r = rng.random()
            if r < 0.5:
                fl.default = self.default_for('stone_cfg', t)
            elif r < 0.8:
                t.nullable = True
            route.fields.append(fl)
        ns.defs.append(route)
        self.cfg_ns = ns
        self.nss.append(ns)
        self.nsby['stone_cfg'] = ns

    def attr_value(self, fl):
        rng = self.rng
        c, nul, _ = self.core(self.res('stone_cfg', fl.type))
        if nul and rng.random() < 0.3:
            return None
        if c[0] == 'u':
            tags = self.void_tags((c[1], c[2]))
            return TagRef(rng.choice(tags[:-1] or tags))
        return prim_value(rng, c[2], self.P['p_boundary'])

    def route_type(self, ns, what):
        rng, P = self.rng, self.P
        own, foreign = self.vtypes[ns]
        r = rng.random()
        if r < P['p_route_exotic']:
            t = self.gen_type(ns, None, 1, True)         # primitives, lists, maps, aliases, nullables (D10)
            return t
        pool = foreign if foreign and (not own or rng.random() < P['p_foreign']) else own
        want = 'union' if what == 'error' else 'struct'
        pool2 = [x for x in pool if x[1].kind == want and self.role.get((x[0], x[1].name)) != 'leaf'] or \
            [x for x in own + foreign if x[1].kind == want]
        if pool2 and rng.random() < (0.5 if what == 'error' else 0.75):
            tns, d = rng.choice(pool2)
            return self._tref(ns, tns, d.name)
        return TypeRef('Void')

    def make_routes(self):
        rng, P = self.rng, self.P
        nroutes = sum(self.counts[ns.name]['route'] for ns in self.nss)
        self.cfg_ns = None
        if self.want_cfg and (nroutes or rng.random() < 0.3):
            self.make_cfg()
        schema = self.D[('stone_cfg', 'Route')].fields if self.cfg_ns else []
        for ns in self.nss:
            if ns.name == 'stone_cfg':
                continue                                   # B13
            mine = self.routes[ns.name]
            for _ in range(self.counts[ns.name]['route']):
                if mine and rng.random() < P['p_route_version']:
                    name = rng.choice(mine).name            # A9: a new version of an existing route
                    version = max(r.version for r in mine if r.name == name) + rng.choice((1, 1, 1, 2, 5))
                else:
                    def mk():
                        n = rng.choice(_VERBS) + '_' + rng.choice(_OBJS)
                        if not self.safe and rng.random() < P['p_route_path']:
                            n = rng.choice(_OBJS) + '/' + n + rng.choice(('', '/v2', '/x_1'))
                        return n
                    name = self.fresh(ns.name, mk)
                    version = 1 if rng.random() < 0.8 else rng.choice((2, 3, 10))
                rt = Route(name, version, self.route_type(ns.name, 'arg'), self.route_type(ns.name, 'result'),
                           self.route_type(ns.name, 'error'))
                for fl in schema:
                    required = fl.default is None and not fl.type.nullable
                    if required or rng.random() < P['p_attr']:
                        rt.attrs[fl.name] = self.attr_value(fl)         # B15-B17
                if len(rt.attrs) > 1 and rng.random() < 0.5:
                    items = list(rt.attrs.items())
                    rng.shuffle(items)
                    rt.attrs = dict(items)
                mine.append(rt)
                ns.defs.append(rt)
            for rt in mine:
                top = max(o.version for o in mine if o.name == rt.name)
                if top > rt.version and rng.random() < 0.5:
                    rt.deprecated = (rt.name, top)           # an old version deprecated by the newest one
                elif rng.random() < P['p_deprecated']:
                    others = [(o.name, o.version) for o in mine if o is not rt]
                    newer = [o for o in others if o[1] > 1]
                    if newer and rng.random() < 0.75:
                        others = newer
                    if others and rng.random() < 0.6:
                        rt.deprecated = rng.choice(others)              # A33: an existing route and version
                    else:
                        rt.deprecated = True

    # ---- phase 8: examples ------------------------------------------------------------------------------------
    def ref_label(self, key):
        d = self.D[key]
        cands = list(self.labels.get(key, ()))
        if d.kind == 'union':
            cands += self.void_tags(key)       # a void tag name is an implicit example label
        if not cands:
            raise _NoEx()
        return self.rng.choice(cands)

    def ex_val(self, r, ref_ok=True, dict_ok=True, um=False, inl=False):
        """example value for resolved type r.  The flags keep the value inside what the compiler's example
        evaluator (get_json_val) handles without crashing:
          ref_ok  -- an example reference may be written here
          dict_ok -- a map literal may be written here
          um      -- inside a union example (maps are kept raw there, nullables are not unwrapped in lists)"""
        rng = self.rng
        k = r[0]
        if k == 'n':
            if rng.random() < 0.3:
                return None
            if um and inl and self.core(r[1])[0][0] == 'l':
                ref_ok = False         # STEER: union evaluator walks List(X?) items with X? instead of X
            try:
                return self.ex_val(r[1], ref_ok, dict_ok, um, inl)
            except _NoEx:
                return None
        if k == 'a':
            tgt = self.ares[(r[1], r[2])]
            c, nul, _ = self.core(tgt)
            if c[0] in ('s', 'u') and nul:
                return None            # STEER: a label for `alias A = S?` hits Nullable._has_example (AttributeError)
            if c[0] == 'l':
                # STEER (D21): below an alias of a list the evaluator is one level out of step: references raise
                # AttributeError ('List' has no _has_example), map literals too ('List' has no value_data_type)
                ref_ok = False
                if not um:
                    dict_ok = False
            elif c[0] == 'm':
                ref_ok = False         # kept raw: a reference would stay an unevaluated AstExampleRef
            return self.ex_val(tgt, ref_ok, dict_ok, um, inl)
        if k == 'p':
            return prim_value(rng, r[2], self.P['p_boundary'])
        if k in ('s', 'u'):
            if not ref_ok:
                raise _NoEx()
            return ExampleRef(self.ref_label((r[1], r[2])))
        if k == 'l':
            t = r[2]
            lo = t.kwargs.get('min_items') or 0
            hi = t.kwargs.get('max_items')
            n = rng.randint(lo, min(hi if hi is not None else lo + 3, lo + 3))
            try:
                # the grammar has no map literal inside a list literal (ex_list_item), so below a list no map
                # can be written at all: List(Map(..)) examples are empty lists
                return [self.ex_val(r[1], ref_ok, False, um, True) for _ in range(n)]
            except _NoEx:
                if lo == 0:
                    return []
                raise
        if k == 'm':
            if not dict_ok:
                raise _NoEx()
            out = {}
            try:
                for _ in range(rng.randint(0, 3)):
                    out[prim_value(rng, r[1][2], 0.2)] = self.ex_val(r[2], ref_ok and not um, dict_ok, um, inl)
            except _NoEx:
                return {}
            return out
        raise _NoEx()

    def _deps(self, key):
        out = []

        def walk(r):
            k = r[0]
            if k in ('s', 'u'):
                out.append((r[1], r[2]))
            elif k == 'a':
                walk(self.ares[(r[1], r[2])])
            elif k in ('n', 'l'):
                walk(r[1])
            elif k == 'm':
                walk(r[2])
        for owner, fl in self.members_of(key):
            if fl.type is not None:
                walk(self.res(owner[0], fl.type))
        d = self.D[key]
        if d.kind == 'struct' and d.subtypes:
            out.extend((key[0], tr.name) for _, tr in d.subtypes[0])
        return out

    def make_examples(self):
        """References only ever point to types whose examples are already final, so the reference graph is
        acyclic (STEER, D22: mutually recursive examples end in RecursionError)."""
        rng = self.rng
        order = [(ns, d.name) for ns, d in self.types]
        rng.shuffle(order)
        done, active = set(), set()

        def visit(key):
            if key in done or key in active:
                return
            active.add(key)
            for dk in self._deps(key):
                visit(dk)
            active.discard(key)
            done.add(key)
            self._examples_for(key)
        for key in order:
            visit(key)

    def _examples_for(self, key):
        rng, P = self.rng, self.P
        d = self.D[key]
        if rng.random() >= P['p_examples']:
            self.labels[key] = []
            return
        members = self.members_of(key)
        taken = set(fl.name for _, fl in members) | {'other'}
        n = rng.randint(1, P['max_examples'])
        pool = [x for x in _LABELS if x not in taken]
        labels = rng.sample(pool, min(n, len(pool)))
        if 'default' in labels and rng.random() < 0.7:
            labels.remove('default')
            labels.insert(0, 'default')
        made = []
        patch = self.patch.get(key)
        for label in labels:
            try:
                if d.kind == 'union':
                    vals = self._union_example(key, d, members)
                elif d.subtypes:
                    cands = [(tag, tr) for tag, tr in d.subtypes[0] if self.labels.get((key[0], tr.name))]
                    if not cands:
                        raise _NoEx()
                    tag, tr = rng.choice(cands)
                    vals = {tag: ExampleRef(rng.choice(self.labels[(key[0], tr.name)]))}      # C6
                else:
                    vals = {}
                    for owner, fl in members:
                        required = not fl.type.nullable and fl.default is None              # C2
                        if required or rng.random() < 0.6:
                            try:
                                vals[fl.name] = self.ex_val(self.res(owner[0], fl.type))
                            except _NoEx:
                                if required:
                                    raise
                    if len(vals) > 1 and rng.random() < 0.3:
                        items = list(vals.items())
                        rng.shuffle(items)
                        vals = dict(items)
            except _NoEx:
                continue
            ex = Example(label, None, vals)
            if patch is not None and patch.kind == 'struct_patch' and not d.subtypes:
                pn = set(fl.name for fl in patch.fields)
                pv = {k: v for k, v in vals.items() if k in pn}
                if pv:
                    # a patch example adds its fields to the example with the same label (B12)
                    ex.fields = {k: v for k, v in vals.items() if k not in pn}
                    patch.examples.append(Example(label, None, pv))
            d.examples.append(ex)
            made.append(label)
        self.labels[key] = made

    def _union_example(self, key, d, members):
        rng = self.rng
        cands = list(members)
        if not d.closed and rng.random() < 0.1:
            return {'other': None}
        if not cands:
            if d.closed:
                raise _NoEx()
            return {'other': None}
        for _ in range(4):
            owner, fl = rng.choice(cands)
            if fl.type is None:
                return {fl.name: None}                    # void tags are written `tag = null`
            r = self.res(owner[0], fl.type)
            try:
                if r[0] == 'n' and r[1][0] == 's' and not self.D[(r[1][1], r[1][2])].subtypes:
                    # STEER (D19): `t = null` for a nullable plain-struct tag -> ex_val.update(None) TypeError
                    return {fl.name: self.ex_val(r[1], um=True)}
                return {fl.name: self.ex_val(r, um=True)}
            except _NoEx:
                continue
        raise _NoEx()

    # ---- phase 9: docs ------------------------------------------------------------------------------------------
    def doc_tables(self):
        self.dtypes, self.droutes = {}, {}
        for ns in self.nss:
            self.dtypes[ns.name] = [d.name for d in ns.defs if d.kind in ('struct', 'union')]
            self.droutes[ns.name] = [(d.name, d.version) for d in ns.defs if d.kind == 'route']

    def _route_ref(self, name, version):
        if version == 1 and self.rng.random() < 0.7:
            return name
        return '%s:%d' % (name, version)

    def doc_ref(self, ns, key, route_doc):
        """one resolvable reference (C8-C13); '' when nothing of the drawn kind exists"""
        rng = self.rng
        kind = rng.choice(('type', 'type', 'field', 'field', 'route', 'route', 'link', 'val'))
        imports = [m for m in self.vis[ns][1:] if m != 'stone_cfg']
        if kind == 'type':
            if imports and rng.random() < 0.35:
                m = rng.choice(imports)
                if self.dtypes[m]:
                    return ':type:`%s.%s`' % (m, rng.choice(self.dtypes[m]))
            if self.dtypes[ns]:
                return ':type:`%s`' % rng.choice(self.dtypes[ns])
            return ''
        if kind == 'field':
            # STEER (D6): `:field:` without a type in a route doc asserts; `:field:`ns.T`` (two parts into an
            # imported namespace), alias and annotation targets raise ValueError / AttributeError.
            if key is not None and not route_doc and rng.random() < 0.5:
                names = [fl.name for _, fl in self.members_of(key)]
                if self.D[key].kind == 'union' and not self.D[key].closed:
                    names.append('other')
                if names:
                    return ':field:`%s`' % rng.choice(names)
            m = ns
            if imports and rng.random() < 0.3:
                m = rng.choice(imports)
            tn = [t for t in self.dtypes[m] if self.members_of((m, t))]
            if tn:
                t = rng.choice(tn)
                f = rng.choice(self.members_of((m, t)))[1].name
                return ':field:`%s%s.%s`' % ('' if m == ns else m + '.', t, f)
            return ''
        if kind == 'route':
            m = ns
            if imports and rng.random() < 0.3:
                m = rng.choice(imports)
            if self.droutes[m]:
                n, v = rng.choice(self.droutes[m])
                return ':route:`%s%s`' % ('' if m == ns else m + '.', self._route_ref(n, v))
            return ''
        if kind == 'link':
            return ':link:`%s %s`' % (rng.choice(('Stone Repo', 'the docs', 'Help Center page', 'RFC 3339')),
                                      rng.choice(('https://github.com/dropbox/stone', 'https://example.com/a%20b?x=1',
                                                  'http://x.y/z#frag')))
        return ':val:`%s`' % rng.choice(('null', 'true', 'false', '0', '-12', '3.5', '1e5', '2.', '"str"', '""',
                                         '"two words"'))

    def gen_doc(self, ns, key=None, route_doc=False, refs=True):
        rng, P = self.rng, self.P
        lines = []
        cur = []
        for s in range(rng.randint(1, 3)):
            words = [rng.choice(_DOC_WORDS) for _ in range(rng.randint(2, 7))]
            words[0] = words[0].capitalize()
            if rng.random() < P['p_unicode']:
                words.insert(rng.randrange(len(words) + 1), rng.choice(_DOC_UNI))
            if rng.random() < P['p_unicode']:
                words.insert(rng.randrange(len(words) + 1), rng.choice(_DOC_ODD))
            if refs and rng.random() < P['p_doc_ref']:
                ref = self.doc_ref(ns, key, route_doc)
                if ref:
                    words.insert(rng.randrange(1, len(words) + 1), ref)
            words[-1] += '.'
            cur.extend(words)
            if rng.random() < P['p_multiline']:
                lines.append(' '.join(cur))
                cur = []
                r = rng.random()
                if r < 0.3:                                # paragraph break: one blank line, sometimes two or three
                    lines.extend([''] * (1 if r < 0.2 else 2 if r < 0.27 else 3))
        if cur:
            lines.append(' '.join(cur))
        while lines and lines[-1] == '':
            lines.pop()
        return '\n'.join(lines)

    def make_docs(self):
        rng, P = self.rng, self.P
        self.doc_tables()
        pd = P['p_doc']
        for ns in self.nss:
            nsn = ns.name
            refs = nsn != 'stone_cfg'
            if rng.random() < pd:
                ns.doc = self.gen_doc(nsn, refs=refs)
            for d in ns.defs:
                k = d.kind
                key = (nsn, d.name) if k in ('struct', 'union', 'struct_patch', 'union_patch') else None
                if k in ('struct', 'union', 'alias', 'annotation_type', 'route'):
                    if id(d) in self.need_doc or rng.random() < pd:
                        d.doc = self.gen_doc(nsn, key if k in ('struct', 'union') else None, k == 'route', refs)
                if key is not None:
                    for fl in (d.fields if k in ('struct', 'struct_patch') else d.tags):
                        if rng.random() < pd * 0.8:
                            fl.doc = self.gen_doc(nsn, key, False, refs)
                    for ex in d.examples:
                        if ex.fields and rng.random() < pd * 0.5:
                            ex.text = self.gen_doc(nsn, refs=False)
                elif k == 'annotation_type':
                    for p in d.params:
                        if rng.random() < pd * 0.8:
                            p.doc = self.gen_doc(nsn, refs=False)

    # ---- phase 10: definition order and files -----------------------------------------------------------------
    def make_files(self):
        rng, P = self.rng, self.P
        for ns in self.nss:
            rng.shuffle(ns.defs)           # use before definition is the norm
            n = len(ns.defs)
            k = 1
            if rng.random() < P['p_multifile']:
                k = rng.randint(2, max(2, min(P['max_files'], n + 1)))
            files = [[] for _ in range(k)]
            for i in range(n):
                files[rng.randrange(k)].append(i)
            ns.files = files
            ns.doc_file = rng.randrange(k)


def gen_model(rng, profile='default'):
    """a legal specification (by construction), deterministic from rng"""
    P = get_profile(profile)
    g = _G(rng, P)
    g.namespaces()
    g.skeleton()
    g.finish_skeleton()
    g.make_annotations()
    g.make_aliases()
    g.fill_members()
    g.make_patches()
    g.make_routes()
    g.make_examples()
    g.make_docs()
    g.make_files()
    return Model(g.nss, P['name'])


def gen_layout(rng, model, noise=True):
    """a random layout that must not change the meaning (see Layout)"""
    lay = Layout()
    for ns in model.namespaces:
        n = len(ns.defs)
        k = rng.choice((1, 1, 2, 2, 3, 4, 5, 6))
        perm = list(range(n))
        rng.shuffle(perm)
        files = [[] for _ in range(k)]
        for i in perm:
            files[rng.randrange(k)].append(i)
        lay.files[ns.name] = files
        lay.doc_file[ns.name] = rng.randrange(k)
        imps = []
        for _ in ns.imports:
            where = [i for i in range(k) if rng.random() < 0.4]
            imps.append(where or [rng.randrange(k)])
        lay.import_files[ns.name] = imps
        lay.file_order.extend((ns.name, i) for i in range(k))
        for d in ns.defs:
            if d.kind in ('struct', 'union') and rng.random() < 0.15:
                lay.inline.append((ns.name, d.name))
    rng.shuffle(lay.file_order)
    if noise:
        s = rng.choice((0.3, 1.0, 1.0, 2.0))
        lay.noise = dict(seed=rng.getrandbits(32), blank=0.1 * s, comment=0.08 * s, trail_ws=0.1 * s,
                         trail_comment=0.06 * s, brk=0.25 * s, syntax=0.25 * s)
    return lay


# --------------------------------------------------------------------------------------------------------------
# feature coverage of a model (used by the self-test and by suites to stratify)

def _walk_types(t, depth=0):
    """(TypeRef, wrapper depth) for t and everything below"""
    yield t, depth
    for a in t.args:
        if isinstance(a, TypeRef):
            yield from _walk_types(a, depth + 1)


def _type_nest(t):
    k = 1 if t.nullable else 0
    if t.ns is None and t.name == 'List':
        return k + 1 + _type_nest(t.args[0])
    if t.ns is None and t.name == 'Map':
        return k + 1 + _type_nest(t.args[1])
    return k


def _has_ref(v):
    if isinstance(v, ExampleRef):
        return True
    if isinstance(v, list):
        return any(_has_ref(x) for x in v)
    if isinstance(v, dict):
        return any(_has_ref(x) for x in v.values())
    return False


def features(model):
    """dict feature name -> count for one model"""
    import re
    F = {}

    def hit(k, n=1):
        F[k] = F.get(k, 0) + n
    index = {}
    for ns, d in iter_defs(model):
        if d.kind not in ('struct_patch', 'union_patch'):
            index[(ns.name, d.name)] = d

    def kind_of(ns, t):
        if t.ns is None and t.name in BUILTIN_TYPES:
            return t.name
        d = index.get((t.ns or ns, t.name))
        return d.kind if d is not None else '?'

    def anno_kind(ns, a):
        d = index[(a.ns or ns, a.name)]
        return d.type_name if d.type_ns is None and d.type_name in BUILTIN_ANNOTATIONS else 'custom'
    max_nest = 0

    def see_type(ns, t, where):
        nonlocal max_nest
        max_nest = max(max_nest, _type_nest(t))
        for x, _ in _walk_types(t):
            k = kind_of(ns, x)
            if x.nullable:
                hit('type.nullable')
            if x.ns is not None:
                hit('type.foreign')
                hit('type.foreign.' + where)
            if k in BUILTIN_TYPES:
                hit('prim.' + k)
                for a, v in x.kwargs.items():
                    hit('param.' + a)
                    if x.name in INT_BOUNDS and v in INT_BOUNDS[x.name]:
                        hit('param.%s.extreme' % a)
                    if x.name == 'Float32' and abs(v) == F32_MAX:
                        hit('param.%s.extreme' % a)
                if k == 'Timestamp':
                    hit('param.format')
            elif k in ('struct', 'union', 'alias'):
                hit('type.user.' + k)

    def see_doc(doc, where):
        if doc is None:
            return
        hit('doc')
        hit('doc.' + where)
        for tag, val in re.findall(r':([A-z]+):`(.*?)`', doc):
            hit('doc.ref.' + tag)
            dots = val.count('.')
            if tag == 'field':
                hit('doc.ref.field.' + ('bare', 'qualified', 'foreign')[min(dots, 2)])
            elif tag in ('type', 'route') and dots:
                hit('doc.ref.%s.foreign' % tag)
            if tag == 'route' and ':' in val:
                hit('doc.ref.route.version')
        if any(ord(c) > 127 for c in doc):
            hit('doc.unicode')
        if '"' in doc:
            hit('doc.quote')
        if '\\' in doc:
            hit('doc.backslash')
        if '\n' in doc:
            hit('doc.multiline')
        if '\n\n' in doc:
            hit('doc.paragraph')

    def see_str(v):
        if isinstance(v, str):
            if any(ord(c) > 127 for c in v):
                hit('string.unicode')
            if '"' in v:
                hit('string.quote')
            if '\\' in v:
                hit('string.backslash')
        elif isinstance(v, list):
            for x in v:
                see_str(x)
        elif isinstance(v, dict):
            for k, x in v.items():
                see_str(k)
                see_str(x)

    def see_member(ns, fl, where):
        if fl.type is not None:
            see_type(ns.name, fl.type, 'field')
        see_doc(fl.doc, 'field')
        if fl.default is not None:
            v = fl.default
            see_str(v)
            if isinstance(v, TagRef):
                hit('default.tag')
                if fl.type.ns is not None:
                    hit('default.tag.foreign')
                if v.tag == 'other':
                    hit('default.tag.other')
            else:
                tn, tns = fl.type.name, fl.type.ns or ns.name
                base = index.get((tns, tn)) if fl.type.ns or tn not in BUILTIN_TYPES else None
                kw = fl.type.kwargs
                if base is not None and base.kind == 'alias':
                    hit('default.via_alias')
                    while base is not None and base.kind == 'alias':
                        tn, tns, kw = base.type.name, base.type.ns or tns, base.type.kwargs
                        base = index.get((tns, tn)) if base.type.ns or tn not in BUILTIN_TYPES else None
                hit('default.' + tn)
                if tn in ('Float32', 'Float64') and isinstance(v, int):
                    hit('default.float_from_int')
                if tn == 'String' and 'pattern' in kw:
                    hit('default.string_pattern')
        if fl.annotations:
            if len(fl.annotations) > 1:
                hit('applied.multi')
            for a in fl.annotations:
                hit('applied.' + anno_kind(ns.name, a))
                hit('applied.on_' + where)
                if a.ns is not None:
                    hit('applied.foreign')

    def see_examples(ns, d, exs, patch=False):
        if exs:
            hit('example')
            hit('example.on_' + d.kind)
            if len(exs) > 1:
                hit('example.multi_label')
        for ex in exs:
            see_doc(ex.text, 'example')
            if not ex.fields:
                hit('example.empty')
            for k, v in ex.fields.items():
                see_str(v)
                if v is None:
                    hit('example.null')
                if isinstance(v, ExampleRef):
                    hit('example.ref')
                if isinstance(v, list):
                    hit('example.list')
                    if any(isinstance(x, ExampleRef) for x in v):
                        hit('example.list_of_refs')
                    if any(isinstance(x, list) for x in v):
                        hit('example.nested_list')
                if isinstance(v, dict):
                    hit('example.map')
                    if _has_ref(v):
                        hit('example.map_of_refs')
                if d.kind == 'struct' and d.parent is not None and k not in [f.name for f in d.fields]:
                    hit('example.inherited_field')
    n_ns = 0
    max_depth = 0
    max_files = 0
    for ns in model.namespaces:
        if ns.name == 'stone_cfg':
            hit('stone_cfg')
        else:
            n_ns += 1
        if ns.imports:
            hit('imports')
        see_doc(ns.doc, 'ns')
        nf = len(ns.files)
        max_files = max(max_files, nf)
        if nf > 1:
            hit('files.multi')
        if any(not f for f in ns.files) and nf > 1:
            hit('files.empty')
        pos = {}
        for fi, f in enumerate(ns.files):
            for j, i in enumerate(f):
                pos[ns.defs[i].name] = (fi, j)
        for d in ns.defs:
            k = d.kind
            hit(k)
            see_doc(d.doc, k)
            if k == 'alias':
                see_type(ns.name, d.type, 'alias')
                tk = kind_of(ns.name, d.type)
                hit('alias.' + {'alias': 'chain', 'struct': 'user', 'union': 'user', 'List': 'list',
                                'Map': 'map'}.get(tk, 'prim'))
                if d.type.nullable:
                    hit('alias.nullable')
                for a in d.annotations:
                    ak = anno_kind(ns.name, a)
                    hit('alias.redactor' if ak.startswith('Redacted') else 'alias.custom_anno')
            elif k in ('struct', 'struct_patch'):
                if k == 'struct':
                    dep = inheritance_depth(model, ns.name, d)
                    max_depth = max(max_depth, dep)
                    if d.parent is not None and d.parent.ns is not None:
                        hit('inherit.cross_ns')
                    if d.subtypes:
                        hit('subtypes')
                        hit('subtypes.catch_all' if d.subtypes[1] else 'subtypes.closed')
                else:
                    hit('patch.struct')
                    if any(f.default is None and not f.type.nullable for f in d.fields):
                        hit('patch.required_field')
                    if d.examples:
                        hit('example.patch')
                for fl in d.fields:
                    see_member(ns, fl, 'field')
                    if fl.type is not None:
                        for x, _ in _walk_types(fl.type):
                            if x.ns is None and x.name in pos and pos[x.name] > pos.get(d.name, (99, 99)):
                                hit('forward_ref')
                            if x.ns is None and x.name == d.name:
                                hit('type.self_ref')
                see_examples(ns, d, d.examples)
                if k == 'struct' and d.subtypes and d.examples:
                    hit('example.subtypes_root')
            elif k in ('union', 'union_patch'):
                if k == 'union':
                    if d.closed:
                        hit('union.closed')
                    if d.parent is not None:
                        hit('union.parent')
                        if d.parent.ns is not None:
                            hit('union.parent.cross_ns')
                    if not d.tags:
                        hit('union.empty')
                else:
                    hit('patch.union')
                for fl in d.tags:
                    see_member(ns, fl, 'tag')
                    hit('union.void_tag' if fl.type is None else 'union.typed_tag')
                see_examples(ns, d, d.examples)
                for ex in d.examples:
                    for tg, v in ex.fields.items():
                        if isinstance(v, ExampleRef):
                            hit('example.union.ref_payload')
            elif k == 'route':
                if d.version > 1:
                    hit('route.version>1')
                if '/' in d.name:
                    hit('route.path_name')
                if d.deprecated is True:
                    hit('route.deprecated')
                elif d.deprecated:
                    hit('route.deprecated_by')
                    if d.deprecated[1] > 1:
                        hit('route.deprecated_by.version')
                for t in (d.arg, d.result, d.error):
                    see_type(ns.name, t, 'route')
                    tk = kind_of(ns.name, t)
                    if tk == 'Void':
                        hit('route.void')
                    elif tk not in ('struct', 'union') or t.nullable:
                        hit('route.exotic_type')
                if d.attrs:
                    hit('route.attrs')
                for a, v in d.attrs.items():
                    see_str(v)
                    hit('route.attr.' + ('null' if v is None else 'tag' if isinstance(v, TagRef)
                                         else type(v).__name__))
            elif k == 'annotation':
                ak = d.type_name if d.type_ns is None and d.type_name in BUILTIN_ANNOTATIONS else 'custom'
                hit('anno.def.' + ak)
                if ak.startswith('Redacted'):
                    hit('anno.regex' if (d.args or d.kwargs) else 'anno.noregex')
                if d.kwargs:
                    hit('anno.kwargs')
                if ak == 'custom':
                    if d.args:
                        hit('anno.custom.positional')
                    if d.type_ns is not None:
                        hit('anno.custom.foreign_type')
            elif k == 'annotation_type':
                for p in d.params:
                    see_member(ns, p, 'param')
                    hit('annotation_type.param')
                    if p.type.nullable:
                        hit('annotation_type.param_nullable')
                    if p.default is not None:
                        hit('annotation_type.param_default')
        names = {}
        for d in ns.defs:
            if d.kind == 'route':
                names.setdefault(d.name, []).append(d.version)
        if any(len(v) > 1 for v in names.values()):
            hit('route.multi_version')
    hit('namespaces=%d' % n_ns)
    hit('inherit.depth=%d' % max_depth)
    for i in range(1, max_depth + 1):
        hit('inherit.depth>=%d' % i)
    hit('nest=%d' % max_nest)
    hit('files.max=%d' % max_files)
    return F
