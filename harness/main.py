"""Entry point: ./check Cxx [--tier quick|thorough] [--replay FILE]"""
import argparse
import importlib
import os
import sys
import traceback
import warnings

warnings.filterwarnings('ignore', category=SyntaxWarning)   # generated modules echo spec docs with backslashes

sys.path.insert(0, os.path.dirname(os.path.dirname(os.path.abspath(__file__))))
from harness import core  # noqa: E402


def main():
    ap = argparse.ArgumentParser()
    ap.add_argument('prop')
    ap.add_argument('--tier', default=os.environ.get('VERIF_TIER', 'quick'), choices=['quick', 'thorough'])
    ap.add_argument('--replay', default=None)
    ap.add_argument('--seed', type=int, default=int(os.environ.get('VERIF_SEED', '0') or 0))
    args = ap.parse_args()
    core.ensure_repo_on_path()
    try:
        mod = importlib.import_module('harness.props.%s' % args.prop)
    except ImportError:
        traceback.print_exc()
        print('no check for %s' % args.prop)
        return 2
    ck = core.Check(args.prop, args.tier, args.seed)
    try:
        if args.replay:
            return mod.replay(ck, args.replay)
        return mod.run(ck)
    except core.Timeout:
        print('timeout')
        return 2
    except Exception:
        traceback.print_exc()
        return 2


if __name__ == '__main__':
    sys.exit(main())
