"""apisig -- complete, deterministic, canonical dump of a `stone.ir.Api` (as produced by specs_to_ir).

    sig = signature(api)            # JSON-able (dict / list / str / int / bool / None only)
    diff(sig_a, sig_b)              # None, or 'namespaces[2].data_types[3].fields[1].doc: 'a' != 'b''
    digest(sig)                     # sha1 of the canonical JSON text
    signature(api, mask=MASKABLE)   # the same, with the named order-of-declaration components sorted (see MASKABLE)

Purpose (property C11): decide whether two differently laid-out sets of spec files compile to THE SAME Api.
Two equal Apis give `==` signatures and byte-identical `canonical_json(sig)`, whatever the object identities, the
hash seed, and the paths / line numbers of the AST nodes (no `_ast_node`, path, lineno, lexpos is ever read).

Rules of the dump
  * every list the Api exposes as a list keeps ITS order: api.namespaces (OrderedDict), ns.data_types, ns.routes,
    ns.aliases, ns.annotations, ns.annotation_types, fields, all_fields, enumerated subtypes, Struct.subtypes,
    get_examples() (OrderedDict), example values (OrderedDict / dict literals, dumped as [key, value] pair lists),
    linearize_data_types / linearize_aliases, CustomAnnotation.args and .kwargs (pair list, iteration order: the python
    backend iterates it), route.attrs key order (`attrs_order`), get_imported_namespaces (stone sorts by name),
    get_route_io_data_types (stone sorts by name, see below).
  * SORTED, because the container is a set or a lookup dict whose iteration order is not part of the API:
      - ns.data_type_by_name / alias_by_name / annotation_by_name / annotation_type_by_name / route_by_name /
        routes_by_name (+ ApiRoutesByVersion.at_version): lookup dicts -> sorted [key, ref] pairs
      - route.attrs VALUES: sorted [key, value] pairs (`attrs`); the key order is kept separately in `attrs_order`
      - `recursive_custom_annotations` (a Python set of (Field|Alias, CustomAnnotation)) -> sorted
      - get_all_omitted_callers() (a set) -> sorted
      - TIES of get_route_io_data_types(): stone does `sorted(set, key=name)`; two route-io types with the same
        name (from different namespaces, or several `Map(..)` route types, all called 'Map') come out in
        set-iteration (= id()-hash = memory address) order, which is not reproducible even for the same files.
        Ties are re-sorted by their dumped form here; `route_io_ties` lists the names affected so that a caller
        can see that stone's own order was not determined.
  * floats are ['f', '<16 hex digits of the IEEE-754 bit pattern>'] (NaN, -0.0 distinguished; json round-trips).
  * values: None/bool/int/str as themselves, list -> ['l', [...]], dict -> ['d', [[k, v], ...]] (iteration order),
    TagRef -> ['tagref', union ns, union name, tag], bytes -> ['bytes', hex], datetime -> ['datetime', iso].
  * type expressions: ['Nullable', t, rca] ['List', t, min_items, max_items, rca] ['Map', k, v, rca]
    ['alias', ns, name] ['user', ns, name] ['String', min_length, max_length, pattern] ['Timestamp', format]
    ['Int32'|'UInt32'|'Int64'|'UInt64', min_value, max_value] ['Float32'|'Float64', min_value, max_value]
    ['Bytes'] ['Boolean'] ['Void'];  `rca` = that wrapper node's own `recursive_custom_annotations`
    (None = never computed, else sorted list) -- the python backend reads it from List/Map/Nullable nodes too.
  * anything of an unexpected Python type becomes ['?unknown', type name] (the self-test asserts none occurs).

Deliberately not covered:
  `_ast_node` and everything below it (paths, line numbers, lexpos), `Example._ast_node`, `_raw_examples`,
  `_fields_by_name` / `_params_by_name` (private lookup dicts), `String.pattern_re` (compiled form of `pattern`),
  `_is_forward_ref` (always False after compilation), the class constants minimum/maximum, `get_examples(compact=True)`
  and `has_documented_*` (pure functions of what is dumped), `get_route_io_data_types_for_route` (a set; its union is
  dumped), the split of an import reason into alias/data_type beyond what the 5 get_imported_namespaces views show.

Defects of stone met while writing this (guarded here, not hidden): see MASKABLE (four layout dependences);
`get_route_io_data_types()` tie order is address dependent (differs between two runs on the same files);
`get_namespaces_imported_by_route_io()` raises AttributeError when a route's arg/result/error is a Map
(dumped as ['error', 'AttributeError']).
"""
import datetime as _dt
import hashlib
import json
import struct as _struct

from stone.ir import (Alias, Boolean, Bytes, Float32, Float64, Int32, Int64, List, Map, Nullable, String, Struct,
                      Timestamp, UInt32, UInt64, Union, Void)
from stone.ir.data_types import (CustomAnnotation, Deprecated, Omitted, Preview, Redacted, TagRef)

# Components found to DEPEND ON THE LAYOUT of the spec files in stone itself (self-test (c), each confirmed by a
# hand-made minimal pair).  With the name in `mask` the component is sorted by name (orders) or dropped (rca)
# instead of being dumped as exposed, so that a caller can keep testing everything else.
#   annotation_types_order   ns.annotation_types: ApiNamespace.normalize() sorts routes, data_types, aliases and
#                            annotations but NOT annotation_types -> order of declaration (files, then lines)
#   subtypes_order           Struct.subtypes: appended by Struct.set_attributes -> order in which the children were
#                            populated (declaration order, on-demand population of parents)
#   route_schema_ns_order    the stone_cfg namespace is popped before normalize(): its aliases / annotations /
#                            annotation_types (reachable via api.route_schema.namespace) stay in declaration order
#   recursive_custom_annotations   `X.recursive_custom_annotations` of types on a reference CYCLE: the cycle is cut
#                            at whichever type the (declaration ordered) traversal entered first and the truncated
#                            set is cached, so `struct A {b B?}  struct B {a A?; s String @An}` gives A.rca = {An}
#                            when A is declared first and A.rca = {} when B is declared first (python_types emits
#                            different _process_custom_annotations bodies).  Masked = every rca dumped as None.
MASKABLE = ('annotation_types_order', 'subtypes_order', 'route_schema_ns_order', 'recursive_custom_annotations')


def fhex(x):
    return '%016x' % _struct.unpack('<Q', _struct.pack('<d', float(x)))[0]


def canonical_json(sig):
    return json.dumps(sig, sort_keys=True, separators=(',', ':'))


def digest(sig):
    return hashlib.sha1(canonical_json(sig).encode('utf-8')).hexdigest()


def _skey(x):
    return json.dumps(x, sort_keys=True)


class _Dumper:
    def __init__(self, api, mask):
        self.api = api
        self.mask = frozenset(mask)
        unknown = self.mask - frozenset(MASKABLE)
        if unknown:
            raise ValueError('unknown mask component(s) %r' % sorted(unknown))
        self.mask_rca = 'recursive_custom_annotations' in self.mask
        self.loc = {}          # id(Field | Alias) -> location description (for recursive_custom_annotations)

    # ---- values ------------------------------------------------------------------------------------------------
    def val(self, v):
        if v is None or v is True or v is False:
            return v
        if isinstance(v, TagRef):
            u = v.union_data_type
            return ['tagref', self.ns_name(u), getattr(u, 'name', None), v.tag_name]
        if isinstance(v, bool):
            return bool(v)
        if isinstance(v, int):
            return int(v)
        if isinstance(v, float):
            return ['f', fhex(v)]
        if isinstance(v, str):
            return str(v)
        if isinstance(v, (list, tuple)):
            return ['l', [self.val(x) for x in v]]
        if isinstance(v, dict):            # OrderedDict or dict literal: iteration order is what json.dumps shows
            return ['d', [[self.val(k), self.val(x)] for k, x in v.items()]]
        if isinstance(v, (bytes, bytearray)):
            return ['bytes', bytes(v).hex()]
        if isinstance(v, _dt.datetime):
            return ['datetime', v.isoformat()]
        return ['?unknown', type(v).__name__]

    @staticmethod
    def ns_name(obj):
        ns = getattr(obj, 'namespace', None)
        return getattr(ns, 'name', None)

    # ---- annotations -------------------------------------------------------------------------------------------
    def anno(self, a):
        """full dump of an Annotation object (builtin or custom)"""
        if a is None:
            return None
        d = {'class': type(a).__name__, 'name': a.name, 'ns': self.ns_name(a)}
        if isinstance(a, Omitted):
            d['omitted_caller'] = self.val(a.omitted_caller)
        elif isinstance(a, Redacted):
            d['regex'] = self.val(a.regex)
        elif isinstance(a, CustomAnnotation):
            at = a.annotation_type
            d['annotation_type_name'] = a.annotation_type_name
            d['annotation_type_ns'] = a.annotation_type_ns
            d['annotation_type'] = None if at is None else [self.ns_name(at), at.name]
            d['args'] = [self.val(x) for x in a.args]
            d['kwargs'] = [[k, self.val(x)] for k, x in a.kwargs.items()]     # iteration order (backends iterate it)
        elif not isinstance(a, (Deprecated, Preview)):
            d['class'] = ['?unknown', type(a).__name__]
        return d

    def rca(self, s):
        """recursive_custom_annotations: None, or a SET of (Field|Alias, CustomAnnotation) -> sorted"""
        if s is None or self.mask_rca:
            return None
        if not s:
            return []
        out = []
        for where, a in s:
            out.append([self.loc.get(id(where)) or ['?unlocated', type(where).__name__, getattr(where, 'name', None)],
                        [self.ns_name(a), a.name]])
        out.sort(key=_skey)
        return out

    # ---- type expressions --------------------------------------------------------------------------------------
    def ty(self, t):
        if t is None:
            return None
        if isinstance(t, Nullable):
            return ['Nullable', self.ty(t.data_type), self.rca(t.recursive_custom_annotations)]
        if isinstance(t, List):
            return ['List', self.ty(t.data_type), t.min_items, t.max_items, self.rca(t.recursive_custom_annotations)]
        if isinstance(t, Map):
            return ['Map', self.ty(t.key_data_type), self.ty(t.value_data_type),
                    self.rca(t.recursive_custom_annotations)]
        if isinstance(t, Alias):
            return ['alias', self.ns_name(t), t.name]
        if isinstance(t, (Struct, Union)):
            return ['user', self.ns_name(t), t.name]
        if isinstance(t, (Int32, UInt32, Int64, UInt64)):
            return [type(t).__name__, self.val(t.min_value), self.val(t.max_value)]
        if isinstance(t, (Float32, Float64)):
            return [type(t).__name__, self.val(t.min_value), self.val(t.max_value)]
        if isinstance(t, String):
            return ['String', self.val(t.min_length), self.val(t.max_length), self.val(t.pattern)]
        if isinstance(t, Timestamp):
            return ['Timestamp', self.val(t.format)]
        if isinstance(t, Bytes):
            return ['Bytes']
        if isinstance(t, Boolean):
            return ['Boolean']
        if isinstance(t, Void):
            return ['Void']
        return ['?unknown', type(t).__name__]

    # ---- fields, types -----------------------------------------------------------------------------------------
    def field(self, f):
        d = {
            'class': type(f).__name__,
            'name': f.name,
            'type': self.ty(f.data_type),
            'doc': f.doc,
            'raw_doc': f.raw_doc,
            'omitted_caller': self.val(f.omitted_caller),
            'redactor': self.anno(f.redactor),
            'deprecated': self.val(f.deprecated),
            'preview': self.val(f.preview),
            'custom_annotations': [self.anno(a) for a in f.custom_annotations],
        }
        if hasattr(f, 'has_default'):              # StructField
            d['has_default'] = bool(f.has_default)
            d['default'] = self.val(f.default) if f.has_default else None
        if hasattr(f, 'catch_all'):                # UnionField
            d['catch_all'] = self.val(f.catch_all)
        return d

    def examples(self, dt):
        try:
            exs = dt.get_examples()
            return [[label, self.val(e.label), self.val(e.text), self.val(e.value)] for label, e in exs.items()]
        except Exception as e:      # pylint: disable=broad-except
            return ['error', type(e).__name__]

    def data_type(self, dt):
        is_struct = isinstance(dt, Struct)
        d = {
            'kind': 'struct' if is_struct else 'union' if isinstance(dt, Union) else ['?unknown', type(dt).__name__],
            'name': dt.name,
            'ns': self.ns_name(dt),
            'doc': dt.doc,
            'raw_doc': dt.raw_doc,
            'parent': self.ty(dt.parent_type),
            'fields': [self.field(f) for f in dt.fields],
            'all_fields': [f.name for f in dt.all_fields],
            'omitted_callers': sorted(self.val(c) for c in dt.get_all_omitted_callers()),     # a set
            'examples': self.examples(dt),
            'rca': self.rca(dt.recursive_custom_annotations),
        }
        if is_struct:
            d['all_required_fields'] = [f.name for f in dt.all_required_fields]
            d['all_optional_fields'] = [f.name for f in dt.all_optional_fields]
            subs = [self.ty(s) for s in dt.subtypes]          # list, in order of compilation of the subtypes
            if 'subtypes_order' in self.mask:
                subs.sort(key=_skey)
            d['subtypes'] = subs
            d['in_subtypes_tree'] = bool(dt.is_member_of_enumerated_subtypes_tree())
            if dt.has_enumerated_subtypes():
                d['enumerated_subtypes'] = [[f.name, self.ty(f.data_type), f.doc] for f in dt.get_enumerated_subtypes()]
                d['is_catch_all'] = self.val(dt.is_catch_all())
                d['all_subtypes_with_tags'] = [[list(tags), self.ty(s)] for tags, s in dt.get_all_subtypes_with_tags()]
            else:
                d['enumerated_subtypes'] = None
        else:
            d['closed'] = self.val(dt.closed)
            ca = dt.catch_all_field
            d['catch_all_field'] = None if ca is None else ca.name
            d['unique_field_data_types'] = bool(dt.unique_field_data_types())
        return d

    def alias(self, a):
        return {
            'name': a.name,
            'ns': self.ns_name(a),
            'type': self.ty(a.data_type),
            'doc': a.doc,
            'raw_doc': a.raw_doc,
            'redactor': self.anno(a.redactor),
            'custom_annotations': [self.anno(x) for x in a.custom_annotations],
            'rca': self.rca(a.recursive_custom_annotations),
        }

    def annotation_type(self, at):
        return {
            'name': at.name,
            'ns': self.ns_name(at),
            'doc': at.doc,
            'raw_doc': at.raw_doc,
            'params': [{'name': p.name, 'type': self.ty(p.data_type), 'doc': p.doc, 'raw_doc': p.raw_doc,
                        'has_default': bool(p.has_default), 'default': self.val(p.default)} for p in at.params],
        }

    def route(self, r):
        dep = r.deprecated
        attrs = r.attrs
        return {
            'name': r.name,
            'version': r.version,
            'deprecated': None if dep is None else {'by': None if dep.by is None else [dep.by.name, dep.by.version]},
            'doc': r.doc,
            'raw_doc': r.raw_doc,
            'arg': self.ty(r.arg_data_type),
            'result': self.ty(r.result_data_type),
            'error': self.ty(r.error_data_type),
            # attrs is a plain dict built in the order of stone_cfg.Route.all_fields: values sorted by key, the
            # key order kept beside it
            'attrs': None if attrs is None else sorted([k, self.val(v)] for k, v in attrs.items()),
            'attrs_order': None if attrs is None else list(attrs),
        }

    # ---- namespaces --------------------------------------------------------------------------------------------
    def index(self, ns):
        for dt in ns.data_types:
            for f in dt.fields or ():
                self.loc[id(f)] = ['field', ns.name, dt.name, f.name]
        for a in ns.aliases:
            self.loc[id(a)] = ['alias', ns.name, a.name]

    def namespace(self, ns, detached=False):
        names = lambda xs: [x.name for x in xs]
        imports = {'data_type_only': names(ns.get_imported_namespaces(must_have_imported_data_type=True))}
        for ca in (False, True):
            for ct in (False, True):
                imports['annotations=%d,annotation_types=%d' % (ca, ct)] = names(
                    ns.get_imported_namespaces(consider_annotations=ca, consider_annotation_types=ct))
        # get_route_io_data_types: sorted(set, key=name) in stone -> ties (same name, different namespace) are in
        # address order; re-sort ties by namespace name and record them
        rio = sorted(((t.name, self.ty(t)) for t in ns.get_route_io_data_types()),
                     key=lambda p: (p[0], _skey(p[1])))        # stone's key (the name), ties by the dumped form
        rio_refs = [r for _, r in rio]
        rio_names = [n for n, _ in rio]
        ties = sorted({n for n in rio_names if rio_names.count(n) > 1})
        try:
            imported_by_route_io = names(ns.get_namespaces_imported_by_route_io())
        except Exception as e:      # pylint: disable=broad-except
            # stone defect: a route whose arg/result/error is a Map makes get_route_io_data_types return the Map
            # (is_composite_type) and get_namespaces_imported_by_route_io dies on `Map.namespace` (AttributeError)
            imported_by_route_io = ['error', type(e).__name__]
        annotation_types = [self.annotation_type(t) for t in ns.annotation_types]
        aliases = [self.alias(a) for a in ns.aliases]
        annotations = [self.anno(a) for a in ns.annotations]
        if 'annotation_types_order' in self.mask:
            annotation_types.sort(key=lambda d: d['name'])
        if detached and 'route_schema_ns_order' in self.mask:
            annotation_types.sort(key=lambda d: d['name'])
            aliases.sort(key=lambda d: d['name'])
            annotations.sort(key=lambda d: d['name'])
        lin_aliases = names(ns.linearize_aliases())
        if detached and 'route_schema_ns_order' in self.mask:
            lin_aliases.sort()
        return {
            'name': ns.name,
            'doc': ns.doc,
            'imports': imports,
            'imported_by_route_io': imported_by_route_io,
            'data_types': [self.data_type(t) for t in ns.data_types],
            'aliases': aliases,
            'annotations': annotations,
            'annotation_types': annotation_types,
            'routes': [self.route(r) for r in ns.routes],
            'linearize_data_types': [self.ty(t) for t in ns.linearize_data_types()],
            'linearize_aliases': lin_aliases,
            'route_io_data_types': rio_refs,
            'route_io_ties': ties,
            # lookup dicts: sorted by key
            'data_type_by_name': sorted([k, self.ty(v)] for k, v in ns.data_type_by_name.items()),
            'alias_by_name': sorted([k, self.ty(v)] for k, v in ns.alias_by_name.items()),
            'annotation_by_name': sorted([k, [self.ns_name(v), v.name]] for k, v in ns.annotation_by_name.items()),
            'annotation_type_by_name': sorted([k, [self.ns_name(v), v.name]]
                                              for k, v in ns.annotation_type_by_name.items()),
            'route_by_name': sorted([k, [v.name, v.version]] for k, v in ns.route_by_name.items()),
            'routes_by_name': sorted([k, sorted([ver, [r.name, r.version]] for ver, r in v.at_version.items())]
                                     for k, v in ns.routes_by_name.items()),
        }

    def run(self):
        api = self.api
        nss = list(api.namespaces.values())
        rs = api.route_schema
        rs_ns = getattr(rs, 'namespace', None)
        detached = rs_ns is not None and all(rs_ns is not n for n in nss)
        for ns in nss:
            self.index(ns)
        if detached:
            self.index(rs_ns)
        return {
            'version': str(api.version),
            'namespace_keys': list(api.namespaces.keys()),      # OrderedDict: in its order
            'namespaces': [self.namespace(ns) for ns in nss],
            'route_schema': None if rs is None else self.data_type(rs),
            # the stone_cfg namespace is popped from api.namespaces by the compiler but stays reachable through
            # api.route_schema.namespace (it is NOT normalised: declaration order of its aliases/annotations)
            'route_schema_ns': self.namespace(rs_ns, detached=True) if detached else None,
        }


def signature(api, mask=()):
    """Canonical JSON-able dump of `api`.  `mask`: subset of MASKABLE, components to sort instead of keeping order."""
    return _Dumper(api, mask).run()


def has_unknown(sig):
    """path of the first ['?unknown', ...] / ['?unlocated', ...] marker or failed `examples` (['error', type name])
    in a signature, or None"""
    def walk(x, path):
        if isinstance(x, list):
            if x and x[0] in ('?unknown', '?unlocated'):
                return '%s: %r' % (path, x)
            for i, y in enumerate(x):
                r = walk(y, '%s[%d]' % (path, i))
                if r:
                    return r
        elif isinstance(x, dict):
            for k in sorted(x):
                p = '%s.%s' % (path, k) if path else k
                if k == 'examples' and len(x[k]) == 2 and x[k][0] == 'error' and isinstance(x[k][1], str):
                    return '%s: %r' % (p, x[k])
                r = walk(x[k], p)
                if r:
                    return r
        return None
    return walk(sig, '')


def _short(x, n=90):
    s = json.dumps(x, sort_keys=True, ensure_ascii=False) if not isinstance(x, str) else repr(x)
    return s if len(s) <= n else s[:n - 3] + '...'


def _label(x):
    """a [name] suffix for list elements that are named dicts, to make paths readable"""
    if isinstance(x, dict) and isinstance(x.get('name'), str):
        v = x.get('version')
        return '<%s%s>' % (x['name'], ':%d' % v if isinstance(v, int) and v != 1 else '')
    return ''


def diff(a, b, path=''):
    """first difference between two signatures as 'path: x != y', None if equal"""
    if type(a) is not type(b) or not isinstance(a, (dict, list)):
        if type(a) is type(b) and a == b:
            return None
        return '%s: %s != %s' % (path or '<root>', _short(a), _short(b))
    if isinstance(a, dict):
        for k in sorted(set(a) | set(b)):
            p = '%s.%s' % (path, k) if path else str(k)
            if k not in a:
                return '%s: <missing> != %s' % (p, _short(b[k]))
            if k not in b:
                return '%s: %s != <missing>' % (p, _short(a[k]))
            r = diff(a[k], b[k], p)
            if r:
                return r
        return None
    for i, (x, y) in enumerate(zip(a, b)):
        if x != y:
            lx, ly = _label(x), _label(y)
            if lx != ly:
                return '%s[%d]: element %s != element %s (lists: %s != %s)' % (
                    path, i, lx or _short(x, 40), ly or _short(y, 40),
                    _short([_label(e) or e for e in a], 120), _short([_label(e) or e for e in b], 120))
            return diff(x, y, '%s[%d]%s' % (path, i, lx))
    if len(a) != len(b):
        longer, k = (a, 'left') if len(a) > len(b) else (b, 'right')
        return '%s: length %d != %d (first extra element on the %s: %s)' % (
            path or '<root>', len(a), len(b), k, _short(longer[min(len(a), len(b))]))
    return None


# ----------------------------------------------------------------------------------------------------------------
# self-test

def _selftest(n_models=60, seed=20240611, verbose=True):
    import random
    import time
    from collections import Counter
    from harness import specgen as sg
    from stone.frontend.frontend import specs_to_ir
    from stone.frontend.exception import InvalidSpec

    rng = random.Random(seed)
    stats = Counter()
    layout_diffs = []           # (profile, index, diff text with nothing masked)
    t_sig = t_n = 0.0
    profiles = ('fe', 'default', 'routes', 'small')

    def compile_(files):
        return specs_to_ir([(p, t) for p, t in files])

    def find_route(api, nsn, name, version):
        ns = api.namespaces.get(nsn)
        for r in (ns.routes if ns else ()):
            if r.name == name and r.version == version:
                return r
        return None

    def mutations(m):
        """yield (kind, mutated model, expectation) ; expectation None = signature must change,
        or a callable(api_before, api_after) -> bool telling whether the change is observable"""
        # 1. doc of a definition
        cands = [(n, d) for n, d in sg.iter_defs(m, ('struct', 'union', 'alias', 'route'))]
        if cands:
            n, d = rng.choice(cands)
            m2 = sg.clone(m)
            sg.find_ns(m2, n.name).defs[n.defs.index(d)].doc = 'Changed doc text zq.'
            yield 'doc', m2, None
        # 2. doc of a field / tag
        cands = [(n, d, i) for n, d in sg.iter_types(m)
                 for i in range(len(d.fields if d.kind == 'struct' else d.tags))]
        if cands:
            n, d, i = rng.choice(cands)
            m2 = sg.clone(m)
            d2 = sg.find_ns(m2, n.name).defs[n.defs.index(d)]
            (d2.fields if d2.kind == 'struct' else d2.tags)[i].doc = 'Changed member doc zq.'
            yield 'field_doc', m2, None
        # 3. rename a struct field / union tag (examples of that very type follow; anything else that mentions it
        #    makes the compile fail and the mutation is skipped)
        if cands:
            n, d, i = rng.choice(cands)
            m2 = sg.clone(m)
            d2 = sg.find_ns(m2, n.name).defs[n.defs.index(d)]
            fl = (d2.fields if d2.kind == 'struct' else d2.tags)[i]
            old, new = fl.name, fl.name + '_zq'
            fl.name = new
            for ex in d2.examples:
                if old in ex.fields:
                    ex.fields = {(new if k == old else k): v for k, v in ex.fields.items()}
            yield 'rename_field', m2, None
        # 4. change a default
        cands = [(n, d, i) for n, d in sg.iter_defs(m, ('struct',)) for i, fl in enumerate(d.fields)
                 if isinstance(fl.default, (bool, int, float, str))]
        if cands:
            n, d, i = rng.choice(cands)
            m2 = sg.clone(m)
            fl = sg.find_ns(m2, n.name).defs[n.defs.index(d)].fields[i]
            v = fl.default
            if isinstance(v, bool):
                fl.default = not v
            elif isinstance(v, int):
                fl.default = v - 1 if v > 0 else v + 1
            elif isinstance(v, float):
                fl.default = v / 2 if v else 1.0
            else:
                fl.default = v[:-1] if v else v
            if fl.default != v:
                yield 'default', m2, None
        # 5. drop a route attr (observable unless the schema default equals the dropped value)
        cands = [(n, d, k) for n, d in sg.iter_defs(m, ('route',)) for k in d.attrs]
        if cands:
            n, d, k = rng.choice(cands)
            m2 = sg.clone(m)
            del sg.find_ns(m2, n.name).defs[n.defs.index(d)].attrs[k]
            dd = _Dumper(None, ())

            def observable(a1, a2, nsn=n.name, name=d.name, version=d.version, key=k):
                r1, r2 = find_route(a1, nsn, name, version), find_route(a2, nsn, name, version)
                return dd.val(r1.attrs[key]) != dd.val(r2.attrs[key])
            yield 'drop_attr', m2, observable
        # 6. swap two fields of a struct/union (declared order is exposed)
        cands = [(n, d) for n, d in sg.iter_types(m) if len(d.fields if d.kind == 'struct' else d.tags) >= 2]
        if cands:
            n, d = rng.choice(cands)
            m2 = sg.clone(m)
            d2 = sg.find_ns(m2, n.name).defs[n.defs.index(d)]
            fs = d2.fields if d2.kind == 'struct' else d2.tags
            fs[0], fs[1] = fs[1], fs[0]
            yield 'swap_fields', m2, None

    for k in range(n_models):
        prof = profiles[k % len(profiles)]
        m = sg.gen_model(rng, prof)
        files = sg.render(m)
        api = compile_(files)
        t0 = time.perf_counter()
        sig = signature(api)
        t_sig += time.perf_counter() - t0
        t_n += 1
        stats['models'] += 1

        # (a) JSON-serialisable, round-trips, no unknown marker
        text = canonical_json(sig)
        assert json.loads(text) == sig, 'json round trip changed the signature'
        unk = has_unknown(sig)
        assert unk is None, 'unexpected marker in signature: %s' % unk
        assert diff(sig, sig) is None and diff(sig, json.loads(text)) is None

        # (b) same files twice
        sig_b = signature(compile_(files))
        d_b = diff(sig, sig_b)
        assert d_b is None and canonical_json(sig_b) == text and digest(sig_b) == digest(sig), \
            'same files, different signatures: %s' % d_b
        if any(ns['route_io_ties'] for ns in sig['namespaces']):
            stats['models with route_io name ties'] += 1

        # (c) another layout (C11)
        lay = sg.gen_layout(rng, m)
        files_c = sg.render(m, lay)
        api_c = compile_(files_c)
        sig_c = signature(api_c)
        d_c = diff(sig, sig_c)
        if d_c is None:
            stats['layout: equal'] += 1
        else:
            stats['layout: DIFFERENT (nothing masked)'] += 1
            layout_diffs.append((prof, k, d_c))
            d_m = diff(signature(api, MASKABLE), signature(api_c, MASKABLE))
            assert d_m is None, 'layout dependence outside MASKABLE (model %d, %s): %s' % (k, prof, d_m)
            stats['layout: equal once MASKABLE is masked'] += 1
            # which single components differ
            for comp in MASKABLE:
                rest = tuple(c for c in MASKABLE if c != comp)
                if diff(signature(api, rest), signature(api_c, rest)) is not None:
                    stats['layout dependence in: ' + comp] += 1

        # (d) sensitivity
        for kind, m2, expect in mutations(m):
            try:
                api2 = compile_(sg.render(m2))
            except InvalidSpec:
                stats['mutation %s: skipped (no longer legal)' % kind] += 1
                continue
            except Exception as e:      # pylint: disable=broad-except
                stats['mutation %s: skipped (compiler crash %s)' % (kind, type(e).__name__)] += 1
                continue
            changed = diff(sig, signature(api2)) is not None
            if expect is not None and not expect(api, api2):
                assert not changed, 'mutation %s declared unobservable but the signature changed' % kind
                stats['mutation %s: unobservable, signature equal' % kind] += 1
                continue
            assert changed, 'mutation %s not reflected in the signature (model %d, %s)' % (kind, k, prof)
            stats['mutation %s: detected' % kind] += 1

    for kind in ('doc', 'field_doc', 'rename_field', 'default', 'drop_attr', 'swap_fields'):
        assert stats['mutation %s: detected' % kind] > 0, 'mutation %s never exercised' % kind

    if verbose:
        print('apisig self-test: %d models, signature() %.2f ms on average' % (n_models, 1000 * t_sig / t_n))
        for k in sorted(stats):
            print('  %-55s %d' % (k, stats[k]))
        for prof, k, d in layout_diffs[:12]:
            print('  layout diff [%s #%d] %s' % (prof, k, d))
    return stats, layout_diffs


if __name__ == '__main__':
    import sys
    _selftest(int(sys.argv[1]) if len(sys.argv) > 1 else 60, int(sys.argv[2]) if len(sys.argv) > 2 else 20240611)
