"""Values and JSON documents in the protocol's tagged form; conversion to and from real Python
objects of generated classes; type-directed generators (valid by construction, boundary biased) and
mutators; external-call tables (Ext) for a batch of requests.

Tagged PyVal:  ["n"] ["b",bool] ["i",int] ["f",bits] ["s",str] ["y",hex] ["t",id,utc_ok] ["l",[..]] ["u",[..]]
               ["d",[[k,v]..]] ["S",cls,[[field,v]..]] ["U",cls,tag,v] ["o",typename]
Tagged JSON:   ["n"] ["b",bool] ["i",int] ["f",bits] ["s",str] ["a",[..]] ["o",[[k,v]..]]
"""
import base64
import binascii
import datetime
import hashlib
import math
import re

from stone.ir import (Alias, Boolean, Bytes, Float32, Float64, Int32, Int64, List, Map, Nullable, String,
                      Struct, Timestamp, UInt32, UInt64, Union, Void)

from harness.irdump import fbits, bits_to_float, ref_of, chain


# --------------------------------------------------------------------------------------------------
# timestamps: opaque ids
# --------------------------------------------------------------------------------------------------
class TsRegistry:
    def __init__(self):
        self.by_id = []
        self.ids = {}

    def id_of(self, dt):
        key = (dt.replace(tzinfo=None), None if dt.tzinfo is None else dt.utcoffset().total_seconds())
        if key not in self.ids:
            self.ids[key] = len(self.by_id)
            self.by_id.append(dt)
        return self.ids[key]

    def get(self, i):
        return self.by_id[i]


# --------------------------------------------------------------------------------------------------
# real object <-> tagged
# --------------------------------------------------------------------------------------------------
class Codec:
    def __init__(self, built, ts=None):
        self.built = built
        self.ts = ts or TsRegistry()
        from stone.backends.python_rsrc import stone_base as bb
        self.bb = bb

    def to_tagged(self, v):
        bb = self.bb
        if v is None:
            return ['n']
        if isinstance(v, bool):
            return ['b', v]
        if isinstance(v, int):
            return ['i', v]
        if isinstance(v, float):
            return ['f', fbits(v)]
        if isinstance(v, str):
            return ['s', v]
        if isinstance(v, (bytes, bytearray)):
            return ['y', bytes(v).hex()]
        if isinstance(v, datetime.datetime):
            ok = v.tzinfo is None or v.tzinfo.utcoffset(v).total_seconds() == 0
            return ['t', self.ts.id_of(v), ok]
        if isinstance(v, list):
            return ['l', [self.to_tagged(x) for x in v]]
        if isinstance(v, tuple):
            return ['u', [self.to_tagged(x) for x in v]]
        if isinstance(v, dict):
            return ['d', [[self.to_tagged(k), self.to_tagged(x)] for k, x in v.items()]]
        if isinstance(v, bb.Struct):
            ref = self.built.ref_by_cls.get(type(v))
            if ref is None:
                return ['o', type(v).__name__]
            slots = []
            for c in chain(self.built.ir_by_ref[ref]):
                for f in c.fields:
                    raw = getattr(v, '_%s_value' % f.name)
                    if raw is not bb.NOT_SET:
                        slots.append([f.name, self.to_tagged(raw)])
            return ['S', ref, slots]
        if isinstance(v, bb.Union):
            ref = self.built.ref_by_cls.get(type(v))
            if ref is None:
                return ['o', type(v).__name__]
            return ['U', ref, v._tag, self.to_tagged(v._value)]
        return ['o', type(v).__name__]

    def to_py(self, t, raw=False):
        """Build the real object. Struct instances are built by writing the slots directly (`raw`
        construction, no validation) so that arbitrary states can be reproduced; `build_checked`
        goes through constructors and setattr."""
        k = t[0]
        if k == 'n':
            return None
        if k in ('b', 'i', 's'):
            return t[1]
        if k == 'f':
            return bits_to_float(t[1])
        if k == 'y':
            return bytes.fromhex(t[1])
        if k == 't':
            return self.ts.get(t[1])
        if k == 'l':
            return [self.to_py(x) for x in t[1]]
        if k == 'u':
            return tuple(self.to_py(x) for x in t[1])
        if k == 'd':
            return {self.to_py(a): self.to_py(b) for a, b in t[1]}
        if k == 'S':
            cls = self.built.cls_by_ref[t[1]]
            obj = cls()
            for name, x in t[2]:
                setattr(obj, '_%s_value' % name, self.to_py(x))
            return obj
        if k == 'U':
            cls = self.built.cls_by_ref[t[1]]
            obj = cls.__new__(cls)
            obj._tag = t[2]
            obj._value = self.to_py(t[3])
            return obj
        if k == 'o':
            return _OTHER.get(t[1], object())
        raise ValueError(t)

    def build_checked(self, t):
        """Build through the public interface: `Cls(**fields)` / `Cls(tag, value)`; raises what the
        real code raises."""
        k = t[0]
        if k == 'S':
            cls = self.built.cls_by_ref[t[1]]
            args = {name: self.build_checked(x) for name, x in t[2]}
            obj = cls(**{k: v for k, v in args.items() if v is not None})
            for k, v in args.items():
                if v is None:          # the constructor reads None as "not given"; assign explicitly
                    setattr(obj, k, None)
            return obj
        if k == 'U':
            cls = self.built.cls_by_ref[t[1]]
            return cls(t[2], self.build_checked(t[3]))
        if k == 'l':
            return [self.build_checked(x) for x in t[1]]
        if k == 'u':
            return tuple(self.build_checked(x) for x in t[1])
        if k == 'd':
            return {self.build_checked(a): self.build_checked(b) for a, b in t[1]}
        return self.to_py(t)


_OTHER = {'set': set(), 'object': object(), 'complex': 1j, 'Decimal': __import__('decimal').Decimal('1.5')}


def json_to_tagged(j):
    if j is None:
        return ['n']
    if isinstance(j, bool):
        return ['b', j]
    if isinstance(j, int):
        return ['i', j]
    if isinstance(j, float):
        return ['f', fbits(j)]
    if isinstance(j, str):
        return ['s', j]
    if isinstance(j, (list, tuple)):
        return ['a', [json_to_tagged(x) for x in j]]
    if isinstance(j, dict):
        return ['o', [[k, json_to_tagged(x)] for k, x in j.items()]]
    raise TypeError('not JSON-compatible: %r' % (j,))


def tagged_to_json(t):
    k = t[0]
    if k == 'n':
        return None
    if k in ('b', 'i', 's'):
        return t[1]
    if k == 'f':
        return bits_to_float(t[1])
    if k == 'a':
        return [tagged_to_json(x) for x in t[1]]
    if k == 'o':
        return {a: tagged_to_json(b) for a, b in t[1]}
    raise ValueError(t)


def canon(t):
    """Order-insensitive canonical form of a tagged value / document (slots, dict items, object
    members sorted)."""
    k = t[0]
    if k in ('l', 'u', 'a'):
        return [k, [canon(x) for x in t[1]]]
    if k == 'd':
        return ['d', sorted(([canon(a), canon(b)] for a, b in t[1]), key=repr)]
    if k == 'o' and len(t) == 2 and isinstance(t[1], list):
        return ['o', sorted(([a, canon(b)] for a, b in t[1]), key=repr)]
    if k == 'S':
        return ['S', t[1], sorted(([a, canon(b)] for a, b in t[2]), key=repr)]
    if k == 'U':
        return ['U', t[1], t[2], canon(t[3])]
    return list(t)


# --------------------------------------------------------------------------------------------------
# strings occurring in a batch; Ext tables
# --------------------------------------------------------------------------------------------------
def collect(t, strings, ints, floats, byteses, tss):
    k = t[0]
    if k == 's':
        strings.add(t[1])
    elif k == 'i':
        ints.add(t[1])
    elif k == 'b':
        ints.add(1 if t[1] else 0)
    elif k == 'f':
        floats.add(t[1])
    elif k == 'y':
        byteses.add(t[1])
    elif k == 't':
        tss.add(t[1])
    elif k in ('l', 'u', 'a'):
        for x in t[1]:
            collect(x, strings, ints, floats, byteses, tss)
    elif k == 'd':
        for a, b in t[1]:
            collect(a, strings, ints, floats, byteses, tss)
            collect(b, strings, ints, floats, byteses, tss)
    elif k == 'o' and len(t) == 2 and isinstance(t[1], list):
        for a, b in t[1]:
            strings.add(a)
            collect(b, strings, ints, floats, byteses, tss)
    elif k == 'S':
        for _a, b in t[2]:
            collect(b, strings, ints, floats, byteses, tss)
    elif k == 'U':
        collect(t[3], strings, ints, floats, byteses, tss)


def env_params(env):
    """patterns, timestamp formats, redactor regexes, default literals mentioned by an env"""
    pats, fmts, regexes, lits = set(), set(), set(), []

    def walk_ty(t):
        k = t[0]
        if k == 'String' and t[3]:
            pats.add(t[3])
        elif k == 'Timestamp':
            fmts.add(t[1])
        elif k == 'List':
            walk_ty(t[1])
        elif k == 'Map':
            walk_ty(t[1])
            walk_ty(t[2])
        elif k == 'Nullable':
            walk_ty(t[1])
        elif k == 'Alias':
            if t[2] and t[2][1]:
                regexes.add(t[2][1])
            walk_ty(t[3])
    for s in env['structs']:
        for lv in s['levels']:
            for f in lv['fields']:
                walk_ty(f['ty'])
                if f.get('red') and f['red'][1]:
                    regexes.add(f['red'][1])
                if f.get('dflt'):
                    lits.append(f['dflt'])
    for u in env['unions']:
        for lv in u['levels']:
            for f in lv['tags']:
                walk_ty(f['ty'])
                if f.get('red') and f['red'][1]:
                    regexes.add(f['red'][1])
    return pats, fmts, regexes, lits


def ext_tables(env, tagged_items, ts_registry, extra_types=()):
    strings, ints, floats, byteses, tss = set(), set(), set(), set(), set()
    for t in tagged_items:
        collect(t, strings, ints, floats, byteses, tss)
    pats, fmts, regexes, lits = env_params(env)
    for t in extra_types:
        e2 = {'structs': [{'levels': [{'fields': [{'ty': t}]}]}], 'unions': []}
        p2, f2, r2, _ = env_params(e2)
        pats |= p2
        fmts |= f2
        regexes |= r2
    for t in lits:
        collect(t, strings, ints, floats, byteses, tss)
    ext = {}
    rows = []
    for n in sorted(ints):
        try:
            rows.append([n, fbits(float(n))])
        except OverflowError:
            rows.append([n, None])
    ext['fltOfInt'] = rows
    rows = []
    for p in sorted(pats):
        try:
            rx = re.compile(r"\A(?:" + p + r")\Z")
        except re.error:
            continue
        for s in strings:
            rows.append([p, s, bool(rx.match(s))])
    ext['pat'] = rows
    ext['b64enc'] = [[h, base64.b64encode(bytes.fromhex(h)).decode('ascii')] for h in sorted(byteses)]
    rows = []
    for s in strings:
        try:
            rows.append([s, base64.b64decode(s).hex()])
        except binascii.Error:
            rows.append([s, '!binascii'])
        except ValueError:
            rows.append([s, '!value'])
    ext['b64dec'] = rows
    rows = []
    for f in sorted(fmts):
        for i in sorted(tss):
            try:
                rows.append([f, i, ts_registry.get(i).strftime(f)])
            except ValueError:
                pass
    ext['strftime'] = rows
    rows = []
    for f in sorted(fmts):
        for s in strings:
            try:
                d = datetime.datetime.strptime(s, f)
                rows.append([f, s, ts_registry.id_of(d)])
            except ValueError:
                rows.append([f, s, None])
    ext['strptime'] = rows
    md5_in = set(strings) | {str(n) for n in ints} | {str(bits_to_float(b)) for b in floats} | {'True', 'False'}
    rows = []
    for s in md5_in:
        try:
            rows.append([s, hashlib.md5(s.encode('utf-8')).hexdigest()])
        except UnicodeEncodeError:
            pass
    ext['md5'] = rows
    rows = []
    for r in sorted(regexes):
        try:
            rx = re.compile(r)
        except re.error:
            continue
        for s in strings:
            m = rx.search(s)
            rows.append([r, s, None if m is None else ['' if g is None else g for g in m.groups()]])
    ext['re'] = rows
    ext['strOfFlt'] = [[b, str(bits_to_float(b))] for b in sorted(floats)]
    return ext


# --------------------------------------------------------------------------------------------------
# generators
# --------------------------------------------------------------------------------------------------
UNICODE_BITS = ['', 'a', 'abc', 'é', '日本', ' ', 'x y', '"q"', '\\', 'tag', '.tag', 'other', 'z' * 20, 'é́', '😀']
TS_POOL = [datetime.datetime(2015, 5, 12, 15, 50, 38), datetime.datetime(1970, 1, 1), datetime.datetime(2038, 1, 19, 3, 14, 8),
           datetime.datetime(2000, 2, 29, 23, 59, 59), datetime.datetime(1999, 12, 31)]


def _int_bounds(t):
    lo = t.min_value if t.min_value is not None else t.minimum
    hi = t.max_value if t.max_value is not None else t.maximum
    return lo, hi


def _strings_for_pattern(pattern, rng, min_len, max_len):
    """A few strings fully matching simple generator patterns like [a-z]{2,4}; falls back to search
    over a pool."""
    rx = re.compile(r"\A(?:" + pattern + r")\Z")
    pool = ['ab', 'abc', 'abcd', 'a', 'x1', 'A', 'aa-bb', 'foo', '12', '2015', 'a@b.co', 'ab12', 'zz', '0', 'abcde', 'AB', 'Ab1']
    good = [s for s in pool if rx.match(s) and (min_len is None or len(s) >= min_len) and (max_len is None or len(s) <= max_len)]
    return good


class ValueGen:
    def __init__(self, rng, api, ts_registry, perms=(), aware_ts=False):
        self.perms = tuple(perms)     # omitted fields / tags are drawn only for callers holding the class
        # timezone-aware UTC datetimes are valid Timestamp values (Timestamp.validate says so) but are not
        # "representable in their format" (they decode to a naive datetime): drawn for C05, not for C04
        self.aware_ts = aware_ts
        self.rng = rng
        self.api = api
        self.ts = ts_registry

    # ---- valid values -------------------------------------------------------------------------
    def valid(self, t, depth=0):
        """A tagged value valid for IR type t (by construction), or None if none could be drawn."""
        rng = self.rng
        if depth > 14:
            return None         # a type all of whose values are infinite (required self-reference): uninhabited
        if isinstance(t, Nullable):
            if rng.random() < 0.3 or depth > 5:
                return ['n']
            return self.valid(t.data_type, depth)
        if isinstance(t, Alias):
            return self.valid(t.data_type, depth)
        if isinstance(t, Boolean):
            return ['b', rng.random() < 0.5]
        if isinstance(t, (Int32, UInt32, Int64, UInt64)):
            lo, hi = _int_bounds(t)
            c = [lo, hi, min(max(0, lo), hi), min(max(1, lo), hi), min(lo + 1, hi), max(hi - 1, lo)]
            c.append(rng.randint(lo, hi))
            return ['i', rng.choice(c)]
        if isinstance(t, (Float32, Float64)):
            lo = t.min_value if t.min_value is not None else t.minimum
            hi = t.max_value if t.max_value is not None else t.maximum
            cands = [0.0, 1.5, -2.25, 1e10, 3.0]
            if lo is not None:
                cands += [float(lo), float(lo) + 1.0]
            if hi is not None:
                cands += [float(hi), float(hi) - 1.0]
            cands = [c for c in cands if (lo is None or c >= lo) and (hi is None or c <= hi) and not math.isinf(c)]
            if not cands:
                return None
            x = rng.choice(cands)
            r = rng.random()
            if r < 0.15 and x == int(x) and abs(x) < 2 ** 53:
                return ['i', int(x)]             # ints are accepted for float types
            return ['f', fbits(x)]
        if isinstance(t, String):
            mn, mx = t.min_length, t.max_length
            if t.pattern:
                good = _strings_for_pattern(t.pattern, rng, mn, mx)
                if not good:
                    return None
                return ['s', rng.choice(good)]
            cands = [s for s in UNICODE_BITS if (mn is None or len(s) >= mn) and (mx is None or len(s) <= mx)]
            if mn:
                cands.append('m' * mn)
            if mx:
                cands.append('M' * mx)
            if not cands:
                return None
            return ['s', rng.choice(cands)]
        if isinstance(t, Bytes):
            # lengths around 57 bytes: where base64 "lines" end
            return ['y', rng.choice(['', '00', 'ff00', '68656c6c6f', 'deadbeef' * 3, 'ab' * 57, 'c0' * 58, 'e1' * 120])]
        if isinstance(t, Timestamp):
            # representable in its format: strptime(strftime(d)) == d
            pool = []
            for d in TS_POOL:
                try:
                    if datetime.datetime.strptime(d.strftime(t.format), t.format) == d:
                        pool.append(d)
                except ValueError:
                    pass
            if not pool:
                return None
            d = rng.choice(pool)
            if self.aware_ts and rng.random() < 0.4:
                d = d.replace(tzinfo=datetime.timezone.utc)
            return ['t', self.ts.id_of(d), True]
        if isinstance(t, Void):
            return ['n']
        if isinstance(t, List):
            mn = t.min_items or 0
            mx = t.max_items if t.max_items is not None else mn + 3
            if depth > 4:
                n = mn
            else:
                n = rng.choice([mn, mx, rng.randint(mn, mx)])
            n = min(n, 6) if mn <= 6 else mn
            items = []
            for _ in range(n):
                x = self.valid(t.data_type, depth + 1)
                if x is None:
                    return None if mn > 0 else ['l', []]
                items.append(x)
            return ['l', items]
        if isinstance(t, Map):
            n = 0 if depth > 4 else rng.randint(0, 3)
            items = {}
            for _ in range(n):
                k = self.valid(t.key_data_type, depth + 1)
                x = self.valid(t.value_data_type, depth + 1)
                if k is None or x is None:
                    break
                items[k[1]] = [k, x]
            return ['d', list(items.values())]
        if isinstance(t, Struct):
            return self.valid_struct(t, depth)
        if isinstance(t, Union):
            return self.valid_union(t, depth)
        raise TypeError(t)

    def valid_struct(self, t, depth):
        rng = self.rng
        target = t
        if t.has_enumerated_subtypes():
            # a valid value of a struct with enumerated subtypes is an instance of a listed leaf
            leaves = []

            def walk(s):
                for f in s.get_enumerated_subtypes():
                    if f.data_type.has_enumerated_subtypes():
                        walk(f.data_type)
                    else:
                        leaves.append(f.data_type)
            walk(t)
            if not leaves:
                return None
            target = rng.choice(leaves)
        slots = []
        for c in chain(target):
            for f in c.fields:
                if f.omitted_caller and f.omitted_caller not in self.perms:
                    continue
                optional = isinstance(f.data_type, Nullable) or f.has_default
                if optional and (depth > 4 or rng.random() < 0.4):
                    continue
                x = self.valid(f.data_type, depth + 1)
                if x is None:
                    if optional:
                        continue
                    return None
                if x == ['n'] and isinstance(f.data_type, Nullable):
                    continue          # assigning None to a nullable field leaves it unset
                slots.append([f.name, x])
        return ['S', ref_of(target), slots]

    def valid_union(self, t, depth, tag=None):
        rng = self.rng
        # the catch-all tag is what a receiver substitutes for an unknown tag; it is not a value a
        # sender may produce (the decoder must reject it: C06), so it is not a "valid value" for C04
        fields = [f for f in t.all_fields if not f.catch_all and
                  (not f.omitted_caller or f.omitted_caller in self.perms)]
        if depth > 4:
            simple = [f for f in fields if isinstance(f.data_type, (Void, Nullable))]
            fields = simple or fields
        if tag is not None:
            fields = [f for f in fields if f.name == tag]
        rng.shuffle(fields)
        for f in fields:
            if isinstance(f.data_type, Void):
                return ['U', ref_of(t), f.name, ['n']]
            x = self.valid(f.data_type, depth + 1)
            if x is not None:
                return ['U', ref_of(t), f.name, x]
        return None

    # ---- arbitrary / invalid Python values ----------------------------------------------------
    def junk(self):
        rng = self.rng
        return rng.choice([
            ['n'], ['b', True], ['b', False], ['i', 0], ['i', 1], ['i', -1], ['i', 2 ** 31], ['i', -2 ** 31 - 1], ['i', 2 ** 64],
            ['i', 10 ** 400], ['f', fbits(0.5)], ['f', fbits(float('nan'))], ['f', fbits(float('inf'))], ['f', fbits(-1e300)],
            ['s', ''], ['s', 'abc'], ['s', 'é'], ['y', '00ff'], ['l', []], ['l', [['i', 1]]], ['u', [['s', 'a']]],
            ['d', []], ['d', [[['s', 'k'], ['i', 1]]]], ['d', [[['i', 1], ['i', 1]]]], ['o', 'set'], ['o', 'object'],
            ['t', self.ts.id_of(TS_POOL[0]), True],
            ['t', self.ts.id_of(TS_POOL[0].replace(tzinfo=datetime.timezone(datetime.timedelta(hours=2)))), False],
            ['t', self.ts.id_of(TS_POOL[1].replace(tzinfo=datetime.timezone.utc)), True],
        ])


# --------------------------------------------------------------------------------------------------
# reference predicate (written from the property text / lang_ref, not from the validators)
# --------------------------------------------------------------------------------------------------
def sat_ir(api_index, t, v, nested=False):
    """Does tagged value v satisfy declared IR type t?  True / False / None (= unspecified, not judged).
    api_index: ref -> IR data type (for class relations)."""
    if isinstance(t, Nullable):
        if v[0] == 'n':
            return True
        return sat_ir(api_index, t.data_type, v, nested)
    if isinstance(t, Alias):
        return sat_ir(api_index, t.data_type, v, nested)
    k = v[0]
    if isinstance(t, Boolean):
        return k == 'b'
    if isinstance(t, (Int32, UInt32, Int64, UInt64)):
        if k not in ('i', 'b'):
            return False
        n = int(v[1])
        lo, hi = _int_bounds(t)
        return lo <= n <= hi
    if isinstance(t, (Float32, Float64)):
        if k == 'f':
            x = bits_to_float(v[1])
        elif k in ('i', 'b'):
            try:
                x = float(int(v[1]))
            except OverflowError:
                return False
        else:
            return False
        if math.isnan(x) or math.isinf(x):
            return False
        lo = t.min_value if t.min_value is not None else t.minimum
        hi = t.max_value if t.max_value is not None else t.maximum
        if lo is not None and x < lo:
            return False
        if hi is not None and x > hi:
            return False
        return True
    if isinstance(t, String):
        if k != 's':
            return False
        s = v[1]
        if t.min_length is not None and len(s) < t.min_length:
            return False
        if t.max_length is not None and len(s) > t.max_length:
            return False
        if t.pattern:
            return re.fullmatch(t.pattern, s) is not None
        return True
    if isinstance(t, Bytes):
        return k == 'y'
    if isinstance(t, Timestamp):
        return k == 't' and bool(v[2])
    if isinstance(t, Void):
        return k == 'n'
    if isinstance(t, List):
        if k not in ('l', 'u'):
            return False
        n = len(v[1])
        if t.min_items is not None and n < t.min_items:
            return False
        if t.max_items is not None and n > t.max_items:
            return False
        rs = [sat_ir(api_index, t.data_type, x, True) for x in v[1]]
        if False in rs:
            return False
        return None if None in rs else True
    if isinstance(t, Map):
        if k != 'd':
            return False
        rs = []
        for a, b in v[1]:
            rs.append(sat_ir(api_index, t.key_data_type, a, True))
            rs.append(sat_ir(api_index, t.value_data_type, b, True))
        if False in rs:
            return False
        return None if None in rs else True
    if isinstance(t, Struct):
        if k != 'S':
            return False
        dt = api_index.get(v[1])
        if dt is None or t not in chain(dt):
            return False
        if not nested:
            return True
        # inside a container the runtime also insists on required fields being present; the
        # property only speaks of "the right class": complete instances are valid, others unspecified
        set_names = {a for a, _b in v[2]}
        for c in chain(dt):
            for f in c.fields:
                if not isinstance(f.data_type, Nullable) and not f.has_default and f.name not in set_names \
                        and not f.omitted_caller:
                    return None
        return True
    if isinstance(t, Union):
        if k != 'U':
            return False
        dt = api_index.get(v[1])
        return dt is not None and dt in chain(t)
    raise TypeError(t)


def normalise(t, v):
    """The documented normalisations: ints stored as floats in float fields, tuples as lists."""
    if isinstance(t, (Nullable, Alias)):
        return v if v[0] == 'n' else normalise(t.data_type, v)
    if isinstance(t, (Float32, Float64)) and v[0] in ('i', 'b'):
        return ['f', fbits(float(int(v[1])))]
    if isinstance(t, List) and v[0] in ('l', 'u'):
        return ['l', [normalise(t.data_type, x) for x in v[1]]]
    if isinstance(t, Map) and v[0] == 'd':
        return ['d', [[a, normalise(t.value_data_type, b)] for a, b in v[1]]]
    return v


def invalidate(gen, t, v):
    """One-step-invalid (or at least boundary-crossing) variants of a valid tagged value for IR type t."""
    out = []
    inner = t
    while isinstance(inner, (Nullable, Alias)):
        inner = inner.data_type
    if isinstance(inner, (Int32, UInt32, Int64, UInt64)):
        lo, hi = _int_bounds(inner)
        out += [['i', lo - 1], ['i', hi + 1], ['i', lo], ['i', hi], ['f', fbits(1.0)], ['s', '1'], ['b', True]]
    elif isinstance(inner, (Float32, Float64)):
        lo = inner.min_value if inner.min_value is not None else inner.minimum
        hi = inner.max_value if inner.max_value is not None else inner.maximum
        out += [['f', fbits(float('nan'))], ['f', fbits(float('inf'))], ['f', fbits(float('-inf'))], ['i', 10 ** 400],
                ['s', '1.0'], ['b', False], ['i', 3]]
        if lo is not None:
            out += [['f', fbits(math.nextafter(float(lo), -math.inf))], ['f', fbits(float(lo))]]
        if hi is not None:
            out += [['f', fbits(math.nextafter(float(hi), math.inf))], ['f', fbits(float(hi))]]
    elif isinstance(inner, String):
        if inner.max_length is not None:
            out += [['s', 'q' * (inner.max_length + 1)], ['s', 'q' * inner.max_length]]
        if inner.min_length:
            out += [['s', 'q' * (inner.min_length - 1)], ['s', 'q' * inner.min_length]]
        if inner.pattern:
            out += [['s', 'ab!'], ['s', 'abXY'], ['s', 'ab\n'], ['s', 'zzab'], ['s', 'ab']]
        out += [['y', '6162'], ['i', 5], ['l', [['s', 'a']]]]
    elif isinstance(inner, Bytes):
        out += [['s', 'abc'], ['l', []], ['i', 0]]
    elif isinstance(inner, Boolean):
        out += [['i', 1], ['i', 0], ['s', 'true'], ['n']]
    elif isinstance(inner, Timestamp):
        out += [# aware datetimes: any offset other than UTC is refused, UTC is accepted
                ['t', gen.ts.id_of(TS_POOL[0].replace(tzinfo=datetime.timezone(datetime.timedelta(hours=2)))), False],
                ['t', gen.ts.id_of(TS_POOL[1].replace(tzinfo=datetime.timezone.utc)), True],
                ['s', '2015-05-12T15:50:38Z'], ['i', 0], gen.junk(),
                ['t', gen.ts.id_of(TS_POOL[1].replace(tzinfo=datetime.timezone(datetime.timedelta(minutes=-30)))), False]]
    elif isinstance(inner, List):
        if v[0] == 'l':
            items = v[1]
            if inner.max_items is not None:
                filler = items[0] if items else gen.valid(inner.data_type, 3)
                if filler is not None:
                    out.append(['l', items + [filler] * (inner.max_items + 1 - len(items))])
            if inner.min_items:
                out.append(['l', items[:inner.min_items - 1]])
            out.append(['u', items])
            out.append(['l', items + [gen.junk()]])
            if items:
                for bad in invalidate(gen, inner.data_type, items[0])[:3]:
                    out.append(['l', [bad] + items[1:]])
        out += [['d', []], ['s', 'x']]
    elif isinstance(inner, Map):
        if v[0] == 'd':
            out.append(['d', v[1] + [[['i', 1], gen.junk()]]])
            out.append(['d', v[1] + [[['s', 'kk'], gen.junk()]]])
        out += [['l', []], ['n']]
    elif isinstance(inner, (Struct, Union)):
        out += [['d', []], ['s', 'x'], ['n'], gen.junk()]
    out.append(gen.junk())
    return out
