"""expected -- an INDEPENDENT reading of what the Api handed to backends must contain (property C02).

    exp = expected_signature(model)                 # from the specgen model alone; stone is never imported here
    d = compare(exp, apisig.signature(api, mask=MASK))   # None, or Diff(path, generalised path, expected, actual)

The image is written from docs/lang_ref.rst and the fixed text of C02, NOT by following ir_generator.py: it reads the
dataclass model the spec files were rendered from (harness/specgen.py) and says, per namespace, which types, aliases,
routes, annotations and annotation types exist, with which names, members (in declaration order, patch members
appended), type expressions, nullability, defaults, docs, versions, deprecations and attributes, plus the documented
implicit members and nothing else:
  * the `other` Void catch-all, appended last to every open union that does not already inherit one
    (lang_ref "Closed Unions": "Stone exposes a virtual tag called `other` of void type to generators"),
  * schema defaults of route attributes a route does not specify (lang_ref "Attributes": "key4 can be omitted from the
    attrs of route r because it has a default"), `null` for unspecified nullable attributes,
  * one example per void tag of a union (label = tag, value {".tag": tag}),
and the derived listings the text fixes: `all_fields` = required fields of ancestors-then-own followed by optional
ones likewise (optional = written with `?` or with a default); union `all_fields` = parent's then own; namespaces,
data types, aliases, annotations alphabetical, routes by (name, version); the by-name lookup tables.

The dict has the SHAPE of `apisig.signature(api)` but only the keys this reading fixes: `compare` walks the keys of
the expectation, so whatever apisig dumps beyond them is not judged here.  Leaves may be MATCHERS (dicts with the
key '?'), used exactly where the text leaves something open:
  {'?': 'any'}                                   not judged
  {'?': 'doc', 'raw': r, 'injected': bool}       `doc` of a member: the unwrapped raw doc; when the member carries
                                                 Deprecated / Preview / Omitted, "special warnings injected into
                                                 their documentation" (lang_ref): the actual text must END with the
                                                 unwrapped doc, the injected wording is not judged
  {'?': 'ns_doc', 'parts': [...]}                namespace docs of several files concatenate in file order (separator
                                                 and trailing newline not judged)
  {'?': 'tagref', 'ns','name','tag','aliases'}   a union-tag value: names the union (or one of the aliases the
                                                 member's type was written with, resolved by the caller)
  {'?': 'float', 'hex': h, 'int_ok': bool}       a float of that bit pattern (an int of equal value only if int_ok)
  {'?': 'number', 'value': v}                    int or float equal to v (kind not judged: annotation arguments,
                                                 route attribute values, annotation-type parameter defaults)
  {'?': 'attr_text', 'text': s, 'kind': k, 'format': f}   a Bytes / Timestamp attribute written as text s: the text,
                                                 its UTF-8 bytes, or the parsed timestamp (representation not judged)
  {'?': 'pairs', 'pairs': [[k, v]...]}           a mapping dumped as [key, value] pairs: compared as a mapping
Everything else is compared exactly, lists positionally (order IS declared order or alphabetical order).
"""
import datetime as _dt
import re as _re
import struct as _struct

from harness import specgen as sg

# components of apisig.signature that are order-of-declaration artefacts the text does not fix (sorted there and here)
MASK = ('annotation_types_order', 'subtypes_order', 'route_schema_ns_order', 'recursive_custom_annotations')

ANY = {'?': 'any'}
INT_TYPES = ('Int32', 'UInt32', 'Int64', 'UInt64')
FLOAT_TYPES = ('Float32', 'Float64')


def fhex(x):
    return '%016x' % _struct.unpack('<Q', _struct.pack('<d', float(x)))[0]


def doc_unwrap(raw):
    """lang_ref 'Documentation' + Appendix C 20: leading / trailing white space dropped, a lone newline is a space
    (text is unwrapped), n > 1 consecutive newlines stand for n - 1 (paragraph breaks)."""
    if raw is None:
        return None
    out = []
    for i, chunk in enumerate(_re.split(r'(\n+)', raw.strip())):
        if i % 2 == 0:
            out.append(chunk)
        else:
            out.append(' ' if len(chunk) == 1 else '\n' * (len(chunk) - 1))
    return ''.join(out)


class _Reader:
    def __init__(self, model, ns_docs=None):
        self.m = model
        self.ns_docs = ns_docs or {}
        self.defs = {}
        self.patches = {}
        for n in model.namespaces:
            for d in n.defs:
                if d.kind in ('struct_patch', 'union_patch'):
                    self.patches.setdefault((n.name, d.name), []).append(d)
                elif d.kind == 'route':
                    self.defs[(n.name, d.name, d.version)] = d
                else:
                    self.defs[(n.name, d.name)] = d

    # ---- values -------------------------------------------------------------------------------------------------
    def val(self, v):
        if v is None or isinstance(v, (bool, str)):
            return v
        if isinstance(v, int):
            return int(v)
        if isinstance(v, float):
            return ['f', fhex(v)]
        raise TypeError('no literal reading for %r' % (v,))

    def number_or_val(self, v):
        if isinstance(v, (int, float)) and not isinstance(v, bool):
            return {'?': 'number', 'value': self.val(v)}
        return self.val(v)

    # ---- type expressions -----------------------------------------------------------------------------------------
    def ty(self, ns, t):
        """TypeRef written in namespace `ns` -> apisig type expression"""
        if t.ns is None and t.name in sg.BUILTIN_TYPES:
            n, kw = t.name, t.kwargs
            if n == 'List':
                e = ['List', self.ty(ns, t.args[0]), self.val(kw.get('min_items')), self.val(kw.get('max_items')), ANY]
            elif n == 'Map':
                e = ['Map', self.ty(ns, t.args[0]), self.ty(ns, t.args[1]), ANY]
            elif n in INT_TYPES:
                e = [n, self.val(kw.get('min_value')), self.val(kw.get('max_value'))]
            elif n in FLOAT_TYPES:
                # a bound of a float type is a float whatever the literal looked like
                e = [n] + [None if kw.get(k) is None else ['f', fhex(kw[k])] for k in ('min_value', 'max_value')]
            elif n == 'String':
                e = ['String', self.val(kw.get('min_length')), self.val(kw.get('max_length')), self.val(kw.get('pattern'))]
            elif n == 'Timestamp':
                e = ['Timestamp', self.val(t.args[0] if t.args else kw.get('format'))]
            else:
                e = [n]                      # Bytes Boolean Void
        else:
            tns = t.ns or ns
            d = self.defs[(tns, t.name)]
            e = ['alias' if d.kind == 'alias' else 'user', tns, t.name]
        if t.nullable:
            e = ['Nullable', e, ANY]
        return e

    def resolve(self, ns, t):
        """follow aliases (and `?`): (namespace, innermost non-alias TypeRef, [[alias ns, alias name]...] passed)"""
        chain = []
        while not (t.ns is None and t.name in sg.BUILTIN_TYPES):
            tns = t.ns or ns
            d = self.defs[(tns, t.name)]
            if d.kind != 'alias':
                return tns, t, chain
            chain.append([tns, t.name])
            ns, t = tns, d.type
        return ns, t, chain

    # ---- annotations ------------------------------------------------------------------------------------------------
    def anno_kind(self, a):
        return a.type_name if a.type_ns is None and a.type_name in sg.BUILTIN_ANNOTATIONS else 'custom'

    def anno(self, ns, a):
        """an `annotation` definition -> apisig.anno"""
        k = self.anno_kind(a)
        if k == 'custom':
            tns = a.type_ns or ns
            at = self.defs[(tns, a.type_name)]
            given = dict(a.kwargs)
            for p, v in zip(at.params, a.args):
                given[p.name] = v
            full = []
            for p in at.params:
                if p.name in given:
                    full.append([p.name, self.number_or_val(given[p.name])])
                elif p.type.nullable:
                    full.append([p.name, None])
                else:
                    full.append([p.name, self.number_or_val(p.default)])
            return {'class': 'CustomAnnotation', 'name': a.name, 'ns': ns, 'annotation_type_name': a.type_name,
                    'annotation_type_ns': a.type_ns, 'annotation_type': [tns, a.type_name],
                    'args': [v for _k, v in full], 'kwargs': {'?': 'pairs', 'pairs': full}}
        d = {'class': k, 'name': a.name, 'ns': ns}
        if k == 'Omitted':
            d['omitted_caller'] = a.args[0] if a.args else a.kwargs['omitted_caller']
        elif k in ('RedactedBlot', 'RedactedHash'):
            d['regex'] = a.args[0] if a.args else a.kwargs.get('regex')
        return d

    def applied(self, ns, refs):
        out = dict(omitted_caller=None, redactor=None, deprecated=None, preview=None, custom_annotations=[], injected=False)
        for r in refs:
            ans = r.ns or ns
            a = self.defs[(ans, r.name)]
            k = self.anno_kind(a)
            e = self.anno(ans, a)
            if k == 'Omitted':
                out['omitted_caller'] = e['omitted_caller']
                out['injected'] = True
            elif k == 'Deprecated':
                out['deprecated'] = True
                out['injected'] = True
            elif k == 'Preview':
                out['preview'] = True
                out['injected'] = True
            elif k == 'custom':
                out['custom_annotations'].append(e)
            else:
                out['redactor'] = e
        return out

    # ---- members ----------------------------------------------------------------------------------------------------
    def own_members(self, ns, d):
        """declared members, patch members appended (lang_ref 'Patch': 'patching can only be used to add additional
        fields')"""
        out = list(d.fields if d.kind == 'struct' else d.tags)
        for p in self.patches.get((ns, d.name), ()):
            out += list(p.fields if p.kind == 'struct_patch' else p.tags)
        return out

    def parent(self, ns, d):
        if d.parent is None:
            return None
        pns = d.parent.ns or ns
        return pns, self.defs[(pns, d.parent.name)]

    def chain(self, ns, d):
        """[(ns, def)] root first"""
        out = [(ns, d)]
        p = self.parent(ns, d)
        while p is not None:
            out.append(p)
            p = self.parent(*p)
        out.reverse()
        return out

    def default(self, ns, fl):
        v = fl.default
        if v is None:
            return None
        if isinstance(v, sg.TagRef):
            uns, ut, chain = self.resolve(ns, fl.type)
            return {'?': 'tagref', 'ns': ut.ns or uns, 'name': ut.name, 'tag': v.tag, 'aliases': chain}
        _, core, chain = self.resolve(ns, fl.type)
        if core.ns is None and core.name in FLOAT_TYPES and isinstance(v, (int, float)) and not isinstance(v, bool):
            # the default of a float field is a float, also when the literal is written as an integer; whether that
            # also holds when the float type is reached through an alias is not judged (counted by the suite)
            return {'?': 'float', 'hex': fhex(v), 'int_ok': bool(chain) and isinstance(v, int)}
        return self.val(v)

    def member_doc(self, fl, injected):
        return {'?': 'doc', 'raw': fl.doc, 'injected': bool(injected)}

    def struct_field(self, ns, fl):
        ap = self.applied(ns, fl.annotations)
        inj = ap.pop('injected')
        d = {'class': 'StructField', 'name': fl.name, 'type': self.ty(ns, fl.type), 'raw_doc': fl.doc,
             'doc': self.member_doc(fl, inj), 'has_default': fl.default is not None, 'default': self.default(ns, fl)}
        d.update(ap)
        return d

    def union_field(self, ns, fl):
        ap = self.applied(ns, fl.annotations)
        inj = ap.pop('injected')
        d = {'class': 'UnionField', 'name': fl.name, 'type': ['Void'] if fl.type is None else self.ty(ns, fl.type),
             'raw_doc': fl.doc, 'doc': self.member_doc(fl, inj), 'catch_all': False}
        d.update(ap)
        return d

    @staticmethod
    def optional(fl):
        return fl.type.nullable or fl.default is not None

    def own_catch_all(self, ns, d):
        """an open union has the `other` catch-all; a child of an open union inherits its parent's (one `other` in
        the whole family line), so only a root or a child of a closed union gets its own"""
        if d.closed:
            return False
        p = self.parent(ns, d)
        return p is None or p[1].closed

    def examples(self, ns, d):
        out = []
        for ex in d.examples:
            text = doc_unwrap(ex.text) if (ex.text and ex.fields) else None
            if d.kind == 'struct' and d.subtypes:
                # the example of a root of enumerated subtypes IS the referenced subtype's example (label, text, value)
                out.append([ex.label, ANY, ANY, ANY])
                continue
            out.append([ex.label, ex.label, text, ANY])           # example values belong to C10
        if d.kind == 'union':
            labels = [e[0] for e in out]
            for cns, c in self.chain(ns, d):
                tags = [fl.name for fl in self.own_members(cns, c) if fl.type is None]
                if self.own_catch_all(cns, c):
                    tags.append('other')
                for tag in tags:
                    e = [tag, tag, None, ['d', [['.tag', tag]]]]    # one example per void tag
                    if tag in labels:
                        out[labels.index(tag)] = e
                    else:
                        labels.append(tag)
                        out.append(e)
        return out

    def data_type(self, ns, d):
        chain = self.chain(ns, d)
        e = {'kind': d.kind, 'name': d.name, 'ns': ns, 'raw_doc': d.doc, 'doc': doc_unwrap(d.doc),
             'parent': None if d.parent is None else ['user', d.parent.ns or ns, d.parent.name],
             'examples': self.examples(ns, d)}
        if d.kind == 'struct':
            own = self.own_members(ns, d)
            e['fields'] = [self.struct_field(ns, fl) for fl in own]
            every = [fl for cns, c in chain for fl in self.own_members(cns, c)]
            req = [fl.name for fl in every if not self.optional(fl)]
            opt = [fl.name for fl in every if self.optional(fl)]
            e['all_required_fields'] = req
            e['all_optional_fields'] = opt
            e['all_fields'] = req + opt
            e['omitted_callers'] = sorted({f['omitted_caller'] for f in e['fields'] if f['omitted_caller']})
            root_ns, root = chain[0]
            e['in_subtypes_tree'] = bool(d.subtypes) or (d.parent is not None and bool(self.parent(ns, d)[1].subtypes))
            if d.subtypes:
                subs, catch_all = d.subtypes
                e['enumerated_subtypes'] = [[tag, ['user', tr.ns or ns, tr.name], None] for tag, tr in subs]
                e['is_catch_all'] = bool(catch_all)
                e['all_subtypes_with_tags'] = [[[tag], ['user', tr.ns or ns, tr.name]] for tag, tr in subs]
            else:
                e['enumerated_subtypes'] = None
            e['subtypes'] = sorted(
                (['user', n2.name, c.name] for n2 in self.m.namespaces for c in n2.defs
                 if c.kind == 'struct' and c.parent is not None and
                 (c.parent.ns or n2.name) == ns and c.parent.name == d.name), key=_skey)
        else:
            fields = [self.union_field(ns, fl) for fl in self.own_members(ns, d)]
            own_ca = self.own_catch_all(ns, d)
            if own_ca:
                fields.append({'class': 'UnionField', 'name': 'other', 'type': ['Void'], 'raw_doc': None, 'doc': None,
                               'catch_all': True, 'omitted_caller': None, 'redactor': None, 'deprecated': None,
                               'preview': None, 'custom_annotations': []})
            e['fields'] = fields
            allf = []
            for cns, c in chain:
                allf += [fl.name for fl in self.own_members(cns, c)]
                if self.own_catch_all(cns, c):
                    allf.append('other')
            e['all_fields'] = allf
            e['closed'] = bool(d.closed)
            e['catch_all_field'] = 'other' if own_ca else None
            e['omitted_callers'] = sorted({f['omitted_caller'] for f in fields if f['omitted_caller']})
        return e

    def alias(self, ns, d):
        ap = self.applied(ns, d.annotations)
        return {'name': d.name, 'ns': ns, 'type': self.ty(ns, d.type), 'raw_doc': d.doc, 'doc': doc_unwrap(d.doc),
                'redactor': ap['redactor'], 'custom_annotations': ap['custom_annotations']}

    def annotation_type(self, ns, d):
        return {'name': d.name, 'ns': ns, 'raw_doc': d.doc, 'doc': doc_unwrap(d.doc),
                'params': [{'name': p.name, 'type': self.ty(ns, p.type), 'raw_doc': p.doc, 'doc': doc_unwrap(p.doc),
                            'has_default': p.default is not None, 'default': self.number_or_val(p.default)}
                           for p in d.params]}

    # ---- routes ---------------------------------------------------------------------------------------------------
    def schema(self):
        d = self.defs.get(('stone_cfg', 'Route'))
        return [] if d is None else self.own_members('stone_cfg', d)

    def attr_value(self, fl, v, from_default):
        """value of attribute `fl` (a field of stone_cfg.Route) written as literal / tag `v`"""
        if v is None:
            return None
        cns, core, chain = self.resolve('stone_cfg', fl.type)
        if isinstance(v, sg.TagRef):
            return {'?': 'tagref', 'ns': core.ns or cns, 'name': core.name, 'tag': v.tag, 'aliases': chain}
        if core.ns is None and core.name in ('Bytes', 'Timestamp') and isinstance(v, str):
            return {'?': 'attr_text', 'text': v, 'kind': core.name, 'format': core.args[0] if core.args else None}
        return self.number_or_val(v)

    def route(self, ns, d):
        attrs = []
        for fl in self.schema():
            if fl.name in d.attrs:
                attrs.append([fl.name, self.attr_value(fl, d.attrs[fl.name], False)])
            else:
                # implicit member: the schema default of an unspecified attribute (null for a nullable one)
                attrs.append([fl.name, self.attr_value(fl, fl.default, True)])
        if d.deprecated is None or d.deprecated is False:
            dep = None
        elif d.deprecated is True:
            dep = {'by': None}
        else:
            dep = {'by': [d.deprecated[0], d.deprecated[1]]}
        return {'name': d.name, 'version': d.version, 'deprecated': dep, 'raw_doc': d.doc, 'doc': doc_unwrap(d.doc),
                'arg': self.ty(ns, d.arg), 'result': self.ty(ns, d.result), 'error': self.ty(ns, d.error),
                'attrs': {'?': 'pairs', 'pairs': attrs}}

    # ---- namespaces -----------------------------------------------------------------------------------------------
    def foreign_user_types(self, n):
        """namespaces from which a struct / union is referenced (`other.T`) anywhere in namespace n"""
        out = set()

        def walk(t):
            if t is None:
                return
            if t.ns is not None and t.ns != n.name and self.defs[(t.ns, t.name)].kind in ('struct', 'union'):
                out.add(t.ns)
            for a in t.args:
                if isinstance(a, sg.TypeRef):
                    walk(a)
        for d in n.defs:
            k = d.kind
            if k in ('struct', 'union'):
                walk(d.parent)
            if k in ('struct', 'struct_patch'):
                for fl in d.fields:
                    walk(fl.type)
            elif k in ('union', 'union_patch'):
                for fl in d.tags:
                    walk(fl.type)
            elif k == 'alias':
                walk(d.type)
            elif k == 'route':
                for t in (d.arg, d.result, d.error):
                    walk(t)
        return sorted(out)

    def namespace(self, n, detached=False):
        ns = n.name
        by = lambda k: sorted((d for d in n.defs if d.kind == k), key=lambda d: d.name)      # noqa: E731
        types = sorted((d for d in n.defs if d.kind in ('struct', 'union')), key=lambda d: d.name)
        routes = sorted((d for d in n.defs if d.kind == 'route'), key=lambda d: (d.name, d.version))
        parts = self.ns_docs.get(ns)
        if parts is None:
            parts = [n.doc] if n.doc is not None else []
        e = {
            'name': ns,
            'doc': {'?': 'ns_doc', 'parts': [doc_unwrap(p) for p in parts]} if parts else None,
            'data_types': [self.data_type(ns, d) for d in types],
            'aliases': [self.alias(ns, d) for d in by('alias')],
            'annotations': [self.anno(ns, d) for d in by('annotation')],
            'annotation_types': [self.annotation_type(ns, d) for d in by('annotation_type')],
            'data_type_by_name': [[d.name, ['user', ns, d.name]] for d in types],
            'alias_by_name': [[d.name, ['alias', ns, d.name]] for d in by('alias')],
            'annotation_by_name': [[d.name, [ns, d.name]] for d in by('annotation')],
            'annotation_type_by_name': [[d.name, [ns, d.name]] for d in by('annotation_type')],
        }
        if not detached:
            e['routes'] = [self.route(ns, d) for d in routes]
            e['route_by_name'] = [[d.name, [d.name, 1]] for d in routes if d.version == 1]
            names = sorted({d.name for d in routes})
            e['routes_by_name'] = [[nm, [[d.version, [d.name, d.version]] for d in routes if d.name == nm]]
                                   for nm in names]
            e['imports'] = {'data_type_only': self.foreign_user_types(n)}
        return e

    def run(self):
        nss = sorted((n for n in self.m.namespaces if n.name != 'stone_cfg'), key=lambda n: n.name)
        cfg = sg.find_ns(self.m, 'stone_cfg')
        e = {
            'namespace_keys': [n.name for n in nss],
            'namespaces': [self.namespace(n) for n in nss],
        }
        route = self.defs.get(('stone_cfg', 'Route'))
        if route is not None:
            e['route_schema'] = self.data_type('stone_cfg', route)
            e['route_schema_ns'] = self.namespace(cfg, detached=True)
        else:
            # no schema: an empty one
            e['route_schema'] = {'kind': 'struct', 'name': 'Route', 'ns': 'stone_cfg', 'fields': [], 'all_fields': [],
                                 'parent': None, 'doc': None, 'raw_doc': None}
        return e


def _skey(x):
    import json
    return json.dumps(x, sort_keys=True)


def expected_signature(model, ns_docs=None):
    """What `apisig.signature(api, mask=MASK)` must show for the Api compiled from any rendering of `model`.
    `ns_docs`: {namespace: [raw doc of each file that carries one, in the order the files are handed to the
    compiler]} when the namespace doc is spread over several files (default: the model's single doc)."""
    return _Reader(model, ns_docs).run()


# ----------------------------------------------------------------------------------------------------------------
# comparison

# what is declared is compared before what is derived from it (so that a lost field is reported as a lost field,
# not as a shorter `all_fields`)
_DERIVED = frozenset(['all_fields', 'all_required_fields', 'all_optional_fields', 'omitted_callers', 'examples', 'subtypes',
                      'all_subtypes_with_tags', 'in_subtypes_tree', 'imports', 'namespace_keys', 'catch_all_field'])


class Diff:
    def __init__(self, path, expected, actual, why=None):
        self.path = path
        self.general = generalise(path)
        self.expected = expected
        self.actual = actual
        self.why = why

    def __repr__(self):
        return 'Diff(%s: expected %r, actual %r%s)' % (self.path, self.expected, self.actual,
                                                       ', ' + self.why if self.why else '')


def generalise(path):
    """'namespaces[2]<files>.data_types[3]<Foo>.fields[1]<x>.default' -> 'data_types.*.fields.*.default'"""
    p = _re.sub(r'\[\d+\](<[^>]*>)?|\{[^}]*\}', '.*', path)
    p = _re.sub(r'^namespaces\.\*\.', '', p)
    # the inside of a type expression / of a derived listing is one place
    p = _re.sub(r'\.(type|arg|result|error|parent|default|all_fields|all_required_fields|all_optional_fields|subtypes|'
                r'enumerated_subtypes|all_subtypes_with_tags|examples|args)(\.\*)+', r'.\1', p)
    p = _re.sub(r'(_by_name)(\.\*)+', r'\1', p)
    return p


def _label(x):
    if isinstance(x, dict) and isinstance(x.get('name'), str):
        v = x.get('version')
        return '<%s%s>' % (x['name'], ':%d' % v if isinstance(v, int) and v != 1 else '')
    return ''


def _match(m, a, notes):
    """matcher m against actual a -> None or a reason"""
    k = m['?']
    if k == 'any':
        return None
    if k == 'doc':
        base = doc_unwrap(m['raw'])
        if not m['injected']:
            return None if a == base else 'doc is not the unwrapped raw doc'
        if not isinstance(a, str):
            return 'no warning injected into the doc of a Deprecated / Preview / Omitted member'
        if base is None:
            if a.endswith('None'):
                notes.append('injected-None')      # wording, not judged
            return None
        if not a.endswith(base):
            return 'doc of an annotated member does not end with its own doc'
        if a == base:
            return 'no warning injected into the doc of a Deprecated / Preview / Omitted member'
        return None
    if k == 'ns_doc':
        if not isinstance(a, str):
            return 'namespace doc missing'
        rx = r'\n+'.join(_re.escape(p) for p in m['parts']) + r'\n*'
        return None if _re.fullmatch(rx, a) else 'namespace doc is not the docs of its files in file order'
    if k == 'tagref':
        if not (isinstance(a, list) and len(a) == 4 and a[0] == 'tagref'):
            return 'not a tag reference'
        if a[3] != m['tag']:
            return 'wrong tag'
        if [a[1], a[2]] == [m['ns'], m['name']]:
            return None
        if [a[1], a[2]] in m['aliases']:
            notes.append('tagref-names-alias')
            return None
        return 'tag reference points at another union'
    if k == 'float':
        if a == ['f', m['hex']]:
            return None
        if isinstance(a, int) and not isinstance(a, bool) and fhex(a) == m['hex']:
            if m['int_ok']:
                notes.append('int-default-for-float-through-alias')
                return None
            return 'default of a float field is not a float'
        return 'wrong default'
    if k == 'number':
        v = m['value']
        if a == v:
            return None
        num = lambda x: (isinstance(x, int) and not isinstance(x, bool)) or (isinstance(x, list) and len(x) == 2 and x[0] == 'f')   # noqa: E731
        if num(a) and num(v):
            fa = a[1] if isinstance(a, list) else fhex(a)
            fv = v[1] if isinstance(v, list) else fhex(v)
            if fa == fv:
                return None
        return 'wrong value'
    if k == 'attr_text':
        s = m['text']
        if a == s:
            notes.append('attr-%s-kept-as-text' % m['kind'])
            return None
        if m['kind'] == 'Bytes' and a == ['bytes', s.encode('utf-8').hex()]:
            return None
        if m['kind'] == 'Timestamp' and isinstance(a, list) and a[:1] == ['datetime']:
            try:
                if a[1] == _dt.datetime.strptime(s, m['format']).isoformat():
                    return None
            except (ValueError, TypeError):
                pass
        return 'wrong attribute value'
    raise ValueError('unknown matcher %r' % (k,))


def compare(exp, act, path='', notes=None):
    """first place where the actual signature departs from the expectation -> Diff or None.
    `notes` (a list) collects tags of tolerated, not judged observations."""
    if notes is None:
        notes = []
    if isinstance(exp, dict) and '?' in exp:
        if exp['?'] == 'pairs':
            if not isinstance(act, list) or any(not (isinstance(p, list) and len(p) == 2) for p in act):
                return Diff(path, exp['pairs'], act, 'not a mapping')
            ek, ak = [k for k, _ in exp['pairs']], [k for k, _ in act]
            if sorted(ek) != sorted(ak) or len(set(ak)) != len(ak):
                missing = [k for k in ek if k not in ak]
                extra = [k for k in ak if k not in ek]
                return Diff(path, sorted(ek), sorted(ak), 'keys differ: missing %s, unexpected %s' % (missing, extra))
            am = dict((k, v) for k, v in act)
            for k, v in exp['pairs']:
                r = compare(v, am[k], '%s{%s}' % (path, k), notes)
                if r:
                    return r
            return None
        why = _match(exp, act, notes)
        return Diff(path, exp, act, why) if why else None
    if isinstance(exp, dict):
        if not isinstance(act, dict):
            return Diff(path, exp, act, 'not an object')
        for k in sorted(exp, key=lambda k: (k in _DERIVED or k.endswith('_by_name'), k)):
            p = '%s.%s' % (path, k) if path else k
            if k not in act:
                return Diff(p, exp[k], '<missing>')
            r = compare(exp[k], act[k], p, notes)
            if r:
                return r
        return None
    if isinstance(exp, list):
        if not isinstance(act, list):
            return Diff(path, exp, act, 'not a list')
        # a list of named things: say which names are missing / unexpected / out of order before going inside
        en, an = [_label(x) for x in exp], [_label(x) for x in act]
        if all(en) and (all(an) or not act) and en != an:
            why = 'order differs' if sorted(en) == sorted(an) else 'missing %s, unexpected %s' % (
                [x for x in en if x not in an], [x for x in an if x not in en])
            return Diff(path, en, an, why)
        for i, (x, y) in enumerate(zip(exp, act)):
            r = compare(x, y, '%s[%d]%s' % (path, i, _label(x)), notes)
            if r:
                return r
        if len(exp) != len(act):
            return Diff(path, exp, act, 'length %d != %d' % (len(exp), len(act)))
        return None
    if type(exp) is type(act) and exp == act:
        return None
    return Diff(path, exp, act)
