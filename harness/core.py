"""Shared machinery of every check: build + audit of the Lean project, the line-protocol client of
the model driver, known findings, replay files, evidence, verdict.

Verdict rules (DESIGN.md 2.1):
  * a failing input found on the real code  -> VIOLATION (or KNOWN-FINDING if listed)
  * a broken proof obligation or a correspondence disagreement, and the search found no failing
    input -> VIOLATION ... no-failing-input-found (replay names the theorem / suite)
  * otherwise exit 0.   Timeouts / infrastructure failures: exit 2.
"""
import atexit
import fcntl
import hashlib
import json
import os
import random
import re
import shutil
import subprocess
import sys
import tempfile
import time

VERIF = os.path.dirname(os.path.dirname(os.path.abspath(__file__)))
REPO = os.environ.get('STONE_REPO', '/repo')
LEAN_DIR = os.environ.get('VERIF_LEAN_DIR') or os.path.join(VERIF, 'lean')   # a private copy isolates a run from concurrent builds
DRIVER = os.path.join(LEAN_DIR, '.lake', 'build', 'bin', 'driver')
ALLOWED_AXIOMS = {'propext', 'Classical.choice', 'Quot.sound'}
FORBIDDEN_RE = re.compile(
    r'\bsorry\b|\badmit\b|^axiom |native_decide|bv_decide|implemented_by|\bunsafe |maxHeartbeats 0')

TRUSTED_BASE = [
    'Lean 4.33 kernel (axioms allowed in property theorems: propext, Classical.choice, Quot.sound)',
    'Lean compiler (the driver executable is compiled from the same definitions the theorems are about)',
    'translator/extract_tables.py (copies literal tables from /repo into Gen/Tables.lean)',
    'correspondence harness + generators (what they never generate is never compared)',
    'CPython, json, re, base64, datetime, hashlib, textwrap, os.path, importlib (external calls, modelled as '
    'parameters or small re-implementations compared on every run)',
]

_scratch_dirs = []


def scratch(prefix='stone-verif-'):
    d = tempfile.mkdtemp(prefix=prefix)
    _scratch_dirs.append(d)
    return d


@atexit.register
def _cleanup():
    for d in _scratch_dirs:
        shutil.rmtree(d, ignore_errors=True)


def ensure_repo_on_path():
    """The harness always imports `stone` from the tree under test, never an installed copy."""
    if REPO not in sys.path:
        sys.path.insert(0, REPO)
    import stone  # noqa
    got = os.path.realpath(os.path.dirname(os.path.dirname(stone.__file__)))
    if got != os.path.realpath(REPO):
        raise RuntimeError('stone imported from %s, expected %s' % (got, REPO))


def strip_lean_comments(text):
    out = []
    i = 0
    depth = 0
    n = len(text)
    while i < n:
        if text.startswith('/-', i):
            depth += 1
            i += 2
        elif depth and text.startswith('-/', i):
            depth -= 1
            i += 2
        elif depth:
            if text[i] == '\n':
                out.append('\n')
            i += 1
        elif text.startswith('--', i):
            while i < n and text[i] != '\n':
                i += 1
        else:
            out.append(text[i])
            i += 1
    return ''.join(out)


class Timeout(Exception):
    pass


class Check:
    def __init__(self, prop, tier='quick', seed=0):
        self.prop = prop
        self.tier = tier
        self.seed = seed
        self.rng = random.Random('%s/%s' % (prop, seed))
        self.t0 = time.time()
        self.stats = {}            # counters
        self.dist = {}             # distribution histograms
        self.samples = []
        self.distinct = set()
        self.evaluations = 0
        self.theorems = []         # [(name, axioms or None)]
        self.partial = []          # names of *_partial theorems
        self.broken = []           # [{'kind': 'proof'|'correspondence'|'audit', 'name':..., 'detail':...}]
        self.violations = []       # unlisted, with failing input
        self.known_hits = []
        self.notes = []
        self.assumptions = []
        self.build_log = ''
        self.suites = {}
        self.budget_s = float(os.environ.get('VERIF_BUDGET_S', '0') or 0)
        self._driver = None
        self._findings = None

    # ------------------------------------------------------------------ small helpers
    def stat(self, key, n=1):
        self.stats[key] = self.stats.get(key, 0) + n

    def hist(self, name, key, n=1):
        h = self.dist.setdefault(name, {})
        key = str(key)
        h[key] = h.get(key, 0) + n

    def sample(self, obj, cap=6):
        if len(self.samples) < cap:
            self.samples.append(obj)

    def case(self, key=None, nontrivial=True):
        """Count one explored case; `key` identifies it for the distinct/non-trivial count."""
        self.evaluations += 1
        if nontrivial and key is not None:
            if len(self.distinct) < 2_000_000:
                self.distinct.add(hashlib.blake2b(repr(key).encode('utf-8', 'replace'), digest_size=8).digest())

    def note(self, s):
        self.notes.append(s)

    def elapsed(self):
        return time.time() - self.t0

    def scale(self, quick, thorough):
        return thorough if self.tier == 'thorough' else quick

    # ------------------------------------------------------------------ build and audit
    def build(self, props_modules=None):
        """Regenerate Tables.lean from REPO, build the property module(s) and the driver.
        Returns True when everything built. A failed build is recorded as a broken proof
        obligation (never a violation by itself)."""
        props_modules = props_modules or ['StoneVerif.Props.%s' % self.prop]
        lock = open(os.path.join(LEAN_DIR, '.build.lock'), 'w')
        fcntl.flock(lock, fcntl.LOCK_EX)
        try:
            tr = subprocess.run([sys.executable, os.path.join(VERIF, 'translator', 'extract_tables.py'),
                                 '--repo', REPO, '--out', os.path.join(LEAN_DIR, 'StoneVerif', 'Gen', 'Tables.lean')],
                                capture_output=True, text=True)
            if tr.returncode != 0:
                self.broken.append({'kind': 'translator', 'name': 'extract_tables',
                                    'detail': (tr.stdout + tr.stderr)[-2000:]})
            ok = True
            for target in props_modules + ['driver']:
                p = subprocess.run(['lake', 'build', target], cwd=LEAN_DIR, capture_output=True, text=True)
                self.build_log += p.stdout + p.stderr
                if p.returncode != 0:
                    ok = False
                    errs = [l for l in (p.stdout + p.stderr).splitlines() if 'error' in l][:6]
                    kind = 'driver-build' if target == 'driver' else 'proof'
                    self.broken.append({'kind': kind, 'name': self._first_broken_decl(p.stdout + p.stderr) or target,
                                        'detail': '\n'.join(errs)})
            return ok
        finally:
            fcntl.flock(lock, fcntl.LOCK_UN)
            lock.close()

    def _first_broken_decl(self, log):
        m = re.search(r'error: ([^\s:]+\.lean):(\d+):(\d+)', log)
        if not m:
            return None
        path, line = m.group(1), int(m.group(2))
        full = path if os.path.isabs(path) else os.path.join(LEAN_DIR, path)
        try:
            lines = open(full, encoding='utf-8').read().splitlines()
        except OSError:
            return '%s:%d' % (path, line)
        for i in range(min(line, len(lines)) - 1, -1, -1):
            mm = re.match(r'\s*(?:private\s+|protected\s+)?(theorem|lemma|def|example|instance)\s+(\S+)?', lines[i])
            if mm:
                return '%s:%d (%s %s)' % (path, line, mm.group(1), mm.group(2) or '')
        return '%s:%d' % (path, line)

    def props_file(self, prop=None):
        return os.path.join(LEAN_DIR, 'StoneVerif', 'Props', '%s.lean' % (prop or self.prop))

    def audit(self, prop=None):
        """`#print axioms` of every theorem declared in Props/<prop>.lean; forbidden-token grep over
        all Lean sources. Anything unexpected is recorded as a broken obligation."""
        prop = prop or self.prop
        src = open(self.props_file(prop), encoding='utf-8').read()
        code = strip_lean_comments(src)
        ns = re.search(r'^namespace\s+(\S+)', code, re.M)
        nsname = ns.group(1) if ns else ''
        names = re.findall(r'^\s*theorem\s+([^\s:({\[]+)', code, re.M)
        if not names:
            self.broken.append({'kind': 'audit', 'name': prop, 'detail': 'no theorem found in Props file'})
            return
        audit_dir = os.path.join(LEAN_DIR, '.lake', 'audit')
        os.makedirs(audit_dir, exist_ok=True)
        f = os.path.join(audit_dir, 'Audit_%s_%d.lean' % (prop, os.getpid()))
        with open(f, 'w') as fh:
            fh.write('import StoneVerif.Props.%s\n' % prop)
            for n in names:
                fh.write('#print axioms %s\n' % ((nsname + '.' + n) if nsname else n))
        p = subprocess.run(['lake', 'env', 'lean', f], cwd=LEAN_DIR, capture_output=True, text=True)
        os.unlink(f)
        out = p.stdout + p.stderr
        found = {}
        for m in re.finditer(r"'([^']+)' (depends on axioms: \[([^\]]*)\]|does not depend on any axioms)", out):
            axs = [a.strip() for a in (m.group(3) or '').replace('\n', ' ').split(',') if a.strip()]
            found[m.group(1)] = axs
        for n in names:
            full = (nsname + '.' + n) if nsname else n
            axs = found.get(full)
            self.theorems.append((full, axs))
            if n.endswith('_partial'):
                self.partial.append(full)
            if axs is None:
                self.broken.append({'kind': 'proof', 'name': full, 'detail': 'theorem not accepted: ' + out[-600:]})
            elif set(axs) - ALLOWED_AXIOMS:
                self.broken.append({'kind': 'audit', 'name': full,
                                    'detail': 'axioms outside the allowed set: %s' % sorted(set(axs) - ALLOWED_AXIOMS)})
        # forbidden tokens anywhere in the Lean sources (comments stripped)
        for root, _dirs, files in os.walk(LEAN_DIR):
            if '.lake' in root:
                continue
            for fn in files:
                if fn.endswith('.lean'):
                    text = strip_lean_comments(open(os.path.join(root, fn), encoding='utf-8').read())
                    for ln in text.splitlines():
                        if FORBIDDEN_RE.search(ln):
                            self.broken.append({'kind': 'audit', 'name': fn, 'detail': 'forbidden token: ' + ln.strip()[:120]})
                            break

    def build_and_audit(self, extra_props=()):
        mods = ['StoneVerif.Props.%s' % self.prop] + ['StoneVerif.Props.%s' % p for p in extra_props]
        ok = self.build(mods)
        self.audit()
        for p in extra_props:
            self.audit(p)
        if ok and self.tier == 'thorough':
            self.leanchecker(mods)
        return ok

    def leanchecker(self, mods):
        """Thorough tier: the toolchain's independent re-checker replays the compiled property modules (and
        everything they import) through the kernel."""
        t0 = time.time()
        p = subprocess.run(['lake', 'env', 'leanchecker'] + mods, cwd=LEAN_DIR, capture_output=True, text=True)
        self.stats['leanchecker_s'] = round(time.time() - t0, 1)
        self.stats['leanchecker_exit'] = p.returncode
        if p.returncode != 0:
            self.broken.append({'kind': 'audit', 'name': 'leanchecker ' + ' '.join(mods),
                                'detail': (p.stdout + p.stderr)[-800:]})

    # ------------------------------------------------------------------ driver
    def driver(self, requests, chunk=None):
        """Send request dicts to the model driver, return reply dicts (same order)."""
        if not requests:
            return []
        if not os.path.exists(DRIVER):
            raise RuntimeError('driver executable missing: %s' % DRIVER)
        data = '\n'.join(json.dumps(r, ensure_ascii=True) for r in requests) + '\n'
        p = subprocess.run([DRIVER], input=data, capture_output=True, text=True)
        if p.returncode != 0:
            raise RuntimeError('driver failed (%d): %s' % (p.returncode, p.stderr[-2000:]))
        lines = p.stdout.splitlines()
        if len(lines) != len(requests):
            raise RuntimeError('driver answered %d lines for %d requests: %s' % (len(lines), len(requests), p.stderr[-500:]))
        return [json.loads(l) for l in lines]

    # ------------------------------------------------------------------ correspondence bookkeeping
    def suite(self, name):
        return self.suites.setdefault(name, {'cases': 0, 'disagreements': 0, 'first': []})

    def agree(self, suite, n=1):
        self.suite(suite)['cases'] += n

    def disagree(self, suite, case, real, model):
        s = self.suite(suite)
        s['cases'] += 1
        s['disagreements'] += 1
        if len(s['first']) < 5:
            s['first'].append({'case': case, 'real': real, 'model': model})

    # ------------------------------------------------------------------ findings / violations
    def findings(self):
        if self._findings is None:
            self._findings = []
            path = os.path.join(VERIF, 'KNOWN_FINDINGS.jsonl')
            if os.path.exists(path):
                for line in open(path, encoding='utf-8'):
                    line = line.strip()
                    if line and not line.startswith('#'):
                        self._findings.append(json.loads(line))
        return self._findings

    def _match_finding(self, sig):
        for f in self.findings():
            if f.get('kind') != 'finding' or f.get('property') != self.prop:
                continue
            m = f.get('match', {})
            if m and all(sig.get(k) == v for k, v in m.items()):
                return f
        return None

    def write_replay(self, obj):
        d = os.path.join(VERIF, 'evidence', 'replays')
        os.makedirs(d, exist_ok=True)
        blob = json.dumps(obj, sort_keys=True, ensure_ascii=True, default=repr)
        h = hashlib.sha1(blob.encode()).hexdigest()[:12]
        path = os.path.join(d, '%s-%s.json' % (self.prop, h))
        with open(path, 'w') as fh:
            json.dump(obj, fh, indent=1, sort_keys=True, ensure_ascii=True, default=repr)
        return path

    def failing_input(self, what, sig, case):
        """The property fails on the real code for `case`. `sig` is the failure signature used to
        match KNOWN_FINDINGS entries (a different failure of the same property does not match)."""
        f = self._match_finding(sig)
        if f is not None:
            key = f.get('id')
            if key not in [k for k, _ in self.known_hits]:
                self.known_hits.append((key, f.get('what', what)))
            return 'known'
        key = json.dumps(sig, sort_keys=True, default=repr)
        if key in [v['key'] for v in self.violations]:
            return 'dup'
        ctx = getattr(self, 'replay_ctx', None)
        if ctx is not None:
            case = ctx(case)             # a suite may add what its replay needs (e.g. the timestamps values refer to)
        path = self.write_replay({'property': self.prop, 'what': what, 'signature': sig, 'case': case,
                                  'seed': self.seed, 'tier': self.tier})
        self.violations.append({'key': key, 'what': what, 'replay': path})
        return 'new'

    # ------------------------------------------------------------------ verdict + evidence
    LEVELS = ('exploration', 'fault_enumeration', 'model_checking', 'proof', 'translation_validation', 'other')

    def finish(self, level='proof', rule='', extra_cov=None):
        if level not in self.LEVELS:
            # the schema fixes the level names; a mixed label (e.g. "proof+testing") goes into the coverage
            extra_cov = dict(extra_cov or {})
            extra_cov['level_detail'] = level
            level = 'proof'
        for name, s in self.suites.items():
            if s['disagreements']:
                self.broken.append({'kind': 'correspondence', 'name': name,
                                    'detail': json.dumps(s['first'][:2], default=repr)[:1500],
                                    # in full, so that the disagreement can be re-run from the replay file
                                    'first': s['first'][:2]})
        exit_code = 0
        lines = []
        for key, what in self.known_hits:
            lines.append('KNOWN-FINDING: property=%s %s' % (self.prop, what))
        for v in self.violations:
            lines.append('VIOLATION property=%s replay=%s' % (self.prop, v['replay']))
            exit_code = 1
        if not self.violations and self.broken:
            # nothing failed on the real code, but the property is no longer shown to hold
            path = self.write_replay({'property': self.prop, 'no_failing_input_found': True,
                                      'broken': self.broken, 'seed': self.seed, 'tier': self.tier,
                                      'searched': {'evaluations': self.evaluations, 'stats': self.stats}})
            lines.append('VIOLATION property=%s replay=%s no-failing-input-found' % (self.prop, path))
            exit_code = 1
        obligations = len(self.theorems)
        discharged = len([1 for _n, a in self.theorems if a is not None and not (set(a) - ALLOWED_AXIOMS)])
        if any(b['kind'] in ('proof',) and b['name'].startswith('StoneVerif.Props') for b in self.broken):
            discharged = min(discharged, max(0, obligations - 1))
        cov = {
            'obligations': obligations,
            'discharged': discharged,
            'checker_cmd': 'cd lean && lake build StoneVerif.Props.%s && lake env lean <#print axioms of every theorem>' % self.prop,
            'trusted_base': TRUSTED_BASE,
            'theorems': [{'name': n, 'axioms': a} for n, a in self.theorems],
            'partial_theorems': self.partial,
            'evaluations': self.evaluations,
            'distinct_nontrivial': len(self.distinct),
            'rule': rule,
            'samples': self.samples or ['(none)'],
            'correspondence': {k: {'cases': v['cases'], 'disagreements': v['disagreements']} for k, v in self.suites.items()},
            'stats': self.stats,
            'distribution': self.dist,
            'broken': self.broken,
            'known_findings_reconfirmed': [k for k, _ in self.known_hits],
            'notes': self.notes,
        }
        if extra_cov:
            cov.update(extra_cov)
        ev = {
            'property_id': self.prop,
            'tier': self.tier,
            'seed': self.seed,
            'level': level,
            'coverage': cov,
            'assumptions': self.assumptions,
            'wall_s': round(self.elapsed(), 2),
            'violations': len(self.violations) + (1 if (not self.violations and self.broken) else 0),
        }
        # evidence/<id>.json describes runs against /repo itself; a run against another tree (STONE_REPO, the seeded
        # changes) writes under evidence/other-tree/ (ignored by git)
        evdir = os.path.join(VERIF, 'evidence') if os.path.realpath(REPO) == '/repo' else \
            os.path.join(VERIF, 'evidence', 'other-tree')
        ev['coverage']['repo_tree'] = REPO
        os.makedirs(evdir, exist_ok=True)
        with open(os.path.join(evdir, '%s.json' % self.prop), 'w') as fh:
            json.dump(ev, fh, indent=1, sort_keys=True, default=repr)
            fh.write('\n')
        for l in lines:
            print(l)
        print('%s tier=%s seed=%d: theorems %d/%d, evaluations %d, suites %s, %.1fs -> exit %d' % (
            self.prop, self.tier, self.seed, discharged, obligations, self.evaluations,
            {k: (v['cases'], v['disagreements']) for k, v in self.suites.items()}, self.elapsed(), exit_code))
        sys.stdout.flush()
        return exit_code
