"""stone.ir.Api -> canonical JSON-able structures.

`env_of(api)`  : the runtime environment the RT model works on (class tables from the API description,
                 NOT from the generated reflection attributes).
`ir_ty(t)`     : declared type as the driver's IrTy.
"""
import struct

from stone.ir import (Alias, Boolean, Bytes, Float32, Float64, Int32, Int64, List, Map, Nullable, String,
                      Struct, Timestamp, UInt32, UInt64, Union, Void)
from stone.ir.data_types import RedactedBlot, RedactedHash, TagRef


def fbits(x):
    return struct.unpack('<Q', struct.pack('<d', float(x)))[0]


def bits_to_float(b):
    return struct.unpack('<d', struct.pack('<Q', b))[0]


def ref_of(dt):
    return '%s.%s' % (dt.namespace.name, dt.name)


def redactor_of(r):
    if r is None:
        return None
    if isinstance(r, RedactedBlot):
        return ['blot', r.regex]
    if isinstance(r, RedactedHash):
        return ['hash', r.regex]
    raise TypeError(r)


# The redactor an alias's validator object ends up with in the generated Python. `alias X = Y` (Y an alias, not wrapped
# in Nullable / List / Map) makes `X_validator` the SAME object as `Y_validator`, and `X_validator._redact = ...` is an
# assignment on that object: a redactor declared on X also reaches Y and everything typed Y (and replaces Y's own).
# This is over-redaction - no property speaks about it (C13 forbids leaks, not masks) - but it is what the code does, so
# the model is given it. Keyed by id() of the stone.ir.Alias object; filled by prepare(api).
_EFFECTIVE_REDACTOR = {}


def prepare(api):
    shared = {}      # id(alias) -> id(alias whose definition created the validator object)
    red = {}         # id(creating alias) -> redactor last assigned to the object
    keep = []
    for name in sorted(api.namespaces):
        ns = api.namespaces[name]
        for a in ns.linearize_aliases():
            keep.append(a)
            if isinstance(a.data_type, Alias):
                shared[id(a)] = shared.get(id(a.data_type), id(a.data_type))
            else:
                shared[id(a)] = id(a)
            if a.redactor is not None:
                red[shared[id(a)]] = a.redactor
    for a in keep:
        _EFFECTIVE_REDACTOR[id(a)] = (a, red.get(shared[id(a)]))


def effective_redactor(alias):
    hit = _EFFECTIVE_REDACTOR.get(id(alias))
    if hit is not None and hit[0] is alias:
        return hit[1]
    return alias.redactor


def ir_ty(t):
    if isinstance(t, Nullable):
        return ['Nullable', ir_ty(t.data_type)]
    if isinstance(t, Alias):
        return ['Alias', ref_of(t), redactor_of(effective_redactor(t)), ir_ty(t.data_type)]
    if isinstance(t, List):
        return ['List', ir_ty(t.data_type), t.min_items, t.max_items]
    if isinstance(t, Map):
        return ['Map', ir_ty(t.key_data_type), ir_ty(t.value_data_type)]
    if isinstance(t, Struct):
        return ['Struct', ref_of(t), bool(t.has_enumerated_subtypes())]
    if isinstance(t, Union):
        return ['Union', ref_of(t)]
    if isinstance(t, (Int32, UInt32, Int64, UInt64)):
        return [t.name, t.min_value, t.max_value]
    if isinstance(t, (Float32, Float64)):
        return [t.name, None if t.min_value is None else fbits(t.min_value),
                None if t.max_value is None else fbits(t.max_value)]
    if isinstance(t, String):
        return ['String', t.min_length, t.max_length, t.pattern]
    if isinstance(t, Timestamp):
        return ['Timestamp', t.format]
    if isinstance(t, Bytes):
        return ['Bytes']
    if isinstance(t, Boolean):
        return ['Boolean']
    if isinstance(t, Void):
        return ['Void']
    raise TypeError('unhandled IR type %r' % (t,))


def lit(v):
    """A field default / literal as a tagged PyVal."""
    if isinstance(v, TagRef):
        u = v.union_data_type
        while isinstance(u, Alias):      # a field typed through an alias keeps the alias in its TagRef
            u = u.data_type
        return ['U', ref_of(u), v.tag_name, ['n']]
    if v is None:
        return ['n']
    if isinstance(v, bool):
        return ['b', v]
    if isinstance(v, int):
        return ['i', v]
    if isinstance(v, float):
        return ['f', fbits(v)]
    if isinstance(v, str):
        return ['s', v]
    raise TypeError('unhandled literal %r' % (v,))


def chain(dt):
    out = []
    cur = dt
    while cur is not None:
        out.append(cur)
        cur = cur.parent_type
    out.reverse()
    return out


def subtypes_of(st):
    """All structs below `st` in its enumerated-subtypes tree: (tag path, ref, enumerates itself).
    Own traversal (breadth first), independent of Struct.get_all_subtypes_with_tags."""
    out = []
    queue = [([f.name], f.data_type) for f in st.get_enumerated_subtypes()]
    while queue:
        path, dt = queue.pop(0)
        out.append([path, ref_of(dt), bool(dt.has_enumerated_subtypes())])
        if dt.has_enumerated_subtypes():
            for f in dt.get_enumerated_subtypes():
                queue.append((path + [f.name], f.data_type))
    return out


def field_of(f):
    d = {'name': f.name, 'ty': ir_ty(f.data_type), 'om': f.omitted_caller, 'red': redactor_of(f.redactor)}
    if getattr(f, 'has_default', False):
        d['dflt'] = lit(f.default)
    return d


def env_of(api):
    prepare(api)
    structs, unions = [], []
    for ns in api.namespaces.values():
        for dt in ns.data_types:
            if isinstance(dt, Struct):
                structs.append({
                    'cls': ref_of(dt),
                    'levels': [{'cls': ref_of(c), 'fields': [field_of(f) for f in c.fields]} for c in chain(dt)],
                    'subtypes': subtypes_of(dt) if dt.has_enumerated_subtypes() else None,
                    'catchAll': bool(dt.has_enumerated_subtypes() and dt.is_catch_all()),
                })
            elif isinstance(dt, Union):
                ca = None
                for c in reversed(chain(dt)):
                    if c.catch_all_field is not None:
                        ca = c.catch_all_field.name
                        break
                unions.append({
                    'cls': ref_of(dt),
                    'levels': [{'cls': ref_of(c), 'tags': [
                        {'name': f.name, 'ty': ir_ty(f.data_type), 'om': f.omitted_caller,
                         'red': redactor_of(f.redactor)} for f in c.fields]} for c in chain(dt)],
                    'catchAll': ca,
                })
    return {'structs': structs, 'unions': unions}


def top_level_types(api):
    """Every struct, union, alias and route arg/result/error type: [(label, ir type object)]."""
    out = []
    for ns in api.namespaces.values():
        for dt in ns.data_types:
            out.append(('type %s' % ref_of(dt), dt))
        for a in ns.aliases:
            out.append(('alias %s' % ref_of(a), a))
        for r in ns.routes:
            for part in ('arg', 'result', 'error'):
                out.append(('route %s.%s:%d %s' % (ns.name, r.name, r.version, part),
                            getattr(r, part + '_data_type')))
    return out
