// C16 evaluation harness for js_client output: imports every generated module named on the command line,
// calls every function attached to `routes` with a `this` whose request() records its arguments, and prints
// one JSON document. Parameters are passed by name: `arg` gets {"$m":"arg"}, `options` gets {"$m":"options"}.
import { pathToFileURL } from 'url';
const out = [];
for (const f of process.argv.slice(2)) {
  try {
    const m = await import(pathToFileURL(f).href);
    const routes = m.routes;
    const rec = [];
    for (const k of Object.keys(routes)) {
      const fn = routes[k];
      const src = Function.prototype.toString.call(fn);
      const pm = /^function\s*\(([^)]*)\)/.exec(src);
      const params = pm ? pm[1].split(',').map((s) => s.trim()).filter((s) => s.length) : null;
      const calls = [];
      const self = { request: function () { calls.push(Array.from(arguments).map((a) => (a === undefined ? { $m: 'undefined' } : a))); return { $m: 'ret' }; } };
      let ret = null, err = null;
      try {
        ret = fn.apply(self, (params || []).map((p) => ({ $m: p })));
      } catch (e) { err = String(e); }
      rec.push({ name: k, params, calls, ret: ret === undefined ? { $m: 'undefined' } : ret, err });
    }
    out.push({ file: f, ok: true, keys: Object.keys(m), routes: rec });
  } catch (e) {
    out.push({ file: f, ok: false, error: String(e) });
  }
}
console.log(JSON.stringify(out));
