"""Rule-violation injectors over specgen models (C01's by-construction oracle, DESIGN Appendix A).

    for rule in RULES:                       # Rule(id, doc, level, sites, apply)
        for site in rule.sites(model):       # site handles are plain tuples (index paths), valid on any clone
            files, ctx = inject(model, rule, site, rng, layout)   # rendered [(path, text)] violating exactly `rule`

`level` is 'model' (apply(model_clone, site, rng) mutates the clone; it may return text replacements
[(placeholder, text)] for things the dataclasses cannot hold -- a keyword twice, an attribute twice) or 'text'
(apply(files, site, rng) -> files: an edit of the rendering, for layout and token-level rules).

Every injection must be CERTAINLY illegal: a legal spec passed off as a violation would be a false alarm.  Rules whose
violation the compiler used to accept (A5.3, A15.alias, A15.early, A20.elem, A22.alias, A32.container) are ordinary
rules here; the suite reports an accepted case with the rule id.  (Two patches of one type used to be injected as a
violation; since all patches of a type are applied that is legal -- corpus/C01 keeps it as a seed that must be accepted
-- and the injector now makes the two patches add the same member.)  `UNBUILT` lists catalogue entries without an
injector.
"""
import re
from dataclasses import dataclass

from harness import specgen as sg
from harness.specgen import (TypeRef, Field, Struct, Union, Alias, Route, Annotation, AnnotationType, AnnotationRef,
                             StructPatch, UnionPatch, Example, ExampleRef, TagRef, Namespace)


@dataclass
class Rule:
    id: str
    doc: str
    level: str
    sites: object
    apply: object
    ctx: object = None          # optional (model, site) -> [context tags], used to stratify the sampling of sites


RULES = []


def rule(id, doc, level='model'):
    def deco(cls):
        RULES.append(Rule(id, doc, level, cls.sites, cls.apply, getattr(cls, 'ctx', None)))
        return cls
    return deco


# ------------------------------------------------------------------------------------------------ helpers

def all_canon(model):
    s = set()
    for ns in model.namespaces:
        s.add(sg.canonical(ns.name, ns.name))
        for d in ns.defs:
            s.add(sg.canonical(d.name, ns.name))
    return s


def fresh(model, ns, base='ZqInj'):
    """a definition name whose canonical key is unused anywhere in the model"""
    used = all_canon(model)
    i = 0
    while True:
        n = '%s%d' % (base, i) if i else base
        if all(sg.canonical(n, m.name) not in used for m in model.namespaces) and n.lower() != ns.name.lower():
            return n
        i += 1


def add_def(ns, d, rng, file=None, first=False):
    """append a definition to the namespace and place it in one of its files"""
    ns.defs.append(d)
    if not ns.files:
        ns.files = [list(range(len(ns.defs) - 1))]
    fi = rng.randrange(len(ns.files)) if file is None else min(file, len(ns.files) - 1)
    pos = 0 if first else rng.randint(0, len(ns.files[fi]))
    ns.files[fi].insert(pos, len(ns.defs) - 1)
    return fi


def file_of(ns, di):
    for fi, f in enumerate(ns.files or [list(range(len(ns.defs)))]):
        if di in f:
            return fi
    return 0


def members(d):
    if d.kind in ('struct', 'struct_patch'):
        return d.fields
    if d.kind in ('union', 'union_patch'):
        return d.tags
    if d.kind == 'annotation_type':
        return d.params
    return []


def user_types(model, kinds=('struct', 'union')):
    return [(ni, di) for ni, ns in enumerate(model.namespaces) for di, d in enumerate(ns.defs) if d.kind in kinds]


def mk_struct(name, fields=None, parent=None, doc=None):
    return Struct(name, parent=parent, fields=fields if fields is not None else [Field('zq_f', TypeRef('Int32'))], doc=doc)


def mk_union(name, tags=None, closed=False, parent=None):
    return Union(name, parent=parent, closed=closed, tags=tags if tags is not None else [Field('zq_t')])


# ---- type reference slots: every place a TypeRef is written --------------------------------------------------------

def _nested(t, path=()):
    """paths (tuples of positional-argument indices) to t and to every TypeRef below it"""
    yield path
    for i, a in enumerate(t.args):
        if isinstance(a, TypeRef):
            yield from _nested(a, path + (i,))


def slots(model, kinds=None):
    """-> [(ni, di, where, idx, path)] for every TypeRef; where in field tag param alias arg result error"""
    out = []
    for ni, ns in enumerate(model.namespaces):
        for di, d in enumerate(ns.defs):
            tops = []
            if d.kind in ('struct', 'struct_patch'):
                tops = [('field', i, f.type) for i, f in enumerate(d.fields)]
            elif d.kind in ('union', 'union_patch'):
                tops = [('tag', i, f.type) for i, f in enumerate(d.tags) if f.type is not None]
            elif d.kind == 'annotation_type':
                tops = [('param', i, f.type) for i, f in enumerate(d.params)]
            elif d.kind == 'alias':
                tops = [('alias', 0, d.type)]
            elif d.kind == 'route':
                tops = [('arg', 0, d.arg), ('result', 0, d.result), ('error', 0, d.error)]
            for where, i, t in tops:
                if kinds is not None and where not in kinds:
                    continue
                for p in _nested(t):
                    out.append((ni, di, where, i, p))
    return out


def slot_get(model, s):
    ni, di, where, i, path = s
    d = model.namespaces[ni].defs[di]
    if where in ('field', 'tag', 'param'):
        t = members(d)[i].type
    elif where == 'alias':
        t = d.type
    else:
        t = getattr(d, where)
    for k in path:
        t = t.args[k]
    return t


def slot_set(model, s, new):
    ni, di, where, i, path = s
    d = model.namespaces[ni].defs[di]
    if path:
        parent = slot_get(model, (ni, di, where, i, path[:-1]))
        parent.args[path[-1]] = new
        return
    if where in ('field', 'tag', 'param'):
        members(d)[i].type = new
    elif where == 'alias':
        d.type = new
    else:
        setattr(d, where, new)


def slot_ctx(model, s):
    ni, di, where, i, path = s
    ns = model.namespaces[ni]
    d = ns.defs[di]
    tags = [where]
    if path:
        tags.append('nested')
    if d.kind in ('struct_patch', 'union_patch'):
        tags.append('patch')
    if file_of(ns, di) > 0:
        tags.append('file2')
    if d.kind in ('struct', 'union') and d.parent is not None:
        tags.append('child')
    return tags


def plain_slots(model, kinds=('field', 'tag', 'alias', 'arg', 'result', 'error')):
    """slots outside annotation-type parameters (those must stay primitive) and outside stone_cfg"""
    return [s for s in slots(model, kinds) if model.namespaces[s[0]].name != 'stone_cfg']


def set_field_slot_clean(model, s, new):
    """replace the type at a slot; a field's default is dropped (it belongs to the old type) -- the examples that
    mention the field keep their values: whatever they are, the spec stays illegal for the injected reason"""
    slot_set(model, s, new)
    ni, di, where, i, path = s
    if where == 'field' and not path:
        members(model.namespaces[ni].defs[di])[i].default = None


# ---- text level ----------------------------------------------------------------------------------------------------

def code_lines(text):
    """[(line_no, indent, line)] of the significant lines that start outside string literals and are not
    comment-only (the lexer ignores blank / comment lines, and everything inside a string)"""
    out = []
    in_str = False
    for no, line in enumerate(text.split('\n')):
        starts_inside = in_str
        i, n = 0, len(line)
        while i < n:
            c = line[i]
            if in_str:
                if c == '\\':
                    i += 2
                    continue
                if c == '"':
                    in_str = False
            else:
                if c == '#':
                    break
                if c == '"':
                    in_str = True
            i += 1
        s = line.strip()
        if not starts_inside and s and not s.startswith('#'):
            out.append((no, len(line) - len(line.lstrip(' ')), line))
    return out


def edit_line(text, no, new):
    lines = text.split('\n')
    if new is None:
        del lines[no]
    else:
        lines[no] = new
    return '\n'.join(lines)


def header_lines(files, keyword, indent=0):
    """(file index, line number) of the code lines `<indent><keyword> ...`"""
    out = []
    for fi, (_p, text) in enumerate(files):
        for no, ind, line in code_lines(text):
            if ind == indent and re.match(r'%s(\s|$)' % re.escape(keyword), line.strip()):
                out.append((fi, no))
    return out


# ================================================================================================ tier S: syntax / layout

@rule('S1', 'illegal character (lexer t_ANY_error: "Illegal character")', 'text')
class _S1:
    def sites(files):
        return [(fi, no) for fi, (_p, t) in enumerate(files) for no, _i, line in code_lines(t)
                if '"' not in line and '#' not in line]

    def apply(files, site, rng):
        fi, no = site
        p, t = files[fi]
        line = t.split('\n')[no]
        files[fi] = (p, edit_line(t, no, line + ' ' + rng.choice('$;!~^&%')))
        return files


@rule('S2', 'indentation that is not a multiple of four spaces ("Indent is not divisible by 4.")', 'text')
class _S2:
    def sites(files):
        # not the first line of a file: the lexer measures indentation at line breaks only (not judged)
        return [(fi, no) for fi, (_p, t) in enumerate(files) for no, _i, _l in code_lines(t)[1:]]

    def apply(files, site, rng):
        fi, no = site
        p, t = files[fi]
        files[fi] = (p, edit_line(t, no, ' ' * rng.choice((1, 2, 3)) + t.split('\n')[no]))
        return files


@rule('S3', 'continuation line inside parentheses not at exactly one more level (lang_ref "Line Continuations")', 'text')
class _S3:
    def sites(files):
        out = []
        for fi, (_p, t) in enumerate(files):
            for no, _i, line in code_lines(t):
                if '"' not in line and re.search(r'\([^()]+\)', line) and '#' not in line:
                    out.append((fi, no))
        return out

    def apply(files, site, rng):
        fi, no = site
        p, t = files[fi]
        line = t.split('\n')[no]
        ind = len(line) - len(line.lstrip(' '))
        k = line.index('(') + 1
        wrong = rng.choice((0, 8, 12)) if ind + 8 <= 40 else 0
        files[fi] = (p, edit_line(t, no, line[:k] + '\n' + ' ' * (ind + wrong) + line[k:].lstrip(' ')))
        return files


# one S4 rule per production family: (family, keyword at start of line, indent levels, substitution)
def _s4(fam, keyword, indents, sub, doc):
    class _R:
        def sites(files):
            return [s for ind in indents for s in header_lines(files, keyword, ind)]

        def apply(files, site, rng):
            fi, no = site
            p, t = files[fi]
            line = t.split('\n')[no]
            new = sub(line, rng)
            assert new != line, (fam, line)
            files[fi] = (p, edit_line(t, no, new))
            return files
    RULES.append(Rule('S4.' + fam, 'token not allowed by the grammar: ' + doc, 'text', _R.sites, _R.apply))


_s4('namespace', 'namespace', (0,), lambda l, r: re.sub(r'namespace\s+\S+', 'namespace 123', l), '`namespace 123`')
_s4('import', 'import', (0,), lambda l, r: l + ' ' + r.choice(('extra', '= x', '.y')), '`import a extra`')
_s4('alias', 'alias', (0,), lambda l, r: r.choice((l.replace(' = ', r.choice((' ', ' = = ', ' : ')), 1),
                                                    re.sub(r'^alias\b', r.choice(('namespace', 'doc', 'example', 'error')), l))),
    'alias without / with a doubled `=`; another keyword in the place of `alias` (parser p_alias: "Expected alias keyword")')
_s4('struct', 'struct', (0,), lambda l, r: re.sub(r'^struct\s+(\S+)', r.choice((r'struct \1 \1', r'struct = \1', r'struct \1 extends')), l.split(' extends ')[0]),
    '`struct A A`, `struct = A`, `struct A extends`')
_s4('union', 'union', (0,), lambda l, r: re.sub(r'^(union(?:_closed)?)\s+(\S+)', r.choice((r'\1 \2 \2', r'\1 \2 extends', r'\1 3')), l.split(' extends ')[0]),
    '`union A A`, `union A extends`, `union 3`')
_s4('union_closed', 'union_closed', (0,), lambda l, r: re.sub(r'^(union_closed)\s+(\S+)', r'\1 \2 \2', l.split(' extends ')[0]), '`union_closed A A`')
_s4('patch', 'patch', (0,), lambda l, r: re.sub(r'^patch\s+(struct|union_closed|union)\s+', r.choice(('patch ', r'patch \1 \1 ', 'patch alias ')), l),
    '`patch A` without the kind, kind twice')
_s4('route', 'route', (0,), lambda l, r: r.choice((l.replace(',', '', 1), l.replace('(', '((', 1), re.sub(r'^route\s+', 'route 5', l))),
    'route signature without a comma, `((`, a number as name')
_s4('attrs', 'attrs', (4,), lambda l, r: l + r.choice((' x', ' = 1')), '`attrs x`')
_s4('example', 'example', (4,), lambda l, r: re.sub(r'example\s+\S+', r.choice(('example', 'example 5', 'example a b')), l),
    '`example` without a label / with two')
_s4('annotation', 'annotation', (0,), lambda l, r: l.replace(' = ', r.choice((' ', ' = = ')), 1), 'annotation without `=`')
_s4('annotation_type', 'annotation_type', (0,), lambda l, r: re.sub(r'annotation_type\s+\S+', r.choice(('annotation_type 7', 'annotation_type A B')), l),
    '`annotation_type 7`')


def _field_lines(files):
    out = []
    for fi, (_p, t) in enumerate(files):
        for no, ind, line in code_lines(t):
            if ind == 4 and re.match(r'\s+[A-Za-z_]\w* [A-Z]\w*', line) and '"' not in line and not re.match(r'\s+(example|union|union_closed|attrs)\b', line):
                out.append((fi, no))
    return out


_R_FIELD = Rule('S4.field', 'token not allowed by the grammar: a field line `f T T`, `f = T`, `f T =`', 'text', _field_lines, None)


def _field_apply(files, site, rng):
    fi, no = site
    p, t = files[fi]
    line = t.split('\n')[no]
    m = re.match(r'(\s+)(\S+) (.*)$', line)
    new = rng.choice((m.group(1) + m.group(2) + ' = ' + m.group(3), line + ' =', m.group(1) + m.group(2) + ' ' + m.group(2) + ' ' + m.group(3) + ' extra'))
    files[fi] = (p, edit_line(t, no, new))
    return files


_R_FIELD.apply = _field_apply
RULES.append(_R_FIELD)


@rule('S5', 'keyword argument given twice (parser p_kw_args_update)')
class _S5:
    def sites(model):
        return plain_slots(model)

    def apply(model, s, rng):
        k, t = rng.choice((('min_length', TypeRef('String', kwargs={'min_length': 1, 'ZQDUPKW': 2})),
                           ('max_value', TypeRef('Int64', kwargs={'max_value': 10, 'ZQDUPKW': 10})),
                           ('max_items', TypeRef('List', args=[TypeRef('String')], kwargs={'max_items': 3, 'ZQDUPKW': 4}))))
        set_field_slot_clean(model, s, t)
        return [('ZQDUPKW', k)]


@rule('S6', '`extends T?`: a parent reference cannot be nullable (parser p_inheritance)')
class _S6:
    def sites(model):
        return [(ni, di) for ni, di in user_types(model) if model.namespaces[ni].defs[di].parent is not None]

    def apply(model, s, rng):
        model.namespaces[s[0]].defs[s[1]].parent.nullable = True


@rule('S7', 'route attribute given twice (parser p_route)')
class _S7:
    def sites(model):
        return [(ni, di) for ni, di in user_types(model, ('route',)) if model.namespaces[ni].defs[di].attrs]

    def apply(model, s, rng):
        r = model.namespaces[s[0]].defs[s[1]]
        k = rng.choice(list(r.attrs))
        r.attrs['ZQDUPATTR'] = r.attrs[k]
        return [('ZQDUPATTR', k)]


@rule('S8', 'route version must be a positive integer (lang_ref "Versioning"; parser p_route_version)')
class _S8:
    def sites(model):
        return [(ni, di, w) for ni, di in user_types(model, ('route',)) for w in ('def', 'by')
                if w == 'def' or isinstance(model.namespaces[ni].defs[di].deprecated, tuple)]

    def apply(model, s, rng):
        r = model.namespaces[s[0]].defs[s[1]]
        v = rng.choice((0, 0, -1, -3))
        if s[2] == 'def':
            r.version = v
        else:
            r.deprecated = (r.deprecated[0], v)


def _with_examples(model):
    return [(ni, di) for ni, di in user_types(model, ('struct', 'union', 'struct_patch', 'union_patch'))
            if any(ex.fields for ex in model.namespaces[ni].defs[di].examples)]


@rule('S9', 'example label given twice in one definition (parser p_examples_add)')
class _S9:
    def sites(model):
        return _with_examples(model)

    def apply(model, s, rng):
        d = model.namespaces[s[0]].defs[s[1]]
        ex = rng.choice([e for e in d.examples if e.fields])
        d.examples.insert(rng.randint(0, len(d.examples)), sg.clone(ex))


@rule('S10', 'example field given twice (parser p_example)')
class _S10:
    def sites(model):
        return _with_examples(model)

    def apply(model, s, rng):
        d = model.namespaces[s[0]].defs[s[1]]
        ex = rng.choice([e for e in d.examples if e.fields])
        k = rng.choice(list(ex.fields))
        ex.fields['ZQDUPEXF'] = ex.fields[k]
        return [('ZQDUPEXF', k)]


@rule('S11', 'a list or a map cannot be the key of a map in an example (parser p_ex_map_pair: key that cannot be hashed)')
class _S11:
    def sites(model):
        return [(ni, k) for ni, ns in enumerate(model.namespaces) if ns.name != 'stone_cfg' for k in ('list', 'map', 'inner')]

    def apply(model, s, rng):
        ns = model.namespaces[s[0]]
        n = fresh(model, ns, 'ZqExHost')
        vt = TypeRef('Map', args=[TypeRef('String'), TypeRef('Int32')])
        d = mk_struct(n, [Field('a', TypeRef('Map', args=[TypeRef('String'), vt]) if s[1] == 'inner' else vt)])
        d.examples = [Example('default', None, {'a': 'ZQUNHASHABLEKEY'})]
        add_def(ns, d, rng)
        return [('"ZQUNHASHABLEKEY"', {'list': '{[1]: 2}', 'map': '{{"k": 1}: 2}', 'inner': '{"k": {["j"]: 1}}'}[s[1]])]


def _cut_sites(files):
    out = []
    for kw in ('struct', 'union', 'union_closed', 'route'):
        for fi, no in header_lines(files, kw, 0):
            line = files[fi][1].split('\n')[no]
            if '"' not in line and '#' not in line and (kw != 'route' or '(' in line):
                out.append((fi, no))
    return out


@rule('S12', 'a file that ends in the middle of a definition (parser p_error: "Unexpected end of file.")', 'text')
class _S12:
    def sites(files):
        return _cut_sites(files)

    def apply(files, site, rng):
        fi, no = site
        p, t = files[fi]
        lines = t.split('\n')
        line = lines[no]
        if line.startswith('route'):
            # ... inside the parentheses of a route signature: after `(`, or after the comma that follows the first type
            k = line.index('(') + 1
            first = re.match(r'\s*[A-Za-z_][\w.]*\??,', line[k:])
            cut = line[:k + (first.end() if first and rng.random() < 0.5 else 0)]
            files[fi] = (p, '\n'.join(lines[:no] + [cut]) + rng.choice(('', '\n')))
        else:
            # ... after the header line of a struct / union: the body (at least one line) is missing
            files[fi] = (p, '\n'.join(lines[:no + 1]) + rng.choice(('', '\n', '\n\n')))
        return files


@rule('S13', 'a closing parenthesis without an opening one (lexer t_RPAR: "Unmatched closing parenthesis.")', 'text')
class _S13:
    def sites(files):
        # a legal rendering without line continuations: every code line is balanced in itself
        return [(fi, no) for fi, (_p, t) in enumerate(files) for no, _i, line in code_lines(t)
                if '"' not in line and '#' not in line and line.count('(') == line.count(')')]

    def apply(files, site, rng):
        fi, no = site
        p, t = files[fi]
        line = t.split('\n')[no]
        k = line.rindex(')') + 1 if ')' in line and rng.random() < 0.6 else len(line)
        files[fi] = (p, edit_line(t, no, line[:k] + ')' + line[k:]))
        return files


# ================================================================================================ tier A: namespaces, imports

def _first_lines(files):
    """files whose first code line is the namespace line and that have at least one definition"""
    out = []
    for fi, (_p, t) in enumerate(files):
        cl = code_lines(t)
        if cl and cl[0][2].startswith('namespace ') and any(ind == 0 for _n, ind, _l in cl[1:]):
            out.append((fi,))
    return out


@rule('A1', 'the first declaration of a spec must be the namespace (lang_ref "Namespace")', 'text')
class _A1:
    def sites(files):
        return _first_lines(files)

    def apply(files, site, rng):
        p, t = files[site[0]]
        lines = t.split('\n')
        cl = code_lines(t)
        nxt = next(no for no, ind, _l in cl[1:] if ind == 0)       # first top-level line after the namespace line
        head, rest = lines[:nxt], lines[nxt:]
        if rng.random() < 0.5:
            new = rest                                               # namespace line (and its doc) removed
        else:
            new = rest + [''] + [l for l in head if l.strip()] + ['']   # ... or moved to the end of the file
        files[site[0]] = (p, '\n'.join(new))
        return files


@rule('A2', 'a spec file declares exactly one namespace (lang_ref "Namespace")', 'text')
class _A2:
    def sites(files):
        return [(fi,) for fi in range(len(files))]

    def apply(files, site, rng):
        p, t = files[site[0]]
        other = rng.choice(('zq_second_ns', t.split('\n')[0].split()[1]))
        files[site[0]] = (p, t.rstrip('\n') + '\n\nnamespace %s\n' % other)
        return files


@rule('A3', 'a namespace cannot import itself ("Cannot import current namespace.")')
class _A3:
    def sites(model):
        return [(ni,) for ni in range(len(model.namespaces))]

    def apply(model, s, rng):
        ns = model.namespaces[s[0]]
        ns.imports.insert(rng.randint(0, len(ns.imports)), ns.name)


@rule('A4', 'import of a namespace that no spec declares')
class _A4:
    def sites(model):
        return [(ni,) for ni in range(len(model.namespaces))]

    def apply(model, s, rng):
        ns = model.namespaces[s[0]]
        ns.imports.insert(rng.randint(0, len(ns.imports)), 'zq_undeclared_ns')


def _imports_closure(model, name, seen=None):
    seen = seen if seen is not None else set()
    ns = sg.find_ns(model, name)
    for m in (ns.imports if ns else []):
        if m not in seen:
            seen.add(m)
            _imports_closure(model, m, seen)
    return seen


@rule('A5', 'two namespaces cannot import each other (lang_ref "Import": circular import)')
class _A5:
    def sites(model):
        return [(ni, mi) for ni, a in enumerate(model.namespaces) for mi, b in enumerate(model.namespaces)
                if ni != mi and b.name in a.imports and a.name not in b.imports]

    def apply(model, s, rng):
        model.namespaces[s[1]].imports.append(model.namespaces[s[0]].name)


@rule('A5.3', 'circular import through a third namespace (a imports b imports c imports a)')
class _A5c:
    def sites(model):
        out = []
        for ai, a in enumerate(model.namespaces):
            for b in a.imports:
                nb = sg.find_ns(model, b)
                for c in (nb.imports if nb else []):
                    nc = sg.find_ns(model, c)
                    if nc is not None and c != a.name and a.name not in nc.imports and a.name not in nb.imports \
                            and c not in a.imports:
                        out.append((ai, model.namespaces.index(nc)))
        return out

    def apply(model, s, rng):
        model.namespaces[s[1]].imports.append(model.namespaces[s[0]].name)


@rule('A6', '`ns.T` where `ns` is not imported by the namespace ("Namespace ... is not imported")')
class _A6:
    def sites(model):
        return plain_slots(model)

    def apply(model, s, rng):
        here = model.namespaces[s[0]]
        cands = [(m.name, d.name) for m in model.namespaces if m.name != here.name and m.name not in here.imports
                 and m.name != 'stone_cfg' for d in m.defs if d.kind in ('struct', 'union')]
        if cands and rng.random() < 0.7:
            nsn, tn = rng.choice(cands)
        else:
            nsn, tn = 'zq_no_such_ns', 'T'
        set_field_slot_clean(model, s, TypeRef(tn, ns=nsn))


@rule('A7', '`x.T` where `x` is a type or alias of the namespace, not a namespace ("... is not a namespace.")')
class _A7:
    def sites(model):
        return [s for s in plain_slots(model)
                if any(d.kind in ('struct', 'union', 'alias') for d in model.namespaces[s[0]].defs)]

    def apply(model, s, rng):
        here = model.namespaces[s[0]]
        x = rng.choice([d.name for d in here.defs if d.kind in ('struct', 'union', 'alias')])
        set_field_slot_clean(model, s, TypeRef('T', ns=x))


# ================================================================================================ tier A: names

def _variant(name, rng):
    """a different spelling with the same canonical name (case / underscore insensitive)"""
    outs = []
    for i, c in enumerate(name):
        if c.isalpha():
            outs.append(name[:i] + c.swapcase() + name[i + 1:])
            break
    outs.append(name + '_')
    if len(name) > 1 and '/' not in name:
        outs.append(name[0] + '_' + name[1:])
    outs = [o for o in outs if o != name and o not in sg.KEYWORDS and o not in sg.LITERAL_WORDS]
    return rng.choice(outs) if outs else None


def _mk_def(kind, name, model, ns, rng):
    if kind == 'struct':
        return mk_struct(name)
    if kind == 'union':
        return mk_union(name)
    if kind == 'alias':
        return Alias(name, TypeRef('String'))
    if kind == 'annotation':
        return Annotation(name, 'Deprecated')
    if kind == 'annotation_type':
        return AnnotationType(name, doc='zq', params=[])
    if kind == 'route':
        return Route(name.replace('/', ''), 1, TypeRef('Void'), TypeRef('Void'), TypeRef('Void'), attrs=_required_attrs(model, ns))
    raise ValueError(kind)


def route_schema(model):
    cfg = sg.find_ns(model, 'stone_cfg')
    if cfg is None:
        return None
    r = sg.find_def(model, 'stone_cfg', 'Route', ('struct',))
    return r


def _required_attrs(model, ns):
    """attrs an added route needs (B16): copy them from an existing route of the same namespace if there is one"""
    r = route_schema(model)
    if r is None:
        return {}
    req = [f for f in sg.own_fields(model, 'stone_cfg', r) if f.default is None and not f.type.nullable]
    if not req:
        return {}
    for m in model.namespaces:
        for d in m.defs:
            if d.kind == 'route' and all(f.name in d.attrs for f in req) and (m is ns or all(
                    not isinstance(d.attrs[f.name], TagRef) for f in req)):
                return {f.name: d.attrs[f.name] for f in req}
    return None


_KINDS_ALL = ('struct', 'union', 'alias', 'annotation', 'annotation_type', 'route')


def _addable_kinds(model, ns):
    ks = list(_KINDS_ALL)
    if ns.name == 'stone_cfg':
        return []
    if _required_attrs(model, ns) is None:
        ks.remove('route')
    return ks


@rule('A8', 'a symbol may be defined only once in a namespace (type / alias / annotation / annotation type / route combinations)')
class _A8:
    def sites(model):
        return [(ni, di, k) for ni, ns in enumerate(model.namespaces) for di, d in enumerate(ns.defs)
                if d.kind in _KINDS_ALL and '/' not in d.name
                for k in _addable_kinds(model, ns) if not (k == 'route' and d.kind == 'route')]

    def apply(model, s, rng):
        ns = model.namespaces[s[0]]
        d = ns.defs[s[1]]
        add_def(ns, _mk_def(s[2], d.name, model, ns, rng), rng)
        return None


@rule('A9', 'a route version may be defined only once ("Route ... at version N already defined")')
class _A9:
    def sites(model):
        return user_types(model, ('route',))

    def apply(model, s, rng):
        ns = model.namespaces[s[0]]
        r = sg.clone(ns.defs[s[1]])
        r.doc = None
        add_def(ns, r, rng)


@rule('A10', 'canonical-name clash: names equal up to case and underscores (test_name_conflicts / _check_canonical_name_available)')
class _A10:
    def sites(model):
        return [(ni, di, k) for ni, ns in enumerate(model.namespaces) for di, d in enumerate(ns.defs)
                if d.kind in _KINDS_ALL for k in _addable_kinds(model, ns) if not (k == 'route' and d.kind == 'route')]

    def apply(model, s, rng):
        ns = model.namespaces[s[0]]
        d = ns.defs[s[1]]
        v = _variant(d.name, rng)
        if v is None or (s[2] == 'route' and '/' in v):
            v = d.name.replace('/', '') + '_'
        if any(x.name == v for x in ns.defs):
            v = v + '_'
        add_def(ns, _mk_def(s[2], v, model, ns, rng), rng)


@rule('A10.ns', 'canonical-name clash with the namespace itself (a definition named like its namespace)')
class _A10ns:
    def sites(model):
        return [(ni, k) for ni, ns in enumerate(model.namespaces) for k in _addable_kinds(model, ns)]

    def apply(model, s, rng):
        ns = model.namespaces[s[0]]
        n = ns.name
        v = rng.choice([n, n.capitalize(), n.upper(), n.replace('_', ''), n + '_', n.title()])
        add_def(ns, _mk_def(s[1], v, model, ns, rng), rng)


# ================================================================================================ tier A: type references

@rule('A11', 'reference to an undefined symbol')
class _A11:
    def sites(model):
        return plain_slots(model) + [('parent', ni, di) for ni, di in user_types(model)]

    def apply(model, s, rng):
        if s[0] == 'parent':
            model.namespaces[s[1]].defs[s[2]].parent = TypeRef('ZqNoSuchType')
            return
        here = model.namespaces[s[0]]
        nsn = rng.choice([None, None] + [m for m in here.imports if sg.find_ns(model, m) is not None])
        set_field_slot_clean(model, s, TypeRef('ZqNoSuchType', ns=nsn, nullable=rng.random() < 0.2))


@rule('A12', '`Void?`: Void cannot be nullable')
class _A12:
    def sites(model):
        return plain_slots(model)

    def apply(model, s, rng):
        set_field_slot_clean(model, s, TypeRef('Void', nullable=True))


def _routes_visible(model, ni):
    here = model.namespaces[ni]
    out = [(None, d.name) for d in here.defs if d.kind == 'route' and '/' not in d.name]
    for m in here.imports:
        ns = sg.find_ns(model, m)
        if ns is not None:
            out += [(m, d.name) for d in ns.defs if d.kind == 'route' and '/' not in d.name]
    return out


@rule('A13', 'a route cannot be referenced as a type')
class _A13:
    def sites(model):
        return [s for s in plain_slots(model) if _routes_visible(model, s[0])]

    def apply(model, s, rng):
        nsn, name = rng.choice(_routes_visible(model, s[0]))
        set_field_slot_clean(model, s, TypeRef(name, ns=nsn))


@rule('A13.kind', 'a symbol that is not a data type cannot be used as a type: an annotation, an annotation type, an imported '
      'namespace (own or reached through an import) ("... is not a data type.")')
class _A13k:
    def sites(model):
        return [s + (k,) for s in plain_slots(model) for k in ('annotation', 'annotation_type', 'namespace', 'far_annotation')]

    def apply(model, s, rng):
        ns = model.namespaces[s[0]]
        k = s[5]
        if k == 'annotation':
            n = fresh(model, ns, 'ZqAnnoAsType')
            add_def(ns, Annotation(n, rng.choice(('Deprecated', 'Preview', 'RedactedBlot'))), rng)
            t = TypeRef(n)
        elif k == 'annotation_type':
            n = fresh(model, ns, 'ZqAnnoTypeAsType')
            add_def(ns, AnnotationType(n, doc='zq', params=[]), rng)
            t = TypeRef(n)
        else:
            imported = [m for m in ns.imports if sg.find_ns(model, m) is not None and m != 'stone_cfg']
            far = sg.find_ns(model, rng.choice(imported)) if imported and rng.random() < 0.5 else _far_ns(model, ns, rng)
            if k == 'namespace':
                if not far.defs:
                    add_def(far, Alias(fresh(model, far, 'ZqFarFiller'), TypeRef('String')), rng)
                t = TypeRef(far.name)
            else:
                n = fresh(model, far, 'ZqFarAnno')
                add_def(far, Annotation(n, 'Deprecated'), rng)
                t = TypeRef(n, ns=far.name)
        t.nullable = rng.random() < 0.2
        set_field_slot_clean(model, s[:5], t)


def _is_builtin(t):
    return t.ns is None and t.name in sg.BUILTIN_TYPES


@rule('A14', 'arguments on a user-defined type or alias ("Attributes cannot be specified for instantiated type")')
class _A14:
    def sites(model):
        return [s for s in plain_slots(model) if not _is_builtin(slot_get(model, s))]

    def apply(model, s, rng):
        t = slot_get(model, s)
        if rng.random() < 0.5:
            t.args = [rng.choice((1, 'x', TypeRef('String')))]
        else:
            t.kwargs = {rng.choice(('min_length', 'max_items', 'zq')): 1}


def _alias_chain_target(model, nsn, t, depth=0):
    """follow aliases: -> (ns, TypeRef at the end of the chain, nullable seen on the way)"""
    nul = t.nullable
    while depth < 20 and not _is_builtin(t):
        d = sg.find_def(model, t.ns or nsn, t.name, ('alias',))
        if d is None:
            break
        nsn = t.ns or nsn
        t = d.type
        nul = nul or t.nullable
        depth += 1
    return nsn, t, nul


def _xparents(model):
    """(ns, name) of the types that are an ancestor-or-self of the parent of a type in ANOTHER namespace: the compiler
    populates them on demand while the child's namespace is processed, possibly before the aliases of their own
    namespace have been resolved"""
    out = set()
    for ns, d in sg.iter_types(model):
        if d.parent is not None and d.parent.ns is not None and d.parent.ns != ns.name:
            cur = sg.parent_of(model, ns.name, d)
            n = 0
            while cur is not None and cur[1] is not None and n < 30:
                out.add((cur[0], cur[1].name))
                cur = sg.parent_of(model, cur[0], cur[1])
                n += 1
    return out


def _a15_slots(model, early):
    xp = _xparents(model)
    return [s for s in plain_slots(model, ('field', 'tag', 'arg', 'result', 'error'))
            if ((model.namespaces[s[0]].name, model.namespaces[s[0]].defs[s[1]].name) in xp) == early]


@rule('A15', 'nullable of a nullable: `A?` where alias A (possibly through further aliases) is already nullable; '
      'written in a field / tag / route type')
class _A15:
    def sites(model):
        return _a15_slots(model, False)

    def apply(model, s, rng):
        ns = model.namespaces[s[0]]
        a = fresh(model, ns, 'ZqNullAlias')
        add_def(ns, Alias(a, TypeRef(rng.choice(('String', 'Int64', 'Bytes')), nullable=True)), rng)
        name = a
        if rng.random() < 0.5:            # through an alias chain
            name = fresh(model, ns, 'ZqNullAliasB')
            add_def(ns, Alias(name, TypeRef(a)), rng)
        set_field_slot_clean(model, s, TypeRef(name, nullable=True))


@rule('A15.early', 'nullable of a nullable alias written in a member of a type that a type of another namespace extends '
      '(such a type is populated on demand, possibly before the aliases of its own namespace)')
class _A15e:
    def sites(model):
        return _a15_slots(model, True)

    def apply(model, s, rng):
        return _A15.apply(model, s, rng)


@rule('A15.alias', 'nullable of a nullable written in an alias target (`alias B = A?`, A declared before or after B)')
class _A15a:
    def sites(model):
        return plain_slots(model, ('alias',))

    def apply(model, s, rng):
        return _A15.apply(model, s, rng)


_A16 = ['List', 'List()', 'Map', 'Map(String)', 'Timestamp', 'Timestamp()']
_A17 = ['List(String, Int32)', 'String(3)', 'Int32(1)', 'Map(String, String, String)', 'Boolean(1)', 'Bytes("x")',
        'Timestamp("%Y", "%m")', 'Float64(1.5)', 'UInt64(0, 5)']
_A18 = ['String(bogus=1)', 'Int32(min=1)', 'List(String, max_length=2)', 'Boolean(x=true)', 'Timestamp("%Y", utc=true)',
        'Map(String, Int32, min_items=1)', 'Float32(pattern="x")']
_A19 = ['List(data_type=String)', 'Map(String, value_data_type=String)', 'Timestamp(fmt="%Y")']
_A20 = ['Int32(min_value=1.5)', 'Int32(min_value=-2147483649)', 'UInt32(min_value=-1)', 'Int64(max_value=9223372036854775808)',
        'UInt64(max_value=18446744073709551616)', 'Int32(max_value="5")', 'Float32(max_value=1e39)', 'Float32(min_value=-1e39)',
        'Float64(min_value="a")', 'Float32(max_value="x")', 'String(min_length=-1)', 'String(max_length=0)',
        'String(min_length=3, max_length=2)', 'String(min_length=1.5)', 'String(pattern="(")', 'String(pattern="[a-")',
        'String(pattern=3)', 'Timestamp(3)', 'Timestamp(true)', 'Map(Int32, String)', 'Map(Boolean, Int32)',
        'Map(List(String), String)', 'List(String, min_items=-1)', 'List(String, max_items=0)',
        'List(String, min_items=3, max_items=2)', 'UInt64(max_value=%s)' % ('9' * 4400), 'Int64(min_value=-%s)' % ('9' * 4400)]
_A20H = ['List(3)', 'List("x")', 'Map(String, 3)', 'List(true)']


class RawType(TypeRef):
    """a type reference given as text (rendered verbatim through a placeholder)"""


_RAW_COUNTER = {}


def _raw_rule(id, doc, texts):
    class _R:
        def sites(model):
            return plain_slots(model)

        def apply(model, s, rng):
            # cycle through the variants (every one is reached once the rule has been applied len(texts) times)
            _RAW_COUNTER[id] = _RAW_COUNTER.get(id, rng.randrange(len(texts))) + 1
            txt = texts[_RAW_COUNTER[id] % len(texts)]
            nul = rng.random() < 0.15 and not txt.startswith('Void')
            set_field_slot_clean(model, s, TypeRef('ZQRAWTYPE'))
            return [('ZQRAWTYPE', txt + ('?' if nul else ''))]
    RULES.append(Rule(id, doc, 'model', _R.sites, _R.apply))


_raw_rule('A16', 'missing positional (required) argument of List / Map / Timestamp (lang_ref "Basic Types")', _A16)
_raw_rule('A17', 'too many positional arguments', _A17)
_raw_rule('A18', 'unknown keyword argument', _A18)
_raw_rule('A19', 'a positional argument given by keyword', _A19)
_raw_rule('A20', 'bad argument value: non-integral / out-of-width bound, float bound not real / outside Float32, negative length, '
          'zero max, max < min, bad regex, non-string pattern / Timestamp format, Map key not a String type', _A20)
_raw_rule('A20.elem', 'List / Map element argument that is not a type (`List(3)`)', _A20H)


# ================================================================================================ tier A: structs, unions, aliases, routes

def _structs(model, pred=lambda ns, d: True, kinds=('struct',)):
    return [(ni, di) for ni, ns in enumerate(model.namespaces) for di, d in enumerate(ns.defs)
            if d.kind in kinds and ns.name != 'stone_cfg' and pred(ns, d)]


def _no_subtree(model, ns, d):
    """the struct is not part of an enumerated-subtype tree (adding relatives there violates B-rules as well)"""
    cur = (ns.name, d)
    while cur is not None and cur[1] is not None:
        if cur[1].kind == 'struct' and cur[1].subtypes is not None:
            return False
        cur = sg.parent_of(model, cur[0], cur[1])
    return True


@rule('A21', 'a struct can only extend a struct: not an alias, not a union, not a primitive')
class _A21:
    def sites(model):
        return [(ni, di, how) for ni, di in _structs(model, lambda ns, d: d.subtypes is None) for how in ('alias', 'union', 'prim')]

    def apply(model, s, rng):
        ns = model.namespaces[s[0]]
        d = ns.defs[s[1]]
        if s[2] == 'alias':
            tgt = fresh(model, ns, 'ZqBaseS')
            add_def(ns, mk_struct(tgt, [Field('zq_base_f', TypeRef('Int32'))]), rng)
            a = fresh(model, ns, 'ZqAliasOfStruct')
            add_def(ns, Alias(a, TypeRef(tgt)), rng)
            d.parent = TypeRef(a)
        elif s[2] == 'union':
            u = fresh(model, ns, 'ZqSomeUnion')
            add_def(ns, mk_union(u), rng)
            d.parent = TypeRef(u)
        else:
            d.parent = TypeRef(rng.choice(('String', 'Int32', 'Void', 'Bytes')))


@rule('A22', 'a struct field cannot have the Void type')
class _A22:
    def sites(model):
        return [s for s in plain_slots(model, ('field',)) if not s[4]]

    def apply(model, s, rng):
        if len(s) == 6:
            ns = model.namespaces[s[0]]
            a = fresh(model, ns, 'ZqVoidAlias')
            add_def(ns, Alias(a, TypeRef('Void')), rng)
            set_field_slot_clean(model, s[:5], TypeRef(a))
        else:
            set_field_slot_clean(model, s, TypeRef('Void'))


@rule('A22.alias', 'a struct field whose type is an alias of Void')
class _A22a:
    def sites(model):
        return [s + ('alias',) for s in plain_slots(model, ('field',)) if not s[4]]

    def apply(model, s, rng):
        return _A22.apply(model, s, rng)


@rule('A22.notype', 'a struct field must have a type: only a union member can be written without one')
class _A22n:
    def sites(model):
        return [s for s in plain_slots(model, ('field',)) if not s[4] and
                model.namespaces[s[0]].defs[s[1]].kind in ('struct', 'struct_patch')]

    def apply(model, s, rng):
        fl = members(model.namespaces[s[0]].defs[s[1]])[s[3]]
        fl.type = None
        fl.default = None
        fl.annotations = []


@rule('A23.alias', 'a default on a field whose type is an alias of a nullable type')
class _A23a:
    def sites(model):
        return [s + ('alias',) for s in plain_slots(model, ('field',)) if not s[4]]

    def apply(model, s, rng):
        return _A23.apply(model, s, rng)


@rule('A23', 'a nullable field cannot have a default (lang_ref "Defaults")')
class _A23:
    def sites(model):
        return [s for s in plain_slots(model, ('field',)) if not s[4]]

    def apply(model, s, rng):
        base, v = rng.choice((('Int32', 1), ('String', 'x'), ('Boolean', True), ('Float64', 1.5)))
        fl = members(model.namespaces[s[0]].defs[s[1]])[s[3]]
        if len(s) == 6:
            ns = model.namespaces[s[0]]
            a = fresh(model, ns, 'ZqOptAlias')
            add_def(ns, Alias(a, TypeRef(base, nullable=True)), rng)
            fl.type = TypeRef(a)
        else:
            fl.type = TypeRef(base, nullable=True)
        fl.default = v


@rule('A24', 'a field / tag name may be used only once in a type')
class _A24:
    def sites(model):
        return [(ni, di) for ni, di in _structs(model, kinds=('struct', 'union', 'struct_patch', 'union_patch'))
                if members(model.namespaces[ni].defs[di])]

    def apply(model, s, rng):
        d = model.namespaces[s[0]].defs[s[1]]
        ms = members(d)
        src = rng.choice(ms)
        new = Field(src.name, TypeRef('Int64', nullable=True) if d.kind.startswith('struct') else rng.choice((None, TypeRef('String'))))
        ms.insert(rng.randint(0, len(ms)), new)


def _ancestors(model, nsn, d):
    out = []
    p = sg.parent_of(model, nsn, d)
    seen = 0
    while p is not None and p[1] is not None and seen < 30:
        out.append(p)
        p = sg.parent_of(model, p[0], p[1])
        seen += 1
    return out


@rule('A25', 'a field / tag name used by an ancestor (at any level, in any namespace, possibly added by a patch) cannot be reused')
class _A25:
    def sites(model):
        out = []
        for ni, di in _structs(model, kinds=('struct', 'union')):
            ns = model.namespaces[ni]
            d = ns.defs[di]
            for k, (pns, pd) in enumerate(_ancestors(model, ns.name, d)):
                if sg.own_fields(model, pns, pd):
                    out.append((ni, di, k, 'own'))
                    out.append((ni, di, k, 'patch'))
        return out

    def ctx(model, s):
        ns = model.namespaces[s[0]]
        pns, _pd = _ancestors(model, ns.name, ns.defs[s[1]])[s[2]]
        return [s[3], 'depth%d' % min(s[2] + 1, 3), ns.defs[s[1]].kind] + (['foreign_parent'] if pns != ns.name else [])

    def apply(model, s, rng):
        ns = model.namespaces[s[0]]
        d = ns.defs[s[1]]
        pns, pd = _ancestors(model, ns.name, d)[s[2]]
        name = rng.choice(sg.own_fields(model, pns, pd)).name
        new = Field(name, TypeRef('Int64', nullable=True) if d.kind == 'struct' else None)
        if s[3] == 'patch' and sg.find_patch(model, ns.name, d.name) is None:
            p = StructPatch(d.name, [new]) if d.kind == 'struct' else UnionPatch(d.name, d.closed, [new])
            add_def(ns, p, rng)
        else:
            members(d).append(new)


@rule('A26', 'inheritance cycle (a type extends itself or one of its descendants)')
class _A26:
    def sites(model):
        out = []
        for ni, di in _structs(model, kinds=('struct', 'union')):
            ns = model.namespaces[ni]
            d = ns.defs[di]
            if d.kind == 'struct' and d.subtypes is not None:
                continue
            out.append((ni, di, -1))
            for k, (pns, pd) in enumerate(_ancestors(model, ns.name, d)):
                if pns == ns.name and pd.parent is None and not (pd.kind == 'struct' and pd.subtypes is not None):
                    out.append((ni, di, k))
        return out

    def apply(model, s, rng):
        ns = model.namespaces[s[0]]
        d = ns.defs[s[1]]
        if s[2] == -1:
            if d.parent is None:
                d.parent = TypeRef(d.name)          # extends itself
            else:
                d.parent = TypeRef(d.name)
        else:
            _pns, root = _ancestors(model, ns.name, d)[s[2]]
            root.parent = TypeRef(d.name)           # the root now extends its descendant


_A27 = [('Int32', 'a'), ('Int32', 1.5), ('Int32', 2147483648), ('UInt32', -1), ('UInt64', 'x'), ('String', 1), ('String', True),
        ('Boolean', 1), ('Boolean', 'true'), ('Float64', 'x'), ('Float32', 1e39), ('Bytes', 1), ('Int64', 'zero')]


@rule('A27', 'a default must be valid for the field type: wrong literal kind, out of bounds, pattern, unknown / non-void tag, a literal for a union')
class _A27r:
    def sites(model):
        fs = [s for s in plain_slots(model, ('field',)) if not s[4] and
              model.namespaces[s[0]].defs[s[1]].kind in ('struct', 'struct_patch')]
        return [s + (k,) for s in fs for k in ('lit', 'bounds', 'tag', 'nonvoid', 'nottag')]

    def apply(model, s, rng):
        ns = model.namespaces[s[0]]
        fl = members(ns.defs[s[1]])[s[3]]
        how = s[5]
        if how == 'lit':
            t, v = rng.choice(_A27 + [('Int64', 'ZQHUGEINT'), ('UInt64', 'ZQHUGEINT')])
            fl.type, fl.default = TypeRef(t), v
            if v == 'ZQHUGEINT':
                return [('"ZQHUGEINT"', HUGE_INT)]
        elif how == 'bounds':
            fl.type, fl.default = rng.choice((
                (TypeRef('Int32', kwargs={'max_value': 5}), 6), (TypeRef('UInt64', kwargs={'min_value': 10}), 9),
                (TypeRef('String', kwargs={'max_length': 2}), 'abc'), (TypeRef('String', kwargs={'min_length': 2}), 'a'),
                (TypeRef('String', kwargs={'pattern': '[a-z]+'}), '123'), (TypeRef('Float64', kwargs={'max_value': 1.5}), 2.5),
                (TypeRef('Timestamp', args=['%Y-%m-%d']), 'not a date')))
        else:
            u = fresh(model, ns, 'ZqTagUnion')
            add_def(ns, mk_union(u, [Field('zq_void_tag'), Field('zq_int_tag', TypeRef('Int32'))]), rng)
            fl.type = TypeRef(u)
            fl.default = TagRef('zq_missing_tag' if how == 'tag' else 'zq_int_tag')
            if how == 'nottag':
                fl.default = rng.choice((1, 'zq_void_tag', True, 1.5))          # a literal where a tag is required


@rule('A27.container', 'a default on a type that cannot have one (List / Map / struct)')
class _A27c:
    def sites(model):
        return [s for s in plain_slots(model, ('field',)) if not s[4] and
                model.namespaces[s[0]].defs[s[1]].kind in ('struct', 'struct_patch')]

    def apply(model, s, rng):
        ns = model.namespaces[s[0]]
        fl = members(ns.defs[s[1]])[s[3]]
        k = rng.choice(('list', 'map', 'struct'))
        if k == 'struct':
            n = fresh(model, ns, 'ZqPlainS')
            add_def(ns, mk_struct(n), rng)
            fl.type = TypeRef(n)
        else:
            fl.type = TypeRef('List', args=[TypeRef('Int32')]) if k == 'list' else TypeRef('Map', args=[TypeRef('String'), TypeRef('Int32')])
        fl.default = rng.choice((1, 'x', True))


@rule('A28', 'a union can only extend a union: not an alias, not a struct, not a primitive')
class _A28:
    def sites(model):
        return [(ni, di, how) for ni, di in _structs(model, kinds=('union',)) for how in ('alias', 'struct', 'prim')]

    def apply(model, s, rng):
        ns = model.namespaces[s[0]]
        d = ns.defs[s[1]]
        if s[2] == 'alias':
            tgt = fresh(model, ns, 'ZqBaseU')
            add_def(ns, mk_union(tgt, [Field('zq_base_t')], closed=d.closed), rng)
            a = fresh(model, ns, 'ZqAliasOfUnion')
            add_def(ns, Alias(a, TypeRef(tgt)), rng)
            d.parent = TypeRef(a)
        elif s[2] == 'struct':
            n = fresh(model, ns, 'ZqSomeStruct')
            add_def(ns, mk_struct(n), rng)
            d.parent = TypeRef(n)
        else:
            d.parent = TypeRef(rng.choice(('String', 'Int32', 'Void')))


@rule('A29', 'a union member cannot be given the Void type explicitly (omit the type instead)')
class _A29:
    def sites(model):
        return [(ni, di) for ni, di in _structs(model, kinds=('union', 'union_patch'))]

    def apply(model, s, rng):
        d = model.namespaces[s[0]].defs[s[1]]
        if d.tags and rng.random() < 0.5:
            rng.choice(d.tags).type = TypeRef('Void')
        else:
            d.tags.insert(rng.randint(0, len(d.tags)), Field('zq_explicit_void', TypeRef('Void')))


@rule('A30', 'a tag cannot be named `other` (reserved for the catch-all of open unions)')
class _A30:
    def sites(model):
        return [(ni, di) for ni, di in _structs(model, kinds=('union', 'union_patch'))]

    def apply(model, s, rng):
        d = model.namespaces[s[0]].defs[s[1]]
        d.tags.insert(rng.randint(0, len(d.tags)), Field('other', rng.choice((None, TypeRef('String')))))


@rule('A31', 'a closed union cannot extend an open union')
class _A31:
    def sites(model):
        out = []
        for ni, di in _structs(model, kinds=('union',)):
            ns = model.namespaces[ni]
            d = ns.defs[di]
            p = sg.parent_of(model, ns.name, d)
            if p is not None and p[1] is not None and not p[1].closed and not d.closed:
                out.append((ni, di, 'close'))
            if not d.closed:
                out.append((ni, di, 'child'))
        return out

    def apply(model, s, rng):
        ns = model.namespaces[s[0]]
        d = ns.defs[s[1]]
        if s[2] == 'close':
            d.closed = True
            p = sg.find_patch(model, ns.name, d.name)
            if p is not None:
                p.closed = True
        else:
            add_def(ns, mk_union(fresh(model, ns, 'ZqClosedChild'), [Field('zq_child_tag')], closed=True, parent=TypeRef(d.name)), rng)


@rule('A32', 'alias cycle (an alias that refers to itself directly or through other aliases)')
class _A32:
    def sites(model):
        return [(ni, k) for ni, ns in enumerate(model.namespaces) if ns.name != 'stone_cfg' for k in (1, 2, 3)]

    def apply(model, s, rng):
        ns = model.namespaces[s[0]]
        names = []
        for i in range(s[1]):
            n = fresh(model, ns, 'ZqCycAlias%s' % 'ABC'[i])
            names.append(n)
            add_def(ns, Alias(n, TypeRef('String')), rng)
        for i, n in enumerate(names):
            sg.find_def(model, ns.name, n, ('alias',)).type = TypeRef(names[(i + 1) % len(names)])


@rule('A32.container', 'alias cycle through List / Map / nullable (`alias X = List(X)`)')
class _A32c:
    def sites(model):
        return [(ni, k) for ni, ns in enumerate(model.namespaces) if ns.name != 'stone_cfg' for k in ('list', 'map', 'null2')]

    def apply(model, s, rng):
        ns = model.namespaces[s[0]]
        n = fresh(model, ns, 'ZqSelfAlias')
        if s[1] == 'list':
            t = TypeRef('List', args=[TypeRef(n)])
        elif s[1] == 'map':
            t = TypeRef('Map', args=[TypeRef('String'), TypeRef(n)])
        else:
            m = fresh(model, ns, 'ZqSelfAliasB')
            add_def(ns, Alias(m, TypeRef('List', args=[TypeRef(n, nullable=True)])), rng)
            t = TypeRef(m)
        add_def(ns, Alias(n, t), rng)


@rule('A33', '`deprecated by` must name a route and version that exist')
class _A33:
    def sites(model):
        return [(ni, di, k) for ni, di in user_types(model, ('route',)) for k in ('name', 'version')]

    def apply(model, s, rng):
        ns = model.namespaces[s[0]]
        r = ns.defs[s[1]]
        if s[2] == 'name':
            r.deprecated = ('zq_no_such_route', rng.choice((1, 2)))
        else:
            others = [d for d in ns.defs if d.kind == 'route' and '/' not in d.name]
            o = rng.choice(others) if others else r
            if '/' in o.name:
                r.deprecated = ('zq_no_such_route', 1)
            else:
                vs = {d.version for d in ns.defs if d.kind == 'route' and d.name == o.name}
                r.deprecated = (o.name, max(vs) + rng.choice((1, 5)))


@rule('A35', 'a route names three data types (argument, result, error): the error type cannot be left out (lang_ref "Route")')
class _A35:
    def sites(model):
        return user_types(model, ('route',))

    def apply(model, s, rng):
        model.namespaces[s[0]].defs[s[1]].error = TypeRef('ZQNOERRORTYPE')
        return [(', ZQNOERRORTYPE', '')]


@rule('A34', '`deprecated by` something that is not a route')
class _A34:
    def sites(model):
        return [(ni, di) for ni, di in user_types(model, ('route',))
                if any(d.kind in ('struct', 'union', 'alias') for d in model.namespaces[ni].defs)]

    def apply(model, s, rng):
        ns = model.namespaces[s[0]]
        ns.defs[s[1]].deprecated = (rng.choice([d.name for d in ns.defs if d.kind in ('struct', 'union', 'alias')]), 1)


# ================================================================================================ tier B: enumerated subtypes

def _roots(model):
    return _structs(model, lambda ns, d: d.subtypes is not None)


def _mk_tree(model, ns, rng):
    """add a fresh legal tree root + two leaves; -> (root, [leaves])"""
    r = fresh(model, ns, 'ZqTreeRoot')
    root = Struct(r, fields=[Field('zq_root_f', TypeRef('Int32'))], subtypes=([], rng.random() < 0.5))
    add_def(ns, root, rng)
    leaves = []
    for i in range(2):
        n = fresh(model, ns, 'ZqTreeLeaf%d' % i)
        leaf = Struct(n, parent=TypeRef(r), fields=[Field('zq_leaf_f%d' % i, TypeRef('String'))])
        add_def(ns, leaf, rng)
        root.subtypes[0].append(('zq_leaf_tag%d' % i, TypeRef(n)))
        leaves.append(leaf)
    return root, leaves


def _tree_sites(model):
    return [(ni, di) for ni, di in _roots(model)] + [(ni, -1) for ni, ns in enumerate(model.namespaces) if ns.name != 'stone_cfg']


def _tree(model, s, rng):
    ns = model.namespaces[s[0]]
    if s[1] == -1:
        root, _ = _mk_tree(model, ns, rng)
        return ns, root
    return ns, ns.defs[s[1]]


def _tree_rule(id, doc, fn):
    class _R:
        def sites(model):
            return _tree_sites(model)

        def apply(model, s, rng):
            ns, root = _tree(model, s, rng)
            return fn(model, ns, root, rng)
    RULES.append(Rule(id, doc, 'model', _R.sites, _R.apply))


def _b1(model, ns, root, rng):
    root.subtypes[0].append(('zq_tag_undef', TypeRef('ZqNoSuchSubtype')))


def _b2(model, ns, root, rng):
    how = rng.choice(('union', 'alias', 'prim'))
    if how == 'union':
        n = fresh(model, ns, 'ZqNotAStruct')
        add_def(ns, mk_union(n), rng)
    elif how == 'alias':
        leaf = root.subtypes[0][0][1].name if root.subtypes[0] else None
        n = fresh(model, ns, 'ZqAliasSub')
        add_def(ns, Alias(n, TypeRef(leaf) if leaf else TypeRef('String')), rng)
    else:
        n = 'String'
    root.subtypes[0].append(('zq_tag_nostruct', TypeRef(n)))


def _b3(model, ns, root, rng):
    p = fresh(model, ns, 'ZqRootParent')
    add_def(ns, mk_struct(p, [Field('zq_rp_f', TypeRef('Int32'))]), rng)
    root.parent = TypeRef(p)


def _b4(model, ns, root, rng):
    if not root.subtypes[0]:
        _b1(model, ns, root, rng)
        return
    tag, t = rng.choice(root.subtypes[0])
    root.subtypes[0].append((rng.choice((tag, 'zq_tag_again')), sg.clone(t)))


def _b5(model, ns, root, rng):
    n = fresh(model, ns, 'ZqUnrelated')
    add_def(ns, mk_struct(n, [Field('zq_unrel_f', TypeRef('Int32'))]), rng)
    root.subtypes[0].append(('zq_tag_unrelated', TypeRef(n)))


def _b6(model, ns, root, rng):
    fs = sg.own_fields(model, ns.name, root)
    if not fs or not root.subtypes[0]:
        root.fields.append(Field('zq_clash_f', TypeRef('Int32', nullable=True)))
        fs = [root.fields[-1]]
    if not root.subtypes[0]:
        n = fresh(model, ns, 'ZqOnlyLeaf')
        add_def(ns, Struct(n, parent=TypeRef(root.name), fields=[Field('zq_ol_f', TypeRef('Int32'))]), rng)
        root.subtypes[0].append(('x', TypeRef(n)))
    i = rng.randrange(len(root.subtypes[0]))
    root.subtypes[0][i] = (rng.choice(fs).name, root.subtypes[0][i][1])


def _b7(model, ns, root, rng):
    n = fresh(model, ns, 'ZqUnlistedChild')
    add_def(ns, Struct(n, parent=TypeRef(root.name), fields=[Field('zq_uc_f', TypeRef('Int32'))]), rng)


def _b8(model, ns, root, rng):
    leaves = [t for _tag, t in root.subtypes[0] if t.ns is None and
              (sg.find_def(model, ns.name, t.name, ('struct',)) is not None) and
              sg.find_def(model, ns.name, t.name, ('struct',)).subtypes is None]
    if not leaves:
        _b7(model, ns, root, rng)
        return
    n = fresh(model, ns, 'ZqBelowLeaf')
    add_def(ns, Struct(n, parent=TypeRef(rng.choice(leaves).name), fields=[Field('zq_bl_f', TypeRef('Int32'))]), rng)


_tree_rule('B1', 'an enumerated subtype must be a defined type', _b1)
_tree_rule('B2', 'an enumerated subtype must be a struct (not a union, an alias, a primitive)', _b2)
_tree_rule('B3', 'a struct that enumerates subtypes cannot inherit from another struct (lang_ref "Struct Polymorphism")', _b3)
_tree_rule('B4', 'a subtype can be listed only once / a type tag can be used only once', _b4)
_tree_rule('B5', 'a listed subtype must extend the enumerating struct', _b5)
_tree_rule('B6', 'type tags cannot match any field names (lang_ref "Struct Polymorphism")', _b6)
_tree_rule('B7', 'every struct that extends an enumerating struct must be listed', _b7)
_tree_rule('B8', 'a listed leaf subtype cannot itself be extended', _b8)


# ================================================================================================ the same rules through alias chains
#
# Every rule whose violation can be reached through an alias is injected again with the offending type behind a chain of
# two or three aliases (declared in any order, in any file of the namespace) and behind a chain that crosses an import
# (`alias Near = far.Far` in the namespace, `alias Far = <target>` in a namespace it imports): a check that looks
# exactly one alias level down, or only at aliases of the current namespace, passes the one-alias injections above.

VIAS = ('chain2', 'chain3', 'xns')


def _far_ns(model, ns, rng):
    """a fresh namespace (imports nothing) that `ns` imports; appended, so that site handles (index paths) stay valid --
    the shuffled layouts put its file before or after the files of `ns`"""
    i = 0
    while sg.find_ns(model, 'zq_far%s' % (i or '')) is not None:
        i += 1
    far = Namespace('zq_far%s' % (i or ''), defs=[], files=[])
    model.namespaces.append(far)
    ns.imports.append(far.name)
    return far


def via_alias(model, ns, target, rng, via, far_defs=()):
    """-> TypeRef (to be written in `ns`) of an alias that reaches `target` through 2 / 3 aliases of `ns`, or through
    an alias of `ns` whose target is an alias in another, imported namespace.  `target` may only mention built-in types
    and the definitions in `far_defs`, which are added to the namespace that holds the innermost alias."""
    if via == 'xns':
        far = _far_ns(model, ns, rng)
        for d in far_defs:
            add_def(far, d, rng)
        a1 = fresh(model, far, 'ZqFarAlias')
        add_def(far, Alias(a1, target), rng)
        a2 = fresh(model, ns, 'ZqNearAlias')
        add_def(ns, Alias(a2, TypeRef(a1, ns=far.name)), rng)
        return TypeRef(a2)
    for d in far_defs:
        add_def(ns, d, rng)
    cur = target
    for i in range({'chain2': 2, 'chain3': 3}[via]):
        a = fresh(model, ns, 'ZqVia%s' % 'ABC'[i])
        add_def(ns, Alias(a, cur), rng)
        cur = TypeRef(a)
    return cur


def _top_fields(model):
    return [s for s in plain_slots(model, ('field',)) if not s[4] and
            model.namespaces[s[0]].defs[s[1]].kind in ('struct', 'struct_patch')]


@rule('A12.chain', '`V?` where V is an alias (of an alias ...) of Void: Void cannot be nullable')
class _A12c:
    def sites(model):
        return [s + (v,) for s in plain_slots(model) for v in VIAS]

    def apply(model, s, rng):
        t = via_alias(model, model.namespaces[s[0]], TypeRef('Void'), rng, s[5])
        t.nullable = True
        set_field_slot_clean(model, s[:5], t)


@rule('A15.chain', 'nullable of a nullable reached through a chain of aliases / an alias of an imported namespace')
class _A15c:
    def sites(model):
        return [s + (v,) for s in plain_slots(model) for v in VIAS]

    def apply(model, s, rng):
        t = via_alias(model, model.namespaces[s[0]], TypeRef(rng.choice(('String', 'Int64', 'Bytes')), nullable=True), rng, s[5])
        t.nullable = True
        set_field_slot_clean(model, s[:5], t)


@rule('A20.key.chain', 'Map key type that is an alias (chain) of a non-String type')
class _A20kc:
    def sites(model):
        return [s + (v,) for s in plain_slots(model) for v in VIAS]

    def apply(model, s, rng):
        k = via_alias(model, model.namespaces[s[0]], TypeRef(rng.choice(('Int32', 'Boolean', 'Bytes'))), rng, s[5])
        set_field_slot_clean(model, s[:5], TypeRef('Map', args=[k, TypeRef('String')]))


@rule('A21.chain', 'a struct cannot extend an alias (chain) of a struct')
class _A21c:
    def sites(model):
        return [(ni, di, v) for ni, di in _structs(model, lambda ns, d: d.subtypes is None and _no_subtree(model, ns, d)) for v in VIAS]

    def apply(model, s, rng):
        ns = model.namespaces[s[0]]
        d = ns.defs[s[1]]
        tgt = fresh(model, ns, 'ZqBaseS')
        d.parent = via_alias(model, ns, TypeRef(tgt), rng, s[2], [mk_struct(tgt, [Field('zq_base_f', TypeRef('Int32'))])])


@rule('A22.chain', 'a struct field whose type is an alias chain ending in Void')
class _A22c:
    def sites(model):
        return [s + (v,) for s in _top_fields(model) for v in VIAS]

    def apply(model, s, rng):
        set_field_slot_clean(model, s[:5], via_alias(model, model.namespaces[s[0]], TypeRef('Void'), rng, s[5]))


@rule('A23.chain', 'a default on a field whose type is an alias chain ending in a nullable type')
class _A23c:
    def sites(model):
        return [s + (v,) for s in _top_fields(model) for v in VIAS]

    def apply(model, s, rng):
        base, v = rng.choice((('Int32', 1), ('String', 'x'), ('Boolean', True), ('Float64', 1.5)))
        fl = members(model.namespaces[s[0]].defs[s[1]])[s[3]]
        fl.type = via_alias(model, model.namespaces[s[0]], TypeRef(base, nullable=True), rng, s[5])
        fl.default = v


@rule('A27.chain', 'a default that is invalid for the type at the end of an alias chain: wrong kind, out of bounds, '
      'unknown / non-void tag, a type that cannot have a default')
class _A27ch:
    def sites(model):
        return [s + (v,) for s in _top_fields(model) for v in VIAS]

    def apply(model, s, rng):
        ns = model.namespaces[s[0]]
        fl = members(ns.defs[s[1]])[s[3]]
        how = rng.choice(('lit', 'bounds', 'tag', 'nonvoid', 'container'))
        far_defs = []
        if how == 'lit':
            t, v = rng.choice(_A27)
            tgt = TypeRef(t)
        elif how == 'bounds':
            tgt, v = rng.choice((
                (TypeRef('Int32', kwargs={'max_value': 5}), 6), (TypeRef('UInt64', kwargs={'min_value': 10}), 9),
                (TypeRef('String', kwargs={'max_length': 2}), 'abc'), (TypeRef('String', kwargs={'pattern': '[a-z]+'}), '123'),
                (TypeRef('Float64', kwargs={'max_value': 1.5}), 2.5), (TypeRef('Timestamp', args=['%Y-%m-%d']), 'not a date')))
        elif how == 'container':
            tgt = rng.choice((TypeRef('List', args=[TypeRef('Int32')]), TypeRef('Map', args=[TypeRef('String'), TypeRef('Int32')])))
            v = rng.choice((1, 'x', True))
        else:
            u = fresh(model, ns, 'ZqTagUnion')
            far_defs = [mk_union(u, [Field('zq_void_tag'), Field('zq_int_tag', TypeRef('Int32'))])]
            tgt = TypeRef(u)
            v = TagRef('zq_missing_tag' if how == 'tag' else 'zq_int_tag')
        fl.type = via_alias(model, ns, tgt, rng, s[5], far_defs)
        fl.default = v


@rule('A28.chain', 'a union cannot extend an alias (chain) of a union')
class _A28c:
    def sites(model):
        return [(ni, di, v) for ni, di in _structs(model, kinds=('union',)) for v in VIAS]

    def apply(model, s, rng):
        ns = model.namespaces[s[0]]
        d = ns.defs[s[1]]
        tgt = fresh(model, ns, 'ZqBaseU')
        d.parent = via_alias(model, ns, TypeRef(tgt), rng, s[2], [mk_union(tgt, [Field('zq_base_t')], closed=d.closed)])


def _b2_chain(model, ns, root, rng):
    """an alias chain that ends in a struct which does extend the root is still not a struct"""
    n = fresh(model, ns, 'ZqChainLeaf')
    leaf = Struct(n, parent=TypeRef(root.name), fields=[Field('zq_chain_leaf_f', TypeRef('Int32'))])
    t = via_alias(model, ns, TypeRef(n), rng, rng.choice(('chain2', 'chain3')), [leaf])
    root.subtypes[0].append(('zq_tag_alias_chain', t))


_tree_rule('B2.chain', 'an enumerated subtype given through a chain of aliases of a struct', _b2_chain)


# ================================================================================================ tier B: patches

def _patch_of(d, fields, examples=None):
    if d.kind == 'struct':
        return StructPatch(d.name, fields, examples or [])
    return UnionPatch(d.name, d.closed, fields, examples or [])


def _new_member(d, name='zq_patched'):
    return Field(name, TypeRef('Int64', nullable=True)) if d.kind == 'struct' else Field(name)


@rule('B9', 'a patch must correspond to a type defined elsewhere (lang_ref "Patch")')
class _B9:
    def sites(model):
        return [(ni, k) for ni, ns in enumerate(model.namespaces) if ns.name != 'stone_cfg' for k in ('struct', 'union')]

    def apply(model, s, rng):
        ns = model.namespaces[s[0]]
        n = fresh(model, ns, 'ZqNothingToPatch')
        add_def(ns, StructPatch(n, [Field('zq_p', TypeRef('Int32'))]) if s[1] == 'struct' else UnionPatch(n, False, [Field('zq_p')]), rng)


def _unpatched(model, kinds=('struct', 'union')):
    return [(ni, di) for ni, di in _structs(model, kinds=kinds)
            if sg.find_patch(model, model.namespaces[ni].name, model.namespaces[ni].defs[di].name) is None]


@rule('B11.twice', 'two patches of one type that add the same member (several patches of one type are legal and all '
      'applied; the second definition of the member is a clash: B11 / A24)')
class _B11t:
    def sites(model):
        return _unpatched(model)

    def apply(model, s, rng):
        ns = model.namespaces[s[0]]
        d = ns.defs[s[1]]
        add_def(ns, _patch_of(d, [_new_member(d, 'zq_patch_one'), _new_member(d, 'zq_patch_both')]), rng)
        add_def(ns, _patch_of(d, [_new_member(d, 'zq_patch_both'), _new_member(d, 'zq_patch_two')]), rng)


@rule('B10', 'patch kind must match the patched type: struct / union / union_closed, alias or route cannot be patched')
class _B10:
    def sites(model):
        return [(ni, di) for ni, ns in enumerate(model.namespaces) for di, d in enumerate(ns.defs)
                if ns.name != 'stone_cfg' and d.kind in ('struct', 'union', 'alias') and sg.find_patch(model, ns.name, d.name) is None]

    def apply(model, s, rng):
        ns = model.namespaces[s[0]]
        d = ns.defs[s[1]]
        if d.kind == 'struct':
            p = UnionPatch(d.name, rng.random() < 0.5, [Field('zq_p')])
        elif d.kind == 'union':
            p = rng.choice((StructPatch(d.name, [Field('zq_p', TypeRef('Int32', nullable=True))]),
                            UnionPatch(d.name, not d.closed, [Field('zq_p')])))
        else:
            p = StructPatch(d.name, [Field('zq_p', TypeRef('Int32', nullable=True))])
        add_def(ns, p, rng)


@rule('B11', 'a patch can only add fields, not redefine existing ones (lang_ref "Patch")')
class _B11:
    def sites(model):
        return [(ni, di) for ni, di in _structs(model, kinds=('struct', 'union')) if members(model.namespaces[ni].defs[di])]

    def apply(model, s, rng):
        ns = model.namespaces[s[0]]
        d = ns.defs[s[1]]
        name = rng.choice(members(d)).name
        p = sg.find_patch(model, ns.name, d.name)
        if p is not None:
            members(p).append(_new_member(d, name))
        else:
            add_def(ns, _patch_of(d, [_new_member(d, name)]), rng)


@rule('B12', 'an example in a patch must correspond to an example of the patched type')
class _B12:
    def sites(model):
        return _structs(model, kinds=('struct',))

    def apply(model, s, rng):
        ns = model.namespaces[s[0]]
        d = ns.defs[s[1]]
        ex = Example('zq_no_base_example', None, {'zq_patched': 5})
        p = sg.find_patch(model, ns.name, d.name)
        if p is not None:
            p.fields.append(_new_member(d))
            p.examples.append(ex)
        else:
            add_def(ns, _patch_of(d, [_new_member(d)], [ex]), rng)


# ================================================================================================ tier B: stone_cfg and route attributes

def _ensure_cfg(model, rng):
    cfg = sg.find_ns(model, 'stone_cfg')
    if cfg is None:
        cfg = Namespace('stone_cfg', defs=[Struct('Route', fields=[Field('zq_opt_attr', TypeRef('String', nullable=True))])], files=[[0]])
        model.namespaces.append(cfg)
    return cfg


@rule('B13', 'the stone_cfg namespace cannot define routes')
class _B13:
    def sites(model):
        return [(0,), (1,)]

    def apply(model, s, rng):
        cfg = _ensure_cfg(model, rng)
        add_def(cfg, Route('zq_cfg_route', 1, TypeRef('Void'), TypeRef('Void'), TypeRef('Void')), rng)


@rule('B14', 'the stone_cfg namespace can only define the struct `Route`')
class _B14:
    def sites(model):
        return [(k,) for k in ('struct', 'union')]

    def apply(model, s, rng):
        cfg = _ensure_cfg(model, rng)
        add_def(cfg, mk_struct('ZqCfgExtra') if s[0] == 'struct' else mk_union('ZqCfgExtra'), rng)


def _routes(model):
    return user_types(model, ('route',))


@rule('B15', 'a route attribute must be a field of stone_cfg.Route')
class _B15:
    def sites(model):
        return _routes(model)

    def apply(model, s, rng):
        model.namespaces[s[0]].defs[s[1]].attrs['zq_unknown_attr'] = rng.choice((1, 'x', True))


@rule('B16', 'a route must give every attribute that stone_cfg.Route requires (no default, not nullable)')
class _B16:
    def sites(model):
        return _routes(model)

    def apply(model, s, rng):
        cfg = _ensure_cfg(model, rng)
        r = sg.find_def(model, 'stone_cfg', 'Route', ('struct',))
        r.fields.append(Field('zq_required_attr', TypeRef('Int64')))
        for _ns, d in sg.iter_defs(model, ('route',)):
            d.attrs['zq_required_attr'] = 7
        del model.namespaces[s[0]].defs[s[1]].attrs['zq_required_attr']


@rule('B17', 'a route attribute value must fit the type of the schema field (literal kind, bounds, void tag of the union)')
class _B17:
    def sites(model):
        return [(ni, di, k) for ni, di in _routes(model)
                for k in ('kind', 'bounds', 'tag', 'nonvoid', 'bytes', 'timestamp', 'composite', 'nottag')]

    def apply(model, s, rng):
        cfg = _ensure_cfg(model, rng)
        r = sg.find_def(model, 'stone_cfg', 'Route', ('struct',))
        route = model.namespaces[s[0]].defs[s[1]]
        if s[2] in ('kind', 'bounds', 'bytes', 'timestamp', 'composite'):
            t, v = {
                'kind': lambda: rng.choice(((TypeRef('Int64', nullable=True), 'text'), (TypeRef('String', nullable=True), 5),
                                            (TypeRef('Boolean', nullable=True), 'true'), (TypeRef('Float64', nullable=True), 'x'))),
                'bounds': lambda: rng.choice(((TypeRef('Int32', kwargs={'max_value': 5}, nullable=True), 6),
                                              (TypeRef('String', kwargs={'max_length': 2}, nullable=True), 'abc'))),
                'bytes': lambda: (TypeRef('Bytes', nullable=True), rng.choice((5, 1.5, True))),
                'timestamp': lambda: (TypeRef('Timestamp', args=['%Y-%m-%d'], nullable=True), 'zq-not-a-date'),
                # a value other than null for an attribute of a list / map type: there is no literal of such a type
                'composite': lambda: (rng.choice((TypeRef('List', args=[TypeRef('Int32')], nullable=True),
                                                  TypeRef('Map', args=[TypeRef('String'), TypeRef('Int32')], nullable=True))),
                                      rng.choice((1, 'x', True))),
            }[s[2]]()
            r.fields.append(Field('zq_typed_attr', t))
            route.attrs['zq_typed_attr'] = v
        elif s[2] == 'nottag':
            host = model.namespaces[s[0]]
            if host.name == 'stone_cfg':
                host = next(m for m in model.namespaces if m.name != 'stone_cfg')
            u = fresh(model, host, 'ZqAttrUnion')
            add_def(host, mk_union(u, [Field('zq_void_tag'), Field('zq_int_tag', TypeRef('Int32'))]), rng)
            if host.name not in cfg.imports:
                cfg.imports.append(host.name)
            r.fields.append(Field('zq_tag_attr', TypeRef(u, ns=host.name, nullable=True)))
            route.attrs['zq_tag_attr'] = rng.choice((1, 'zq_void_tag', True))      # a literal where a tag is required
        else:
            host = model.namespaces[s[0]]
            if host.name == 'stone_cfg':
                host = next(m for m in model.namespaces if m.name != 'stone_cfg')
            u = fresh(model, host, 'ZqAttrUnion')
            add_def(host, mk_union(u, [Field('zq_void_tag'), Field('zq_int_tag', TypeRef('Int32'))]), rng)
            if host.name not in cfg.imports:
                cfg.imports.append(host.name)
            r.fields.append(Field('zq_tag_attr', TypeRef(u, ns=host.name, nullable=True)))
            route.attrs['zq_tag_attr'] = TagRef('zq_missing_tag' if s[2] == 'tag' else 'zq_int_tag')


# ================================================================================================ tier B: annotations

def _regular_ns(model):
    return [(ni,) for ni, ns in enumerate(model.namespaces) if ns.name != 'stone_cfg']


def _mk_annot_type(model, ns, rng, params=None):
    n = fresh(model, ns, 'ZqAnnotType')
    add_def(ns, AnnotationType(n, doc='zq', params=params if params is not None else
                               [Field('zq_level', TypeRef('String')), Field('zq_count', TypeRef('Int32'), default=3)]), rng)
    return n


@rule('B18', 'annotation arguments are all positional or all keyword, not a mix (lang_ref "Custom annotations")')
class _B18:
    def sites(model):
        return _regular_ns(model)

    def apply(model, s, rng):
        ns = model.namespaces[s[0]]
        t = _mk_annot_type(model, ns, rng)
        add_def(ns, Annotation(fresh(model, ns, 'ZqMixedArgs'), t, None, ['high'], {'zq_count': 1}), rng)


@rule('B19', 'a built-in annotation type cannot be redefined')
class _B19:
    def sites(model):
        return _regular_ns(model)

    def apply(model, s, rng):
        ns = model.namespaces[s[0]]
        add_def(ns, AnnotationType(rng.choice(sg.BUILTIN_ANNOTATIONS), doc='zq', params=[Field('zq_p', TypeRef('String'))]), rng)


@rule('B20', 'annotation-type parameters: typed, not Void, no default on a nullable, primitive only, not annotated, unique names, valid default')
class _B20:
    def sites(model):
        return [(ni, k) for (ni,) in _regular_ns(model) for k in ('void', 'nulldef', 'nonprim', 'annotated', 'repeat', 'baddef', 'notype')]

    def apply(model, s, rng):
        ns = model.namespaces[s[0]]
        k = s[1]
        if k == 'void':
            ps = [Field('zq_p', TypeRef('Void'))]
        elif k == 'notype':
            ps = [Field('zq_p', TypeRef('String')), Field('zq_untyped')]       # a parameter written like a void union member
        elif k == 'nulldef':
            ps = [Field('zq_p', TypeRef('Int32', nullable=True), default=1)]
        elif k == 'nonprim':
            st = fresh(model, ns, 'ZqParamStruct')
            add_def(ns, mk_struct(st), rng)
            ps = [Field('zq_p', rng.choice((TypeRef(st), TypeRef('List', args=[TypeRef('String')]),
                                            TypeRef('Map', args=[TypeRef('String'), TypeRef('Int32')]))))]
        elif k == 'annotated':
            a = fresh(model, ns, 'ZqDepAnno')
            add_def(ns, Annotation(a, 'Deprecated'), rng)
            ps = [Field('zq_p', TypeRef('String'), annotations=[AnnotationRef(a)])]
        elif k == 'repeat':
            ps = [Field('zq_p', TypeRef('String')), Field('zq_q', TypeRef('Int32')), Field('zq_p', TypeRef('Int32'))]
        else:
            ps = [Field('zq_p', *rng.choice(((TypeRef('Int32'), 'x'), (TypeRef('String'), 5), (TypeRef('Boolean'), 1),
                                             (TypeRef('UInt32'), -1))))]
        _mk_annot_type(model, ns, rng, ps)


@rule('B21', 'a custom annotation must name an annotation type that exists (in an imported namespace)')
class _B21:
    def sites(model):
        return [(ni, k) for (ni,) in _regular_ns(model) for k in ('unknown', 'nottype', 'notimported', 'notns', 'ownprefix')]

    def apply(model, s, rng):
        ns = model.namespaces[s[0]]
        k = s[1]
        n = fresh(model, ns, 'ZqBadAnno')
        if k == 'unknown':
            a = Annotation(n, 'ZqNoSuchAnnotType', None, [], {})
        elif k == 'ownprefix':
            # the namespace's own name as prefix: a namespace cannot import itself (A3), so the prefix names no import
            t = _mk_annot_type(model, ns, rng, [Field('zq_level', TypeRef('String'))])
            a = Annotation(n, t, ns.name, ['high'], {})
        elif k == 'nottype':
            st = fresh(model, ns, 'ZqJustAStruct')
            add_def(ns, mk_struct(st), rng)
            a = Annotation(n, st, None, [], {})
        elif k == 'notimported':
            a = Annotation(n, 'T', 'zq_ns_not_imported', [], {})
        else:
            st = fresh(model, ns, 'ZqNotANamespace')
            add_def(ns, mk_struct(st), rng)
            a = Annotation(n, 'T', st, [], {})
        add_def(ns, a, rng)


@rule('B22', 'annotation arguments must fit the parameters of the (custom or built-in) annotation type: not too many, known names, '
      'valid values, none missing')
class _B22:
    def sites(model):
        return [(ni, k) for (ni,) in _regular_ns(model) for k in ('many', 'unknown', 'invalid', 'invalidkw', 'missing',
                                                                   'builtin_many', 'builtin_unknown', 'builtin_missing')]

    def apply(model, s, rng):
        ns = model.namespaces[s[0]]
        k = s[1]
        if k.startswith('builtin_'):
            t, args, kwargs = {
                'builtin_many': lambda: rng.choice((('Deprecated', ['x'], {}), ('Preview', [1], {}), ('Omitted', ['a', 'b'], {}),
                                                    ('RedactedBlot', ['x', 'y'], {}), ('RedactedHash', ['x', 'y'], {}))),
                'builtin_unknown': lambda: rng.choice((('Deprecated', [], {'zq_nope': 1}), ('Omitted', [], {'zq_nope': 'x'}),
                                                       ('RedactedBlot', [], {'zq_nope': 'x'}), ('Preview', [], {'omitted_caller': 'x'}))),
                'builtin_missing': lambda: ('Omitted', [], {}),
            }[k]()
            add_def(ns, Annotation(fresh(model, ns, 'ZqBadArgs'), t, None, args, kwargs), rng)
            return
        t = _mk_annot_type(model, ns, rng, [Field('zq_level', TypeRef('String'))])
        n = fresh(model, ns, 'ZqBadArgs')
        args, kwargs = {'many': (['a', 'b'], {}), 'unknown': ([], {'zq_nope': 1}), 'invalid': ([5], {}),
                        'invalidkw': ([], {'zq_level': 5}), 'missing': ([], {})}[k]
        add_def(ns, Annotation(n, t, None, args, kwargs), rng)


def _field_sites(model, kinds=('struct', 'union', 'struct_patch', 'union_patch')):
    return [(ni, di, fi) for ni, di in _structs(model, kinds=kinds)
            for fi in range(len(members(model.namespaces[ni].defs[di])))]


@rule('B23', '`@X` / `@ns.X` must name an annotation that exists: not an undefined name, not a namespace that is not imported, '
      'not a prefix that is no namespace, not a struct / alias / annotation type')
class _B23:
    def sites(model):
        hosts = _field_sites(model) + [(ni, di, -1) for ni, di in user_types(model, ('alias',))
                                       if model.namespaces[ni].name != 'stone_cfg']
        return [h + (k,) for h in hosts for k in ('unknown', 'notimported', 'notns', 'kind', 'far_unknown')]

    def ctx(model, s):
        d = model.namespaces[s[0]].defs[s[1]]
        return [s[3], 'alias' if s[2] == -1 else d.kind]

    def apply(model, s, rng):
        ns = model.namespaces[s[0]]
        d = ns.defs[s[1]]
        tgt = d if s[2] == -1 else members(d)[s[2]]
        k = s[3]
        if k == 'unknown':
            ref = AnnotationRef('ZqNoSuchAnnotation')
        elif k == 'notimported':
            others = [m.name for m in model.namespaces if m.name != ns.name and m.name not in ns.imports]
            ref = AnnotationRef('ZqX', ns=rng.choice(others + ['zq_ns_not_imported', ns.name]))
        elif k == 'notns':
            st = fresh(model, ns, 'ZqNotANamespace')
            add_def(ns, rng.choice((mk_struct(st), Alias(st, TypeRef('String')), Annotation(st, 'Deprecated'))), rng)
            ref = AnnotationRef('ZqX', ns=st)
        elif k == 'kind':
            n = fresh(model, ns, 'ZqNotAnAnnotation')
            add_def(ns, rng.choice((mk_struct(n), mk_union(n), Alias(n, TypeRef('String')),
                                    AnnotationType(n, doc='zq', params=[]))), rng)
            ref = AnnotationRef(n)
        else:
            imported = [m for m in ns.imports if sg.find_ns(model, m) is not None and m != 'stone_cfg']
            far = sg.find_ns(model, rng.choice(imported)) if imported and rng.random() < 0.5 else _far_ns(model, ns, rng)
            if not far.defs:
                add_def(far, Alias(fresh(model, far, 'ZqFarFiller'), TypeRef('String')), rng)
            ref = AnnotationRef('ZqNoSuchAnnotation', ns=far.name)
        tgt.annotations.insert(rng.randint(0, len(tgt.annotations)), ref)


@rule('B24', 'conflicting annotations on one field: two Omitted, two Deprecated / Preview, Deprecated with Preview, two redactors')
class _B24:
    def sites(model):
        return [s + (k,) for s in _field_sites(model) for k in ('omitted', 'deprecated', 'preview', 'dep_prev', 'redactors')]

    def apply(model, s, rng):
        ns = model.namespaces[s[0]]
        fl = members(ns.defs[s[1]])[s[2]]
        pair = {'omitted': (('Omitted', ['zq_a']), ('Omitted', ['zq_b'])), 'deprecated': (('Deprecated', []), ('Deprecated', [])),
                'preview': (('Preview', []), ('Preview', [])), 'dep_prev': (('Deprecated', []), ('Preview', [])),
                'redactors': (('RedactedBlot', []), ('RedactedHash', []))}[s[3]]
        if rng.random() < 0.5:
            pair = pair[::-1]
        fl.annotations = []
        for i, (t, args) in enumerate(pair):
            n = fresh(model, ns, 'ZqConf%s%d' % (t, i))
            add_def(ns, Annotation(n, t, None, list(args), {}), rng)
            fl.annotations.append(AnnotationRef(n))
        if s[3] == 'redactors':
            fl.type = TypeRef('String')
            fl.default = None


@rule('B24.alias', 'two redactors on one alias (the same one twice, or two different ones)')
class _B24a:
    def sites(model):
        return [(ni, k) for (ni,) in _regular_ns(model) for k in ('two', 'same')]

    def apply(model, s, rng):
        ns = model.namespaces[s[0]]
        al = Alias(fresh(model, ns, 'ZqTwiceRedacted'), TypeRef(rng.choice(('String', 'Int64', 'Bytes'))))
        add_def(ns, al, rng)
        kinds = rng.sample(('RedactedBlot', 'RedactedHash'), 2) if s[1] == 'two' else [rng.choice(('RedactedBlot', 'RedactedHash'))]
        names = []
        for i, t in enumerate(kinds):
            n = fresh(model, ns, 'ZqAliasRedactor%d' % i)
            add_def(ns, Annotation(n, t, None, [], {}), rng)
            names.append(n)
        al.annotations = [AnnotationRef(names[0]), AnnotationRef(names[-1])]


@rule('B25', 'an alias supports only redactors and custom annotations (not Deprecated / Preview / Omitted)')
class _B25:
    def sites(model):
        return [(ni, di) for ni, di in user_types(model, ('alias',)) if model.namespaces[ni].name != 'stone_cfg'] + \
               [(ni, -1) for (ni,) in _regular_ns(model)]

    def apply(model, s, rng):
        ns = model.namespaces[s[0]]
        if s[1] == -1:
            al = Alias(fresh(model, ns, 'ZqAnnotatedAlias'), TypeRef('String'))
            add_def(ns, al, rng)
        else:
            al = ns.defs[s[1]]
        t, args = rng.choice((('Deprecated', []), ('Preview', []), ('Omitted', ['zq_caller'])))
        n = fresh(model, ns, 'ZqAliasAnno')
        add_def(ns, Annotation(n, t, None, args, {}), rng)
        al.annotations.append(AnnotationRef(n))


@rule('B26', 'a redactor cannot sit on a field whose type is an alias, on a type already redacted by an alias in the chain, '
      'or on a user-defined / Void type')
class _B26:
    def sites(model):
        return [s + (k,) for s in _field_sites(model, ('struct',)) for k in ('aliasref', 'user', 'listuser', 'aliaschain')]

    def apply(model, s, rng):
        ns = model.namespaces[s[0]]
        fl = members(ns.defs[s[1]])[s[2]]
        red = fresh(model, ns, 'ZqRedactor')
        add_def(ns, Annotation(red, rng.choice(('RedactedBlot', 'RedactedHash')), None, [], {}), rng)
        fl.default = None
        k = s[3]
        if k == 'aliasref':
            a = fresh(model, ns, 'ZqPlainAlias')
            add_def(ns, Alias(a, TypeRef('String')), rng)
            fl.type = TypeRef(a)
            fl.annotations = [AnnotationRef(red)]
        elif k in ('user', 'listuser'):
            st = fresh(model, ns, 'ZqRedactedStruct')
            add_def(ns, mk_struct(st), rng)
            fl.type = TypeRef(st) if k == 'user' else TypeRef('List', args=[TypeRef(st)])
            fl.annotations = [AnnotationRef(red)]
        else:
            red2 = fresh(model, ns, 'ZqRedactorB')
            add_def(ns, Annotation(red2, 'RedactedHash', None, [], {}), rng)
            a = fresh(model, ns, 'ZqRedAlias')
            add_def(ns, Alias(a, TypeRef('String'), annotations=[AnnotationRef(red)]), rng)
            b = fresh(model, ns, 'ZqRedAliasB')
            add_def(ns, Alias(b, TypeRef(a), annotations=[AnnotationRef(red2)]), rng)
            fl.type = TypeRef('Int32')
            fl.annotations = []


# ================================================================================================ tier C: examples

def _ex_host(model, s, rng, fields, example_fields, union=False):
    """add a fresh struct / union with the given members and one example"""
    ns = model.namespaces[s[0]]
    n = fresh(model, ns, 'ZqExHost')
    d = mk_union(n, fields) if union else mk_struct(n, fields)
    d.examples = [Example('default', None, example_fields)]
    add_def(ns, d, rng)
    return ns, d


def _ex_rule(id, doc, variants, fn):
    class _R:
        def sites(model):
            return [(ni, k) for (ni,) in _regular_ns(model) for k in variants]

        def apply(model, s, rng):
            return fn(model, s, rng)
    RULES.append(Rule(id, doc, 'model', _R.sites, _R.apply))


def _c1(model, s, rng):
    _ex_host(model, s, rng, [Field('a', TypeRef('Int32'))], {'a': 1, 'zq_unknown_field': 2})


def _c2(model, s, rng):
    _ex_host(model, s, rng, [Field('a', TypeRef('Int32')), Field('b', TypeRef('String'))], {'a': 1})


_C3 = {
    'kind': lambda r: r.choice(((TypeRef('Int32'), 'x'), (TypeRef('String'), 1), (TypeRef('Boolean'), 1), (TypeRef('Float64'), 'x'),
                                (TypeRef('Bytes'), 1), (TypeRef('Int64'), 1.5), (TypeRef('String'), None))),
    'bounds': lambda r: r.choice(((TypeRef('Int32'), 2 ** 31), (TypeRef('UInt32'), -1), (TypeRef('Int32', kwargs={'max_value': 5}), 6),
                                  (TypeRef('String', kwargs={'max_length': 2}), 'abc'), (TypeRef('String', kwargs={'pattern': '[a-z]+'}), '123'),
                                  (TypeRef('Timestamp', args=['%Y']), 'notayear'), (TypeRef('Float32'), 1e39))),
    'list': lambda r: r.choice(((TypeRef('List', args=[TypeRef('Int32')]), 5), (TypeRef('List', args=[TypeRef('Int32')]), [1, 'x']),
                                (TypeRef('List', args=[TypeRef('Int32')], kwargs={'max_items': 1}), [1, 2]),
                                (TypeRef('List', args=[TypeRef('String')], kwargs={'min_items': 2}), ['a']))),
    'map': lambda r: r.choice(((TypeRef('Map', args=[TypeRef('String'), TypeRef('Int32')]), {'k': 'v'}),
                               (TypeRef('Map', args=[TypeRef('String'), TypeRef('Int32')]), {1: 2}))),
    'nullable': lambda r: r.choice(((TypeRef('Int32', nullable=True), 'x'), (TypeRef('String', nullable=True), 5))),
    # a map KEY that is a string but breaks a constraint of the key type; first / later pair, inner map, map below `?`
    'mapkey': lambda r: r.choice((
        (TypeRef('Map', args=[TypeRef('String', kwargs={'max_length': 2}), TypeRef('Int32')]), {'abc': 1}),
        (TypeRef('Map', args=[TypeRef('String', kwargs={'min_length': 2}), TypeRef('Int32')]), {'ab': 1, 'a': 2}),
        (TypeRef('Map', args=[TypeRef('String', kwargs={'pattern': '[a-z]+'}), TypeRef('String')]), {'123': 'v'}),
        (TypeRef('Map', args=[TypeRef('String', kwargs={'pattern': '[a-z]+', 'max_length': 8}), TypeRef('List', args=[TypeRef('Int32')])]),
         {'etag': [1], 'ETag': [2]}),
        (TypeRef('Map', args=[TypeRef('String'), TypeRef('Map', args=[TypeRef('String', kwargs={'max_length': 1}), TypeRef('Int32')])]),
         {'k': {'a': 1}, 'j': {'ab': 1}}),
        (TypeRef('Map', args=[TypeRef('String', kwargs={'min_length': 1}), TypeRef('Int32')], nullable=True), {'': 1}))),
    'nested': lambda r: r.choice((
        (TypeRef('List', args=[TypeRef('List', args=[TypeRef('Int32', kwargs={'max_value': 5})])]), [[1], [2, 6]]),
        (TypeRef('Map', args=[TypeRef('String'), TypeRef('List', args=[TypeRef('String', kwargs={'max_length': 2})])]), {'k': ['ab', 'abc']}),
        (TypeRef('Map', args=[TypeRef('String'), TypeRef('Map', args=[TypeRef('String'), TypeRef('Boolean')])]), {'k': {'j': 1}}),
        (TypeRef('List', args=[TypeRef('Int32', nullable=True)]), [None, 'x']),
        (TypeRef('Map', args=[TypeRef('String'), TypeRef('List', args=[TypeRef('Int32')], kwargs={'max_items': 1})]), {'k': [1, 2]}))),
}


HUGE_INT = '9' * 4400          # more digits than CPython converts (sys.int_info.default_max_str_digits = 4300)


def _c3(model, s, rng):
    if s[1] == 'usertype':
        # a literal where the member's type is a struct / a union: only a reference to one of its examples fits
        ns = model.namespaces[s[0]]
        inner = fresh(model, ns, 'ZqExInner')
        if rng.random() < 0.5:
            d = mk_struct(inner, [Field('x', TypeRef('Int32'))])
            d.examples = [Example('default', None, {'x': 1})]
        else:
            d = mk_union(inner, [Field('x'), Field('y', TypeRef('Int32'))])
            d.examples = [Example('default', None, {'x': None})]
        add_def(ns, d, rng)
        t = rng.choice((TypeRef(inner), TypeRef(inner, nullable=True), TypeRef('List', args=[TypeRef(inner)])))
        v = rng.choice((1, 'default', True, 1.5))
        _ex_host(model, s, rng, [Field('a', t)], {'a': [v] if t.name == 'List' else v})
        return None
    if s[1] == 'hugeint':
        t = rng.choice((TypeRef('Int64'), TypeRef('UInt64'), TypeRef('Int32', nullable=True), TypeRef('List', args=[TypeRef('UInt32')])))
        _ex_host(model, s, rng, [Field('a', t)], {'a': ['ZQHUGEINT'] if t.name == 'List' else 'ZQHUGEINT'})
        return [('"ZQHUGEINT"', rng.choice(('', '-')) + HUGE_INT)]
    t, v = _C3[s[1]](rng)
    _ex_host(model, s, rng, [Field('a', t)], {'a': v})


def _c4(model, s, rng):
    tags = [Field('t1'), Field('t2', TypeRef('Int32'))]
    if s[1] == 'voidvalue':
        _ex_host(model, s, rng, tags, {'t1': rng.choice((1, 'x', True, 0))}, union=True)     # a void member takes no value but null
        return
    _ex_host(model, s, rng, tags, {'t1': None, 't2': 3} if s[1] == 'two' else {'t2': 'x'}, union=True)


def _c5(model, s, rng):
    _ex_host(model, s, rng, [Field('t1'), Field('t2', TypeRef('Int32'))], {'zq_unknown_tag': None}, union=True)


def _c6(model, s, rng):
    ns = model.namespaces[s[0]]
    root, leaves = _mk_tree(model, ns, rng)
    leaves[0].examples = [Example('default', None, {'zq_root_f': 1, 'zq_leaf_f0': 'x'})]
    leaves[1].examples = [Example('default', None, {'zq_root_f': 1, 'zq_leaf_f1': 'x'})]
    if s[1] == 'fields':
        root.examples = [Example('default', None, {'zq_root_f': 1})]
    elif s[1] == 'two':
        root.examples = [Example('default', None, {'zq_leaf_tag0': ExampleRef('default'), 'zq_leaf_tag1': ExampleRef('default')})]
    elif s[1] == 'nolabel':
        root.examples = [Example('default', None, {'zq_leaf_tag0': ExampleRef('zq_no_such_label')})]
    else:
        root.examples = [Example('default', None, {'zq_no_such_tag': ExampleRef('default')})]


def _c7(model, s, rng):
    ns = model.namespaces[s[0]]
    if s[1] in ('cycle1', 'cycle2'):
        # examples that refer to each other in a cycle have no value
        a = fresh(model, ns, 'ZqExCycA')
        da = mk_struct(a, [Field('n', TypeRef('Int32'))])
        add_def(ns, da, rng)
        if s[1] == 'cycle1':
            da.fields.append(Field('again', TypeRef(a, nullable=True)))
            da.examples = [Example('default', None, {'n': 1, 'again': ExampleRef('default')})]
        else:
            b = fresh(model, ns, 'ZqExCycB')
            db = mk_struct(b, [Field('back', TypeRef(a, nullable=True))])
            add_def(ns, db, rng)
            as_list = rng.random() < 0.5
            da.fields.append(Field('forth', TypeRef('List', args=[TypeRef(b)]) if as_list else TypeRef(b)))
            da.examples = [Example('default', None, {'n': 1, 'forth': [ExampleRef('default')] if as_list else ExampleRef('default')})]
            db.examples = [Example('default', None, {'back': ExampleRef('default')})]
        return
    inner = fresh(model, ns, 'ZqExInner')
    d = mk_struct(inner, [Field('x', TypeRef('Int32'))])
    d.examples = [Example('default', None, {'x': 1})]
    add_def(ns, d, rng)
    if s[1] == 'union':
        # the member of a UNION refers to an example its (struct) type does not have
        _ex_host(model, s, rng, [Field('t1'), Field('t2', TypeRef(inner, nullable=rng.random() < 0.3))],
                 {'t2': ExampleRef('zq_no_such_label')}, union=True)
        return
    t = TypeRef(inner) if s[1] == 'direct' else TypeRef('List', args=[TypeRef(inner)])
    v = ExampleRef('zq_no_such_label') if s[1] == 'direct' else [ExampleRef('zq_no_such_label')]
    _ex_host(model, s, rng, [Field('a', t)], {'a': v})


# ---- C3 at the sites of the model: one part of an example the generator wrote replaced by a value that does not fit ----

_INT_BOUNDS = sg.INT_BOUNDS
_NOMATCH = ('', ' ', '!', '0', 'A', 'a', '~~~', '@', 'zzzzzzzzzzzzzzzz')


def _misfits(t):
    """ways in which a value can fail to fit the primitive TypeRef t: [(aspect, value)]; every value is CERTAINLY
    illegal for t (and stays so whatever else the type says)"""
    n, kw = t.name, t.kwargs
    out = []
    if n in _INT_BOUNDS:
        lo, hi = _INT_BOUNDS[n]
        out.append(('kind', 'zq'))
        out.append(('max', (kw['max_value'] if kw.get('max_value') is not None else hi) + 1))
        out.append(('min', (kw['min_value'] if kw.get('min_value') is not None else lo) - 1))
    elif n in ('Float32', 'Float64'):
        out.append(('kind', 'zq'))
        hi = kw.get('max_value') if kw.get('max_value') is not None else (sg.F32_MAX if n == 'Float32' else None)
        lo = kw.get('min_value') if kw.get('min_value') is not None else (-sg.F32_MAX if n == 'Float32' else None)
        if hi is not None:
            out.append(('max', float(hi) + max(1.0, abs(float(hi)))))
        if lo is not None:
            out.append(('min', float(lo) - max(1.0, abs(float(lo)))))
    elif n == 'Boolean':
        out.append(('kind', 'zq'))
    elif n == 'Bytes':
        out.append(('kind', 7))
    elif n == 'String':
        out.append(('kind', 7))
        if kw.get('max_length') is not None:
            out.append(('max_length', 'z' * (kw['max_length'] + 1)))
        if kw.get('min_length'):
            out.append(('min_length', 'z' * (kw['min_length'] - 1)))
        if kw.get('pattern'):
            for c in _NOMATCH:
                if re.match(kw['pattern'], c) is None:         # not even a prefix matches
                    out.append(('pattern', c))
                    break
    elif n == 'Timestamp':
        out.append(('format', 'zq-not-a-time'))
    return out


def _ex_sites_of_value(model, nsn, t, v, path, flags, out):
    """collect (path, position, aspect, flags) below the example value v of (written) type t seen from namespace nsn;
    path = steps ('i', n) list item, ('k', n) key of the n-th pair, ('v', n) value of the n-th pair"""
    if t is None or v is None or isinstance(v, (ExampleRef, TagRef)):
        return
    nsn2, t2, _nul = _alias_chain_target(model, nsn, t)
    if t2 is not t:
        flags = flags | {'alias'}
    if not _is_builtin(t2) or t2.name == 'Void':
        return
    pos = {'i': 'item', 'k': 'key', 'v': 'value'}[path[-1][0]] if path else 'field'
    if t2.name == 'List':
        if isinstance(v, list) and t2.args and isinstance(t2.args[0], TypeRef):
            out.append((path, 'container', 'kind:list', flags))
            if t2.kwargs.get('max_items') is not None and v:
                out.append((path, 'container', 'max_items', flags))
            if t2.kwargs.get('min_items'):
                out.append((path, 'container', 'min_items', flags))
            for i, x in enumerate(v):
                _ex_sites_of_value(model, nsn2, t2.args[0], x, path + (('i', i),), flags, out)
        return
    if t2.name == 'Map':
        if isinstance(v, dict) and len(t2.args) == 2 and all(isinstance(a, TypeRef) for a in t2.args):
            out.append((path, 'container', 'kind:map', flags))
            for i, (k, x) in enumerate(v.items()):
                if _is_builtin(t2.args[0]) and isinstance(k, str):
                    for aspect, _bad in _misfits(t2.args[0]):
                        out.append((path + (('k', i),), 'key', aspect, flags))
                _ex_sites_of_value(model, nsn2, t2.args[1], x, path + (('v', i),), flags, out)
        return
    if isinstance(v, (list, dict)):
        return
    for aspect, _bad in _misfits(t2):
        out.append((path, pos, aspect, flags))


def _ex_leaf_type(model, nsn, t, v, path):
    """the (resolved) TypeRef at the end of `path`, and the value there"""
    nsn, t, _nul = _alias_chain_target(model, nsn, t)
    if not path:
        return t, v
    (step, i), rest = path[0], path[1:]
    if step == 'i':
        return _ex_leaf_type(model, nsn, t.args[0], v[i], rest)
    k, x = list(v.items())[i]
    if step == 'k':
        return t.args[0], k
    return _ex_leaf_type(model, nsn, t.args[1], x, rest)


def _ex_replace(v, path, fn):
    """v with the part at `path` replaced by fn(part)"""
    if not path:
        return fn(v)
    (step, i), rest = path[0], path[1:]
    if step == 'i':
        return [(_ex_replace(x, rest, fn) if j == i else x) for j, x in enumerate(v)]
    out = {}
    for j, (k, x) in enumerate(v.items()):
        if j != i:
            out[k] = x
        elif step == 'k':
            out[fn(k)] = x
        else:
            out[k] = _ex_replace(x, rest, fn)
    return out


def _ex_owner(model, ns, d):
    """the type whose members an example written in definition d talks about"""
    if d.kind in ('struct_patch', 'union_patch'):
        return sg.find_def(model, ns.name, d.name, ('struct', 'union'))
    return d if d.kind in ('struct', 'union') else None


def _example_sites(model, position):
    out = []
    for ni, ns in enumerate(model.namespaces):
        if ns.name == 'stone_cfg':
            continue
        for di, d in enumerate(ns.defs):
            exs = getattr(d, 'examples', None)
            d0 = _ex_owner(model, ns, d) if exs else None
            if d0 is None or (d0.kind == 'struct' and d0.subtypes):
                continue
            decl = {}
            for owner_ns, owner, fl in sg.all_fields_decl(model, ns.name, d0):
                decl.setdefault(fl.name, (owner_ns, owner, fl))
            for ei, ex in enumerate(exs):
                for fname, v in ex.fields.items():
                    if fname not in decl:
                        continue
                    owner_ns, owner, fl = decl[fname]
                    flags = frozenset((['inherited'] if owner is not d0 else []) + (['patch'] if d is not d0 else []) +
                                      (['tag'] if d0.kind == 'union' else []))
                    found = []
                    _ex_sites_of_value(model, owner_ns, fl.type, v, (), flags, found)
                    for path, pos, aspect, fl2 in found:
                        if pos == position:
                            ctx = '+'.join([aspect] + sorted(fl2) + (['deep'] if len(path) > 1 else []))
                            out.append((ni, di, ei, fname, path, aspect, ctx))
    return out


def _example_apply(model, s, rng):
    ni, di, ei, fname, path, aspect, _ctx = s
    ns = model.namespaces[ni]
    d = ns.defs[di]
    d0 = _ex_owner(model, ns, d)
    owner_ns, _owner, fl = [x for x in sg.all_fields_decl(model, ns.name, d0) if x[2].name == fname][0]
    ex = d.examples[ei]
    t, cur = _ex_leaf_type(model, owner_ns, fl.type, ex.fields[fname], path)
    if aspect.startswith('kind:'):
        new = lambda v: 5                                       # noqa: E731  a number where a list / a map is required
    elif aspect == 'max_items':
        new = lambda v: v + [v[0]] * (t.kwargs['max_items'] + 1 - len(v))   # noqa: E731
    elif aspect == 'min_items':
        new = lambda v: v[:t.kwargs['min_items'] - 1]           # noqa: E731
    else:
        bad = dict(_misfits(t))[aspect]
        if path and path[-1][0] == 'k':
            holder = ex.fields[fname]
            for step, i in path[:-1]:
                holder = holder[i] if step == 'i' else list(holder.values())[i]
            while bad in holder:                                # a key that is already there would merge two pairs
                if aspect == 'max_length':
                    bad = bad + 'z'
                elif aspect == 'kind':
                    bad = bad + 1
                else:
                    raise ValueError('no distinct misfitting key')
        new = lambda v: bad                                     # noqa: E731
    ex.fields[fname] = _ex_replace(ex.fields[fname], path, new)


def _site_rule(position, doc):
    class _R:
        def sites(model):
            return _example_sites(model, position)

        def apply(model, s, rng):
            return _example_apply(model, s, rng)
    RULES.append(Rule('C3.' + position, doc, 'model', _R.sites, _R.apply))


_site_rule('field', 'the value an example gives to a member (own, inherited or patched in; possibly through aliases / `?`) must fit '
           'the member\'s type: kind and every bound')
_site_rule('item', 'every item of a list in an example must fit the item type (lists at any depth)')
_site_rule('key', 'every KEY of a map in an example must fit the key type: a string inside the length bounds that matches the pattern')
_site_rule('value', 'every value of a map in an example must fit the value type (maps at any depth)')
_site_rule('container', 'where a list / map is required an example must give one, with a legal number of items')

_ex_rule('C1', 'an example can only mention fields of the type', ('x',), _c1)
_ex_rule('C2', 'an example must give every required field (lang_ref "Examples")', ('x',), _c2)
_ex_rule('C3', 'an example value must be valid for the field type (kind, bounds, lists, maps and their keys, nullables, nesting)', tuple(_C3) + ('usertype', 'hugeint'), _c3)
_ex_rule('C4', 'a union example selects exactly one tag, with a value of its type (lang_ref "Union" examples)', ('two', 'badvalue', 'voidvalue'), _c4)
_ex_rule('C5', 'a union example can only select a tag of the union', ('x',), _c5)
_ex_rule('C6', 'an example of a struct with enumerated subtypes is a single reference to an existing subtype example by its type tag',
         ('fields', 'two', 'unknown', 'nolabel'), _c6)
_ex_rule('C7', 'a reference to an example label must name an example of the referenced type, and examples cannot refer to each '
         'other in a cycle', ('direct', 'list', 'union', 'cycle1', 'cycle2'), _c7)


# ================================================================================================ tier C: documentation references

# A reference text is a template over names the injector makes sure exist:
#   %(type)s   a struct / union of the namespace (the host itself when the host is one)
#   %(route)s  a route of the namespace (the host itself when the host is a route)        [variant needs a route]
#   %(alias)s  an alias of a primitive type     %(anno)s  an annotation
#   %(far)s    an imported namespace that defines struct ZqFarS (field zq_far_f), alias ZqFarA = Int32, no route zq_nope
#   %(next)d   a version the route does not have
# Every text is CERTAINLY illegal wherever it stands (doc of a struct, a union, one of their members, or a route).
_DOCREFS = {
    'C8': ('a doc reference tag must be one of route / type / field / link / val (lang_ref "References")',
           [('tag', ':zqtag:`x`'), ('plural', ':types:`%(type)s`'), ('values', ':values:`1`')]),
    'C9': (':field: must name an existing field of a struct / tag of a union: `field` (of the type the doc belongs to), '
           '`Type.field`, `namespace.Type.field`',
           [('unknown_type', ':field:`ZqNoType.x`'), ('unknown_field', ':field:`%(type)s.zq_no_field`'), ('bare_unknown', ':field:`zq_no_field`'),
            ('of_route', ':field:`%(route)s.x`'), ('ns_two_parts', ':field:`%(far)s.ZqFarS`'), ('ns_unknown_type', ':field:`%(far)s.ZqNope.x`'),
            ('of_alias', ':field:`%(alias)s.x`'), ('of_annotation', ':field:`%(anno)s.x`'), ('of_far_alias', ':field:`%(far)s.ZqFarA.x`'),
            ('ns_unknown_field', ':field:`%(far)s.ZqFarS.zq_nope`'), ('of_builtin', ':field:`String.x`')]),
    'C10': (':link: needs a title and a URI', [('oneword', ':link:`onlyoneword`'), ('empty', ':link:``'), ('trailing', ':link:`title `')]),
    'C11': (':route: must name a route (and version) that exists, in the namespace or in an imported one',
            [('unknown', ':route:`zq_no_route`'), ('unknown_ns', ':route:`zq_no_ns.r`'), ('unknown_v2', ':route:`zq_no_route:2`'),
             ('a_type', ':route:`%(type)s`'), ('not_ns', ':route:`%(type)s.r`'), ('bad_version', ':route:`%(route)s:x`'),
             ('no_version', ':route:`%(route)s:%(next)d`'), ('far_unknown', ':route:`%(far)s.zq_nope`'), ('an_alias', ':route:`%(alias)s`')]),
    'C12': (':type: must name a struct or union that exists, in the namespace or in an imported one',
            [('unknown', ':type:`ZqNoType`'), ('unknown_ns', ':type:`zq_no_ns.T`'), ('not_ns', ':type:`%(type)s.T`'),
             ('an_alias', ':type:`%(alias)s`'), ('a_route', ':type:`%(route)s`'), ('far_alias', ':type:`%(far)s.ZqFarA`'),
             ('far_unknown', ':type:`%(far)s.ZqNope`'), ('an_annotation', ':type:`%(anno)s`'), ('builtin', ':type:`String`')]),
    'C13': (':val: must be null, true, false, a number or a quoted string',
            [('word', ':val:`zqword`'), ('unterminated', ':val:`"unterminated`'), ('two_dots', ':val:`1.2.3`'), ('empty', ':val:``')]),
}


def _doc_names(model, ns, d, text, rng):
    """the names a reference template mentions; helper definitions are added to the model on demand"""
    names = {}
    if '%(type)s' in text:
        if d.kind in ('struct', 'union'):
            names['type'] = d.name
        else:
            cands = [x.name for x in ns.defs if x.kind in ('struct', 'union')]
            if not cands:
                cands = [fresh(model, ns, 'ZqDocStruct')]
                add_def(ns, mk_struct(cands[0]), rng)
            names['type'] = rng.choice(cands)
    if '%(route)s' in text:
        r = d if d.kind == 'route' else rng.choice([x for x in ns.defs if x.kind == 'route' and '/' not in x.name])
        names['route'] = r.name
        names['next'] = max(x.version for x in ns.defs if x.kind == 'route' and x.name == r.name) + rng.choice((1, 7))
    if '%(alias)s' in text:
        names['alias'] = fresh(model, ns, 'ZqDocAlias')
        add_def(ns, Alias(names['alias'], TypeRef(rng.choice(('String', 'Int32')))), rng)
    if '%(anno)s' in text:
        names['anno'] = fresh(model, ns, 'ZqDocAnno')
        add_def(ns, Annotation(names['anno'], 'Deprecated'), rng)
    if '%(far)s' in text:
        far = _far_ns(model, ns, rng)
        add_def(far, mk_struct('ZqFarS', [Field('zq_far_f', TypeRef('Int32'))]), rng)
        add_def(far, Alias('ZqFarA', TypeRef('Int32')), rng)
        names['far'] = far.name
    return names


def _doc_rule(id, doc, variants):
    texts = dict(variants)

    class _R:
        def sites(model):
            out = []
            for ni, ns in enumerate(model.namespaces):
                if ns.name == 'stone_cfg':
                    continue
                has_route = any(x.kind == 'route' and '/' not in x.name for x in ns.defs)
                for di, d in enumerate(ns.defs):
                    if d.kind in ('struct', 'union') or (d.kind == 'route' and '/' not in d.name):
                        out += [(ni, di, v) for v, t in variants if has_route or '%(route)s' not in t]
            return out

        def ctx(model, s):
            return [s[2], model.namespaces[s[0]].defs[s[1]].kind]

        def apply(model, s, rng):
            ns = model.namespaces[s[0]]
            d = ns.defs[s[1]]
            ref = texts[s[2]] % _doc_names(model, ns, d, texts[s[2]], rng)
            text = 'See %s for more.' % ref
            ms = members(d)
            if ms and rng.random() < 0.5:
                fl = rng.choice(ms)
                fl.doc = (fl.doc + ' ' if fl.doc else '') + text
            else:
                d.doc = (d.doc + '\n\n' if d.doc else '') + text
    RULES.append(Rule(id, doc, 'model', _R.sites, _R.apply, _R.ctx))


for _id, (_doc, _variants) in _DOCREFS.items():
    _doc_rule(_id, _doc, _variants)


UNBUILT = {
    'B20.doc': 'parameter docs / annotation types across namespaces (`@other_ns.Custom`): generator steers away (crash site S4)',
    'A5.env': 'import visible only through another file of the namespace (a layout context, not a violation)',
    'deep': 'nesting beyond the recursion limit ("The specs nest too deeply"): a limit of the implementation, not a rule of the language',
}


# ================================================================================================ driver

def render_with(model, layout, replacements):
    files = sg.render(model, layout)
    if replacements:
        out = []
        for p, t in files:
            for a, b in replacements:
                t = t.replace(a, b)
            out.append((p, t))
        files = out
    return files


def plain_layout(rng, model):
    """a layout that reorders and splits files but adds no noise and no nested definitions (text-level rules
    need to know what a line is; the violation must stay the only thing wrong)"""
    lay = sg.gen_layout(rng, model, noise=False)
    lay.inline = []
    return lay


def inject(model, r, site, rng, shuffle=False):
    """-> rendered files of a clone of `model` violating rule `r` at `site`.  For text rules `site` comes from
    r.sites(files) of the files rendered by `base_files(model, rng, shuffle)` with the SAME rng state."""
    m = sg.clone(model)
    if r.level == 'model':
        rep = r.apply(m, site, rng)
        return render_with(m, plain_layout(rng, m) if shuffle else None, rep)
    raise ValueError('text rule: use inject_text')


def base_files(model, rng, shuffle=False):
    return [tuple(f) for f in sg.render(model, plain_layout(rng, model) if shuffle else None)]


def inject_text(files, r, site, rng):
    return [tuple(f) for f in r.apply([tuple(f) for f in files], site, rng)]


def site_ctx(model, r, site):
    try:
        if r.ctx is not None:
            return list(r.ctx(model, site))
        if r.level == 'model' and len(site) >= 5 and isinstance(site[2], str) and isinstance(site[4], tuple):
            return slot_ctx(model, site[:5]) + ([site[5]] if len(site) > 5 and isinstance(site[5], str) else [])
        if r.level == 'model' and site and isinstance(site[-1], str):
            return [site[-1]]
    except Exception:  # noqa: BLE001
        pass
    return []


def sample_sites(model, r, sites, k, rng):
    """up to k sites, one per context class first (so that rare contexts -- a parent in another namespace, a field
    inside a patch, a nested type argument -- are reached)"""
    if len(sites) <= k:
        return list(sites)
    groups = {}
    for s in sites:
        groups.setdefault(tuple(site_ctx(model, r, s)) if r.level == 'model' else (), []).append(s)
    keys = list(groups)
    rng.shuffle(keys)
    out = []
    while len(out) < k and keys:
        for key in list(keys):
            g = groups[key]
            out.append(g.pop(rng.randrange(len(g))))
            if not g:
                keys.remove(key)
            if len(out) >= k:
                break
    return out
